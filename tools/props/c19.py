"""C19 — Model lifecycle: fit is a pure function of its inputs; misuse fails loudly."""
import copy
import warnings

import numpy as np
import pandas as pd

import vcommon as vc

GEN_TARGETS = ('Lifecycle',)
DRIVER_MAIN = 'Main/Lifecycle.lean'
DRIVER_TARGETS = ['CopVerif.Driver.Lifecycle']
ALWAYS_SEARCH = True
RULE = ('tie: for every univariate class (x constructor options: TruncatedGaussian none/min/min+max, GaussianKDE '
        'sample_size none/25 x bw_method) forced discriminating histories [const,A] [A,B] [A,const] [A,B,A] '
        '[const,const2], [c,A] for the special constants c = 0.0, -0.0, tiny (denormal..1e-300), huge (1e150..1e300), '
        '[A,0.0,B], plus random histories of 1-4 fits over a pool of 6 constant and 6 non-constant datasets of '
        'different ranges (normal/uniform/gamma) and sizes (20-80); after every fit the real object is observed '
        '(fitted, to_dict, EVERY public query: cdf/cumulative_distribution, pdf/probability_density, log pdf on 11 probes, '
        'ppf/percent_point on 3, seeded sample(5); whether each of the four bound methods is the constant override, '
        'min/max/_sample_size) and compared with the Lean prediction under each of the 8 variants '
        '(keepOverride, rememberBounds, cacheSize); parameter terms are evaluated by a fresh real instance built '
        'with the options the term names, global RNG pinned before every fit. The same for the Univariate wrapper '
        '(3 candidate lists). Further correspondences: query dispatch, guard table vs what every query of an '
        'unfitted object raises, check_valid_values on 11 invalid + 3 valid inputs x fresh/fitted x 5 models, '
        'get_instance over 4 prototype forms x ~30 prototypes x kwargs, store_args snapshot. Oracles on the real code: '
        'refit vs fresh differential (with the three recorded leaks neutralised it must be exact) on univariate, '
        'wrapper, GaussianMultivariate, bivariate families and vines; vines fitted / evaluated under numpy.empty '
        'poisoned with two different sentinels. A case is distinct by (class, options, history of dataset '
        'descriptors) and non-trivial when the history has >= 2 fits or the input is invalid.')
PARTIAL = ['Props/C19b replaces the hypotheses of refit_pure_partial / unfitted_raises_partial by complete case analyses: refit_pure_iff (exact characterisation over all variants, kinds and option patterns; for the current code impure exactly for TruncatedGaussian missing a bound and GaussianKDE without truthy sample_size, with parametric counterexamples), unfitted_entry_points (a partition of every guard-table row into NotFittedError / NotImplemented / the 7 recorded finding rows / to_dict / Independence), get_instance_classes + get_instance_clone',
           'GaussianKDE keeps `_model` of an earlier non-constant fit through a constant fit and log_probability_density '
           '(not overridden) answers from it: not a flag of the Lean model; the tie skips log pdf for a KDE after a constant '
           'fit and the refit oracle reports it (class GaussianKDE.log_probability_density:stale-model-after-constant-refit)',
           'refit_pure is false of the code as found (refit_pure_asFound_counterexample + the three situations); '
           'refit_pure_partial covers the as-found model on histories avoiding them; the full statement is proved of '
           'the repaired model only',
           'unfitted_raises_partial: the generated guard table proves check_fit-first only for copulas.univariate, '
           'GaussianMultivariate and the density/cdf/conditional/quantile methods of Clayton/Frank/Gumbel; '
           'VineCopula.sample/get_likelihood, Bivariate.sample, Frank/Gumbel.generator are unguarded',
           'get_instance_fresh excludes classes whose __init__ takes options without @store_args '
           '(get_instance_undecorated_counterexample)',
           'uninitialised memory (tau_matrix_reads_written / likelihood_reads_written) is not modelled in Lean here '
           '(C16/C17 own the vine data-flow model); this check establishes it by the two-sentinel differential only']
ASSUMPTIONS = ['the scipy fitters, gaussian_kde.resample (with the global generator pinned) and select_univariate are '
               'deterministic functions of (class, option attributes read, data)',
               'python attribute lookup: an instance attribute shadows the class method',
               'numpy.empty patched at module level reaches every np.empty call of copulas (they are all `np.empty`)']

K_OVR = 'ScipyModel.fit:constant-overrides-survive-refit'
K_BND = 'TruncatedGaussian.fit:bounds-remembered-across-refit'
K_KDE = 'GaussianKDE.fit:sample-size-cached-resamples-on-refit'
K_TAU = 'Tree.get_tau_matrix:reads-unwritten-cells'
K_LIK = 'Edge.get_likelihood:reads-unwritten-cells'
K_TAUSER = 'Tree.get_tau_matrix:unwritten-cells-serialised'
K_CLONE = 'get_instance:undecorated-init-loses-options'
K_STALE = 'GaussianKDE.log_probability_density:stale-model-after-constant-refit'
K_USER = 'TruncatedGaussian.fit:user-bound-not-honoured-or-not-pure'

OVR = ('cumulative_distribution', 'percent_point', 'probability_density', 'sample')
XPROBES = np.array([-5.0, 0.0, 2.5, 3.0, 5.0, 7.0, 10.0, 22.0, 25.0, 28.0, 40.0])
UPROBES = np.array([0.1, 0.5, 0.9])
QUERIES = ('probability_density', 'log_probability_density', 'pdf', 'cumulative_distribution', 'cdf',
           'percent_point', 'ppf', 'partial_derivative', 'partial_derivative_scalar', 'generator',
           'sample', 'get_likelihood', 'to_dict')


def _imports():
    import copulas.univariate as U
    from copulas.univariate.base import Univariate
    return U, Univariate


# ------------------------------------------------------------------------------------- datasets
def make_data(desc):
    return _make_data(desc) * desc.get('sign', 1.0)


def _make_data(desc):
    rs = np.random.RandomState(desc['seed'])
    n, k = desc['n'], desc['kind']
    if k == 'const':
        return np.full(n, float(desc['a']))
    if k == 'normal':
        return rs.normal(desc['a'], desc['b'], n)
    if k == 'uniform':
        return rs.uniform(desc['a'], desc['b'], n)
    if k == 'gamma':
        return rs.gamma(desc['a'], desc['b'], n) + 1.0
    raise ValueError(k)


def pool(rng):
    """2 constant + 6 non-constant datasets of different ranges and sizes."""
    s = lambda: rng.randrange(1 << 30)  # noqa: E731
    sizes = rng.sample(range(20, 81), 8)
    return [
        {'kind': 'const', 'a': 3.0, 'n': sizes[0], 'seed': 0},
        {'kind': 'const', 'a': rng.choice([-2.0, 7.0, 25.0]), 'n': sizes[1], 'seed': 0},
        {'kind': 'normal', 'a': 5.0, 'b': 2.0, 'n': sizes[2], 'seed': s()},
        {'kind': 'uniform', 'a': 20.0, 'b': 30.0, 'n': sizes[3], 'seed': s()},
        {'kind': 'gamma', 'a': 2.0, 'b': 2.0, 'n': sizes[4], 'seed': s()},
        {'kind': 'normal', 'a': rng.uniform(-3, 30), 'b': rng.uniform(0.5, 4), 'n': sizes[5], 'seed': s()},
        {'kind': 'uniform', 'a': rng.uniform(-4, 5), 'b': rng.uniform(6, 35), 'n': sizes[6], 'seed': s()},
        {'kind': 'normal', 'a': 5.0, 'b': 2.0, 'n': sizes[2], 'seed': s()},   # same size as #2, other values
        # constants whose VALUE is special: falsy (0.0, -0.0), tiny, huge — a clean-up or a test written as
        # `if self._constant_value:` / `if constant:` behaves differently exactly there
        {'kind': 'const', 'a': 0.0, 'n': rng.randint(20, 80), 'seed': 0},
        {'kind': 'const', 'a': -0.0, 'n': rng.randint(20, 80), 'seed': 0},
        {'kind': 'const', 'a': rng.choice([5e-324, 1e-300, 2.2250738585072014e-308]), 'n': rng.randint(20, 80), 'seed': 0},
        {'kind': 'const', 'a': rng.choice([1e150, -1e150, 1e300]), 'n': rng.randint(20, 80), 'seed': 0},
    ]


# forced histories over `pool` indices: [const,A] [A,B] [A,const] [A,B,A] [const,const2] ... and every special
# constant followed by a non-constant dataset (and sandwiched between two)
FORCED = [[0, 2], [2, 3], [2, 0], [2, 3, 2], [0, 1], [0, 2, 3], [2, 7], [3, 1, 4],
          [8, 2], [9, 3], [10, 2], [11, 3], [2, 8, 3], [9, 8, 4], [0, 8]]


def facts(X):
    from copulas.utils import EPSILON
    u = np.unique(X)
    const = vc.f2h(float(u[0])) if len(u) == 1 else '-'
    return const, vc.f2h(float(X.min() - EPSILON)), vc.f2h(float(X.max() + EPSILON)), len(X)


# ------------------------------------------------------------------------------------- observation
def feq(a, b, rtol=1e-9, atol=1e-12):
    """structural equality with float tolerance; nan == nan."""
    if isinstance(a, dict) and isinstance(b, dict):
        return set(a) == set(b) and all(feq(a[k], b[k], rtol, atol) for k in a)
    if isinstance(a, (list, tuple, np.ndarray)) and isinstance(b, (list, tuple, np.ndarray)):
        try:
            x, y = np.asarray(a, dtype=float), np.asarray(b, dtype=float)
        except (TypeError, ValueError):
            return len(a) == len(b) and all(feq(p, q, rtol, atol) for p, q in zip(a, b))
        if x.shape != y.shape:
            return False
        with np.errstate(all='ignore'):
            same = (x == y) | (np.isnan(x) & np.isnan(y)) | (np.abs(x - y) <= atol + rtol * np.maximum(1.0, np.maximum(np.abs(x), np.abs(y))))
        return bool(np.all(same))
    if isinstance(a, (float, np.floating, int, np.integer)) and isinstance(b, (float, np.floating, int, np.integer)) \
            and not isinstance(a, bool) and not isinstance(b, bool):
        return feq([float(a)], [float(b)], rtol, atol)
    if a is None or b is None:
        return a is None and b is None
    return a == b


def xeq(a, b):
    """EXACT structural equality: same types, floats bit for bit (nan == nan, 0.0 != -0.0), arrays by dtype and bytes."""
    if isinstance(a, dict) or isinstance(b, dict):
        return isinstance(a, dict) and isinstance(b, dict) and set(a) == set(b) and all(xeq(a[k], b[k]) for k in a)
    if isinstance(a, (list, tuple)) or isinstance(b, (list, tuple)):
        return type(a) is type(b) and len(a) == len(b) and all(xeq(p, q) for p, q in zip(a, b))
    if isinstance(a, np.ndarray) or isinstance(b, np.ndarray):
        return isinstance(a, np.ndarray) and isinstance(b, np.ndarray) and a.dtype == b.dtype and a.shape == b.shape \
            and a.tobytes() == b.tobytes()
    if type(a) is not type(b):
        return False
    if isinstance(a, (float, np.floating)):
        return vc.f2h(a) == vc.f2h(b)
    return a == b


def obs_xdiff(a, b):
    return [k for k in ('fitted', 'override', 'to_dict') + QKEYS if not xeq(a[k], b[k])]


def const_override(m):
    """the constant value if the four bound methods are the constant overrides, None if none is,
    'partial' otherwise."""
    _, Univariate = _imports()
    d = m.__dict__
    target = {'cumulative_distribution': Univariate._constant_cumulative_distribution,
              'percent_point': Univariate._constant_percent_point,
              'probability_density': Univariate._constant_probability_density,
              'sample': Univariate._constant_sample}
    hits = [getattr(d.get(a), '__func__', None) is f for a, f in target.items()]
    if all(hits):
        return float(m._constant_value)
    if not any(a in d for a in target):
        return None
    return 'partial'


def _call(f, *a):
    try:
        with np.errstate(all='ignore'), warnings.catch_warnings():
            warnings.simplefilter('ignore')
            r = f(*a)
        arr = np.asarray(r)
        if arr.dtype == object:      # e.g. an array of None: not a numeric answer at all
            return 'non-numeric ' + repr(arr.ravel().tolist())[:80]
        return np.asarray(r, dtype=float).tolist()
    except Exception as e:  # noqa
        return 'raised ' + vc.exc_kind(e) + ':' + type(e).__name__


def _call_seeded(f, *a):
    """a sampler with the global generator pinned (objects with their own random_state use that)."""
    st = np.random.get_state()
    np.random.seed(97531)
    try:
        return _call(f, *a)
    finally:
        np.random.set_state(st)


# every public query of a univariate object: canonical names and their aliases, seeded sample
QKEYS = ('cdf', 'cumulative_distribution', 'pdf', 'probability_density', 'logpdf', 'ppf', 'percent_point', 'sample')
NSAMPLE = 5


def observe(m):
    """what a caller can see of a univariate object."""
    inner = getattr(m, '_instance', None) if type(m).__name__ == 'Univariate' else m
    try:
        td = m.to_dict()
        td = {k: (np.asarray(v, dtype=float).tolist() if isinstance(v, (list, np.ndarray)) else v) for k, v in td.items()}
    except Exception as e:  # noqa
        td = 'raised ' + vc.exc_kind(e)
    return {'fitted': bool(m.fitted), 'override': const_override(inner) if inner is not None else None,
            'to_dict': td, 'cdf': _call(m.cdf, XPROBES), 'cumulative_distribution': _call(m.cumulative_distribution, XPROBES),
            'pdf': _call(m.pdf, XPROBES), 'probability_density': _call(m.probability_density, XPROBES),
            'logpdf': _call(m.log_probability_density, XPROBES),
            'ppf': _call(m.ppf, UPROBES), 'percent_point': _call(m.percent_point, UPROBES),
            'sample': _call_seeded(m.sample, NSAMPLE)}


def hidden(m):
    return {'min': getattr(m, 'min', None), 'max': getattr(m, 'max', None), 'ss': getattr(m, '_sample_size', None)}


def obs_equal(a, b):
    return not obs_diff(a, b)


def obs_diff(a, b):
    return [k for k in ('fitted', 'override', 'to_dict') + QKEYS if not feq(a[k], b[k])]


def fit_pinned(m, X, seed):
    """fit with the global generator pinned (a resampling fit is then a function of its inputs)."""
    st = np.random.get_state()
    np.random.seed(seed)
    try:
        with warnings.catch_warnings(), np.errstate(all='ignore'):
            warnings.simplefilter('ignore')
            m.fit(X)
    finally:
        np.random.set_state(st)


# ------------------------------------------------------------------------------------- configurations
def uni_configs():
    U, _ = _imports()
    cfgs = []
    for name in ('BetaUnivariate', 'GammaUnivariate', 'GaussianUnivariate', 'LogLaplace', 'StudentTUnivariate',
                 'UniformUnivariate'):
        cfgs.append((name, {}))
    cfgs += [('TruncatedGaussian', {}), ('TruncatedGaussian', {'minimum': -100.0}),
             ('TruncatedGaussian', {'minimum': -100.0, 'maximum': 200.0}),
             ('GaussianKDE', {}), ('GaussianKDE', {'bw_method': 'silverman'}), ('GaussianKDE', {'sample_size': 25}),
             ('GaussianKDE', {'sample_size': 25, 'bw_method': 0.5})]
    return [(getattr(U, n), kw) for n, kw in cfgs]


def build(cls, kw):
    return cls(**copy.deepcopy(kw))


class Refs:
    """evaluation of parameter terms by fresh real instances (the external fitters)."""

    def __init__(self, cls, kw, data):
        self.cls, self.kw, self.data, self.cache = cls, kw, data, {}

    def get(self, cls, term, seed):
        key = (cls.__name__, term, seed)
        if key in self.cache:
            return self.cache[key]
        parts = term.split(':')
        other = {k: v for k, v in self.kw.items() if k not in ('minimum', 'maximum', 'sample_size')} \
            if cls is self.cls else {}
        name = cls.__name__
        if parts[0] == 'const':
            size, did = int(parts[1]), int(parts[2])
            if name == 'GaussianKDE':
                other['sample_size'] = size
        else:
            mn, mx, ss, did = parts[1], parts[2], parts[3], int(parts[4])
            if name == 'TruncatedGaussian':
                other['minimum'] = None if mn == '-' else vc.h2f(mn)
                other['maximum'] = None if mx == '-' else vc.h2f(mx)
            if name == 'GaussianKDE':
                other['sample_size'] = None if ss == '-' else int(ss)
        ref = cls(**other)
        try:
            fit_pinned(ref, self.data[did], seed)
            out = observe(ref)
        except Exception as e:  # noqa
            out = {'error': type(e).__name__ + ': ' + str(e)[:80]}
        self.cache[key] = out
        return out


def expected_from_step(step, ref_obs):
    """prediction (one `fit`) -> expected observation."""
    fitted, ov, term, mn, mx, ss = step.split(';')
    if 'error' in ref_obs:
        return None
    c = None if ov == '-' else vc.h2f(ov)
    exp = {'fitted': fitted == '1', 'override': c, 'to_dict': ref_obs['to_dict']}
    if c is None:
        for k in QKEYS:
            exp[k] = ref_obs[k]
    else:
        exp['cdf'] = exp['cumulative_distribution'] = (XPROBES >= c).astype(float).tolist()
        exp['ppf'] = exp['percent_point'] = np.full(UPROBES.shape, c).tolist()
        exp['pdf'] = exp['probability_density'] = (XPROBES == c).astype(float).tolist()
        exp['sample'] = np.full(NSAMPLE, c).tolist()
        exp['logpdf'] = ref_obs['logpdf']      # log_probability_density is not among the overridden attributes
    exp['hidden'] = {'min': None if mn == '-' else vc.h2f(mn), 'max': None if mx == '-' else vc.h2f(mx),
                     'ss': None if ss == '-' else int(ss)}
    return exp


VARIANTS = [f'{a}{b}{c}' for a in '01' for b in '01' for c in '01']


def run_history(cls, kw, descs, seed0):
    """the real object through a history: list of (obs, hidden) or None if a fit raised."""
    m = build(cls, kw)
    out = []
    for i, d in enumerate(descs):
        try:
            fit_pinned(m, make_data(d), seed0 + i)
        except Exception:  # noqa
            return None, m
        out.append((observe(m), hidden(m)))
    return out, m


def tie_histories(ctx, lean):
    name = 'corr:fit-history'
    if lean is None:
        ctx.ob(name, False, 'tie', 'driver unavailable')
        return None
    rng = ctx.rng('hist')
    consistent = {}
    first_bad = None
    witness = {}           # flag index -> (cls, kw, history) that rules out the flag being off
    n_random = 3 * ctx.scale
    for cls, kw in uni_configs():
        P = pool(rng)
        data = [make_data(d) for d in P]
        fx = [facts(X) for X in data]
        hists = FORCED + [[rng.randrange(len(P)) for _ in range(rng.randint(1, 4))] for _ in range(n_random)]
        refs = Refs(cls, kw, data)
        ck = (cls.__name__, tuple(sorted((k, repr(v)) for k, v in kw.items())))
        cons = set(VARIANTS)
        mn = vc.f2h(kw['minimum']) if kw.get('minimum') is not None else '-'
        mx = vc.f2h(kw['maximum']) if kw.get('maximum') is not None else '-'
        ss = str(kw['sample_size']) if kw.get('sample_size') is not None else '-'
        for h in hists:
            seed0 = rng.randrange(1 << 20)
            real, _ = run_history(cls, kw, [P[i] for i in h], seed0)
            kinds = ''.join('c' if P[i]['kind'] == 'const' else 'n' for i in h)
            ctx.count(f'hist:{cls.__name__}:{kinds}')
            if real is None:
                ctx.count('hist:skipped-fit-raised:' + cls.__name__ + ':' + ','.join(str(P[i]['a']) for i in h if P[i]['kind'] == 'const'))
                continue
            ctx.case((ck, tuple(h), seed0), nontrivial=len(h) >= 2)
            req_tail = f'{cls.__name__} {mn} {mx} {ss} {len(h)} ' + ' '.join(
                f'{i} {fx[i][0]} {fx[i][1]} {fx[i][2]} {fx[i][3]}' for i in h)
            for v in VARIANTS:
                r = lean.ask(f'life hist {v} {req_tail}').split()
                ok = r[:1] == ['ok'] and len(r) == 2 + len(h)
                why = None
                if not ok:
                    why = {'reply': ' '.join(r)[:200]}
                else:
                    for j, step in enumerate(r[2:]):
                        exp = expected_from_step(step, refs.get(cls, step.split(';')[2], seed0 + j))
                        if exp is None:
                            ctx.count('hist:reference-fit-raised')
                            continue
                        ob, hid = real[j]
                        # GaussianKDE keeps `_model` of an earlier non-constant fit through a constant one and
                        # log_probability_density (not overridden) answers from it: not a flag of the model; the
                        # refit oracle reports it under K_STALE
                        skip = ('logpdf',) if cls.__name__ == 'GaussianKDE' and step.split(';')[2].startswith('const') else ()
                        dd = [k for k in obs_diff(ob, exp) if k not in skip]
                        if dd:
                            ok, why = False, {'step': j, 'differs': dd}
                            break
                        if v[1] == '1' and not (feq(hid['min'], exp['hidden']['min']) and feq(hid['max'], exp['hidden']['max'])):
                            ok, why = False, {'step': j, 'differs': ['self.min/self.max'], 'real': hid, 'model': exp['hidden']}
                            break
                        if v[2] == '1' and hid['ss'] != exp['hidden']['ss']:
                            ok, why = False, {'step': j, 'differs': ['_sample_size'], 'real': hid, 'model': exp['hidden']}
                            break
                if not ok:
                    if v in cons:
                        cons.discard(v)
                        # which flags does this history decide?
                        for fi in range(3):
                            flipped = v[:fi] + ('1' if v[fi] == '0' else '0') + v[fi + 1:]
                            if v[fi] == '0' and flipped not in witness.get(fi, {}):
                                witness.setdefault(fi, {})[v] = (cls.__name__, kw, [P[i] for i in h], seed0)
                    if v == '111' and first_bad is None:
                        first_bad = {'class': cls.__name__, 'ctor': kw, 'history': [P[i] for i in h], 'why': why}
        consistent[ck] = cons
        ctx.sample({'class': cls.__name__, 'ctor': {k: repr(v) for k, v in kw.items()}, 'consistent_variants': sorted(cons)})
    # global variant: the flags on which every class agrees
    empty = [k for k, c in consistent.items() if not c]
    flags = []
    for fi in range(3):
        vals = set()
        for k, c in consistent.items():
            kind = 'truncated' if k[0] == 'TruncatedGaussian' else 'kde' if k[0] == 'GaussianKDE' else 'scipy'
            relevant = fi == 0 or (fi == 1 and kind == 'truncated' and not all(x in dict(k[1]) for x in ('minimum', 'maximum'))) \
                or (fi == 2 and kind == 'kde' and 'sample_size' not in dict(k[1]))
            if relevant and c:
                vals |= {v[fi] for v in c}
        flags.append(vals)
    undecided = [i for i, v in enumerate(flags) if len(v) != 1]
    detail = 'ok: real code refines variant ' + ''.join(next(iter(v)) if len(v) == 1 else '?' for v in flags) + \
        ' (keepOverride, rememberBounds, cacheSize)'
    okk = not empty and not undecided
    if empty:
        detail = {'no variant of the model matches': [list(map(str, k)) for k in empty][:3], 'first mismatch of as-found': first_bad}
    elif undecided:
        detail = {'flags not decided by the histories': undecided, 'flags': [sorted(v) for v in flags]}
    ctx.ob(name, okk, 'tie', detail)
    ctx.notes.append(f'fit-history tie: {detail if isinstance(detail, str) else "see obligation"}')
    return [next(iter(v)) if len(v) == 1 else None for v in flags]


def tie_wrapper(ctx, lean):
    name = 'corr:wrapper-history'
    if lean is None:
        return ctx.ob(name, False, 'tie', 'driver unavailable')
    U, Univariate = _imports()
    rng = ctx.rng('wrapper')
    bad = None
    cand_lists = [[U.GaussianUnivariate, U.UniformUnivariate], [U.GaussianUnivariate, U.TruncatedGaussian, U.UniformUnivariate],
                  [U.GaussianKDE, U.GaussianUnivariate]]
    for cands in cand_lists:
        P = pool(rng)
        data = [make_data(d) for d in P]
        fx = [facts(X) for X in data]
        hists = [[0, 2], [2, 3], [2, 0, 3], [8, 2], [9, 3], [10, 2], [11, 3], [2, 8, 3]] + [[rng.randrange(len(P)) for _ in range(rng.randint(1, 4))]
                                               for _ in range(2 * ctx.scale)]
        for h in hists:
            seed0 = rng.randrange(1 << 20)
            w = Univariate(candidates=list(cands))
            real = []
            try:
                for j, i in enumerate(h):
                    fit_pinned(w, data[i], seed0 + j)
                    real.append((observe(w), type(w._instance)))
            except Exception:  # noqa
                ctx.count('whist:skipped-fit-raised')
                continue
            ctx.case(('wrapper', tuple(c.__name__ for c in cands), tuple(h), seed0), nontrivial=len(h) >= 2)
            ctx.count('whist:' + ''.join('c' if P[i]['kind'] == 'const' else 'n' for i in h))
            tail = f'{len(h)} ' + ' '.join(f'{real[j][1].__name__} {i} {fx[i][0]} {fx[i][1]} {fx[i][2]} {fx[i][3]}'
                                          for j, i in enumerate(h))
            for v in ('111', '000'):
                r = lean.ask(f'life whist {v} {tail}').split()
                if r[:1] != ['ok'] or len(r) != 1 + len(h):
                    bad = bad or {'reply': ' '.join(r)[:200]}
                    continue
                for j, st in enumerate(r[1:]):
                    parts = st.split(';')
                    wf, icls, step = parts[0], parts[1], ';'.join(parts[2:])
                    refs = Refs(real[j][1], {}, data)
                    exp = expected_from_step(step, refs.get(real[j][1], step.split(';')[2], seed0 + j))
                    if exp is None:
                        continue
                    exp['fitted'] = wf == '1'
                    if not (obs_equal(real[j][0], exp) and icls == real[j][1].__name__):
                        bad = bad or {'candidates': [c.__name__ for c in cands], 'history': [P[i] for i in h], 'step': j,
                                      'variant': v, 'differs': obs_diff(real[j][0], exp)}
    ctx.ob(name, bad is None, 'tie', bad or 'ok')


def tie_query_dispatch(ctx, lean):
    """which method set answers: unfitted -> NotFittedError; constant -> the constants (log pdf is not
    overridden); regular otherwise."""
    name = 'corr:query-dispatch'
    if lean is None:
        return ctx.ob(name, False, 'tie', 'driver unavailable')
    U, _ = _imports()
    bad = None
    A = make_data({'kind': 'normal', 'a': 5.0, 'b': 2.0, 'n': 40, 'seed': 5})
    C = np.full(30, 3.0)
    qs = {'cdf': 'cumulative_distribution', 'ppf': 'percent_point', 'pdf': 'probability_density', 'sample': 'sample',
          'logpdf': 'log_probability_density'}
    for cname in ('GaussianUnivariate', 'UniformUnivariate', 'GammaUnivariate', 'TruncatedGaussian'):
        cls = getattr(U, cname)
        for state, mk in (('unfitted', lambda: cls()), ('const', lambda: _fitted(cls, C)), ('regular', lambda: _fitted(cls, A)),
                          ('const-then-regular', lambda: _fitted(cls, C, A)),
                          ('const0', lambda: _fitted(cls, np.zeros(25))),
                          ('const0-then-regular', lambda: _fitted(cls, np.zeros(25), A)),
                          ('const-0-then-regular', lambda: _fitted(cls, np.full(25, -0.0), A))):
            m = mk()
            ov = const_override(m)
            if ov == 'partial':      # the model installs / removes the four overrides together
                bad = bad or {'class': cname, 'state': state, 'real': 'only some of the constant overrides are bound: '
                              + ','.join(a for a in OVR if a in m.__dict__), 'model': 'all four or none'}
                continue
            for q, meth in qs.items():
                pred = lean.ask(f'life query {int(m.fitted)} {"-" if ov is None else vc.f2h(ov)} {int(m._params is not None)} {q}')
                arg = 3 if q == 'sample' else (UPROBES if q == 'ppf' else XPROBES)
                try:
                    with np.errstate(all='ignore'):
                        val = np.asarray(getattr(m, meth)(arg), dtype=float)
                    if ov is not None and q != 'logpdf':
                        expc = {'cdf': (XPROBES >= ov).astype(float), 'ppf': np.full(3, ov), 'sample': np.full(3, ov),
                                'pdf': (XPROBES == ov).astype(float)}[q]
                        real = 'const ' + vc.f2h(ov) if feq(val, expc) else 'reg'
                    else:
                        real = 'reg'
                except Exception as e:  # noqa
                    real = 'err ' + vc.exc_kind(e)
                ctx.case(('dispatch', cname, state, q))
                if real != pred and bad is None:
                    bad = {'class': cname, 'state': state, 'query': q, 'real': real, 'model': pred}
    ctx.ob(name, bad is None, 'tie', bad or 'ok')


def _fitted(cls, *datasets):
    m = cls()
    for X in datasets:
        fit_pinned(m, X, 1)
    return m


# ------------------------------------------------------------------------- refit oracle (real code only)
def neutralise(m, which=('override', 'bounds', 'size', 'model')):
    """undo recorded leaks on a univariate object (constructor options from __args__/__kwargs__)."""
    if 'override' in which:
        for a in OVR + ('_constant_value',):
            m.__dict__.pop(a, None)
    if 'model' in which:
        m.__dict__.pop('_model', None)
    fresh = type(m)(*copy.deepcopy(getattr(m, '__args__', ())), **copy.deepcopy(getattr(m, '__kwargs__', {})))
    attrs = (('min', 'max') if 'bounds' in which else ()) + (('_sample_size',) if 'size' in which else ())
    for a in attrs:
        if hasattr(fresh, a):
            setattr(m, a, getattr(fresh, a))


def refit_oracle(ctx, cls, kw, descs, seed0, report=True):
    """`m1.fit(h[0..n-2]); m1.fit(last)` vs `m2.fit(last)`.  Returns the set of class keys found."""
    if len(descs) < 2:
        return set()
    last = make_data(descs[-1])
    seed = seed0 + len(descs) - 1
    m1 = build(cls, kw)
    try:
        for i, d in enumerate(descs[:-1]):
            fit_pinned(m1, make_data(d), seed0 + i)
        m3 = copy.deepcopy(m1)
        fit_pinned(m1, last, seed)
        m2 = build(cls, kw)
        fit_pinned(m2, last, seed)
    except Exception:  # noqa
        ctx.count('oracle:skipped-fit-raised:' + cls.__name__)
        return set()
    o1, o2 = observe(m1), observe(m2)
    found = set()
    if obs_equal(o1, o2):
        return found
    diffs = obs_diff(o1, o2)
    inp = {'class': cls.__name__, 'ctor': {k: repr(v) for k, v in kw.items()}, 'ctor_raw': kw, 'history': descs, 'seed0': seed0}
    obsd = {'differs': diffs, 'refit': _brief(o1), 'fresh': _brief(o2)}
    # attribute the difference: a recorded leak is a cause iff undoing it alone changes what the refit gives
    causes = []
    for which, key in (('override', K_OVR), ('bounds', K_BND), ('size', K_KDE), ('model', K_STALE)):
        mk = copy.deepcopy(m3)
        neutralise(mk, (which,))
        try:
            fit_pinned(mk, last, seed)
            if not obs_equal(observe(mk), o1):
                causes.append(key)
        except Exception:  # noqa
            pass
    # with all recorded leaks undone the refit must be exact
    neutralise(m3)
    try:
        fit_pinned(m3, last, seed)
        o3 = observe(m3)
        clean = obs_equal(o3, o2)
    except Exception:  # noqa
        clean, o3 = False, None
    if not causes or not clean:
        causes.append(f'{cls.__name__}.fit:refit-differs-from-fresh')
        obsd['after_neutralising_recorded_leaks'] = None if o3 is None else obs_diff(o3, o2)
    surviving = [a for a in OVR if a in m1.__dict__] if len(np.unique(last)) > 1 else []
    if K_OVR in causes and 0 < len(surviving) < len(OVR):
        # only some of the instance-level constant methods survived: name them
        causes = [k for k in causes if k != K_OVR] + [f'ScipyModel.fit:{a}-override-survives-refit' for a in surviving]
        obsd['surviving_instance_overrides'] = surviving
    for k in causes:
        found.add(k)
        if report:
            ctx.fail_input(f'copulas.univariate.{cls.__name__}.fit', dict(inp, cause=k), obsd,
                           'a model re-fitted on X is observably identical to a fresh model fitted on X', k)
    return found


K_WSEL = 'Univariate.fit:refit-keeps-first-selected-family'


def wrapper_configs():
    """the selecting wrapper: default candidates, explicit candidate lists, filters; `cost` = how many histories
    the quick tier affords (a default-candidate fit tries all eight families)."""
    U, _ = _imports()
    PT, BT = U.ParametricType, U.BoundedType
    return [('Univariate(candidates=[Gaussian, Uniform])', lambda: U.Univariate(candidates=[U.GaussianUnivariate, U.UniformUnivariate]), 99),
            ('Univariate(candidates=[Gaussian, Uniform, Gamma])',
             lambda: U.Univariate(candidates=[U.GaussianUnivariate, U.UniformUnivariate, U.GammaUnivariate]), 99),
            ('Univariate(candidates=[Uniform, Gaussian, TruncatedGaussian])',
             lambda: U.Univariate(candidates=[U.UniformUnivariate, U.GaussianUnivariate, U.TruncatedGaussian]), 6),
            ('Univariate(parametric=PARAMETRIC, bounded=BOUNDED)', lambda: U.Univariate(parametric=PT.PARAMETRIC, bounded=BT.BOUNDED), 3),
            ('Univariate(parametric=PARAMETRIC, bounded=UNBOUNDED)', lambda: U.Univariate(parametric=PT.PARAMETRIC, bounded=BT.UNBOUNDED), 2),
            ('Univariate(parametric=PARAMETRIC)', lambda: U.Univariate(parametric=PT.PARAMETRIC), 1),
            ('Univariate()', lambda: U.Univariate(), 1)]


def oracle_wrapper(ctx, rng, n_random, budget=1):
    """`w.fit(A); w.fit(B)` vs fresh `w2.fit(B)` for the selecting wrapper, on histories where the WINNING FAMILY
    changes between fits; every query and to_dict()['type'], bit for bit (same code on the same data)."""
    found = {}
    checked = changed_winner = 0
    for label, mk, cost in wrapper_configs():
        s = lambda: rng.randrange(1 << 30)  # noqa: E731
        P = [{'kind': 'uniform', 'a': 20.0, 'b': 30.0, 'n': 60, 'seed': s()},      # 0: uniform wins
             {'kind': 'normal', 'a': 5.0, 'b': 2.0, 'n': 60, 'seed': s()},         # 1: gaussian-like wins
             {'kind': 'gamma', 'a': 1.5, 'b': 3.0, 'n': 70, 'seed': s()},          # 2: skewed: gamma-like wins
             {'kind': 'const', 'a': 3.0, 'n': 30, 'seed': 0},                      # 3
             {'kind': 'uniform', 'a': -4.0, 'b': 2.0, 'n': 45, 'seed': s()}]       # 4
        hists = [[0, 1], [3, 1], [1, 2], [1, 3, 0], [1, 0], [2, 4], [3, 0], [0, 2, 1]][:cost * budget] + \
            [[rng.randrange(len(P)) for _ in range(rng.randint(2, 3))] for _ in range(n_random if cost >= 6 else 0)]
        for h in hists:
            descs = [P[i] for i in h]
            seed0 = rng.randrange(1 << 20)
            try:
                w1 = mk()
                winners = []
                for j, d in enumerate(descs):
                    fit_pinned(w1, make_data(d), seed0 + j)
                    winners.append(type(w1._instance).__name__)
                w2 = mk()
                fit_pinned(w2, make_data(descs[-1]), seed0 + len(descs) - 1)
            except Exception as e:  # noqa
                ctx.count('wrapper-oracle:skipped-fit-raised:' + type(e).__name__)
                continue
            checked += 1
            fresh_winner = type(w2._instance).__name__
            moved = len(set(winners[:-1] + [fresh_winner])) > 1
            changed_winner += moved
            ctx.case(('wrapper-oracle', label, tuple(h), seed0), nontrivial=moved)
            ctx.count('wrapper-oracle:' + ('winner-changes' if moved else 'same-winner'))
            o1, o2 = observe(w1), observe(w2)
            dd = obs_xdiff(o1, o2)
            if dd or winners[-1] != fresh_winner:
                key = K_WSEL if winners[-1] != fresh_winner else 'Univariate.fit:refit-differs-from-fresh'
                found[key] = found.get(key, 0) + 1
                ctx.fail_input('copulas.univariate.Univariate.fit', {'wrapper': label, 'history': descs, 'seed0': seed0},
                               {'differs': dd, 'family_after_each_fit': winners, 'family_of_fresh_fit_on_last': fresh_winner,
                                'refit': _brief(o1), 'fresh': _brief(o2)},
                               'a wrapper re-fitted on X is observably identical to a fresh wrapper fitted on X '
                               '(same selected family, parameters and answers)', key)
    return found, checked, changed_winner


K_BFIT = 'Bivariate.check_fit:fitted-model-reported-unfitted'


def permutation_sample(n, surplus):
    """n tie-free points with (concordant - discordant) = surplus: a permutation with a prescribed number of
    inversions, from its Lehmer code (deterministic)."""
    pairs = n * (n - 1) // 2
    left = (pairs - surplus) // 2
    remaining = list(range(n))
    perm = []
    for i in range(n):
        code = min(n - 1 - i, left)
        left -= code
        perm.append(remaining.pop(code))
        if not left:
            perm.extend(remaining)
            break
    return np.column_stack([(np.arange(n) + 0.5) / n, (np.array(perm) + 0.5) / n])


def check_fitted_answers(ctx):
    """the converse of `unfitted raises`: a bivariate copula that fit() accepted (or that carries a valid parameter
    set directly / through from_dict) is FITTED: no query entry point may raise NotFittedError."""
    from copulas.bivariate import Bivariate, Clayton, Frank, Gumbel
    X = np.array([[0.2, 0.3], [0.5, 0.6], [0.9, 0.1]])
    queries = {
        'probability_density': lambda m: m.probability_density(X), 'pdf': lambda m: m.pdf(X),
        'log_probability_density': lambda m: m.log_probability_density(X),
        'cumulative_distribution': lambda m: m.cumulative_distribution(X), 'cdf': lambda m: m.cdf(X),
        'partial_derivative': lambda m: m.partial_derivative(X),
        'partial_derivative_scalar': lambda m: m.partial_derivative_scalar(0.2, 0.3),
        'percent_point': lambda m: m.percent_point(X[:, 0], X[:, 1]), 'ppf': lambda m: m.ppf(X[:, 0], X[:, 1]),
        'generator': lambda m: m.generator(X[:, 0]), 'sample': lambda m: m.sample(3), 'check_fit': lambda m: m.check_fit(),
    }
    models = []
    data = {2: permutation_sample(10000, 2), 4: permutation_sample(10000, 4), 1200000: permutation_sample(10000, 1200000)}
    for fam in (Clayton, Frank, Gumbel):
        for surplus, D in data.items():
            m = fam()
            try:
                _quiet(m.fit, D)
            except Exception as e:  # noqa
                ctx.count(f'fitted-answers:fit-raised:{fam.__name__}:{type(e).__name__}')
                continue
            models.append((f'{fam.__name__}().fit(permutation_sample(10000, surplus={surplus}))', m,
                           {'family': fam.__name__, 'how': 'fit', 'n': 10000, 'concordant_minus_discordant': surplus}))
    for fam, thetas in ((Clayton, (1e-8, 5e-8, 1e-7, 3e-7)), (Frank, (1e-8, -1e-8, 1e-7, -1e-7)), (Gumbel, (1.0 + 1e-8, 1.0 + 1e-7))):
        for th in thetas:
            m = fam()
            m.theta, m.tau = th, 1e-8
            models.append((f'{fam.__name__}(); theta = {th!r}', m, {'family': fam.__name__, 'how': 'theta set directly', 'theta': th}))
            m2 = Bivariate.from_dict({'copula_type': fam.copula_type.name, 'theta': th, 'tau': 1e-8})
            models.append((f'{fam.__name__}.from_dict(theta={th!r})', m2, {'family': fam.__name__, 'how': 'from_dict', 'theta': th}))
    bad = None
    for label, m, inp in models:
        try:
            m.check_theta()
        except Exception:  # noqa
            ctx.count('fitted-answers:invalid-theta-skipped')
            continue
        if not m.theta:
            ctx.count('fitted-answers:theta-zero-skipped')       # C10's finding (Clayton accepts tau = 0), not this one
            continue
        unfit = []
        for q, f in queries.items():
            try:
                _quiet(f, m)
                ctx.count('fitted-answers:answered')
            except Exception as e:  # noqa
                if type(e).__name__ == 'NotFittedError':
                    unfit.append(q)
                else:
                    ctx.count('fitted-answers:other-error:' + type(e).__name__)
        ctx.case(('fitted-answers', label))
        if unfit:
            ctx.fail_input(f'{inp["family"]}.check_fit', dict(inp, model=label, theta=float(m.theta), tau=float(m.tau)),
                           {'NotFittedError_from': unfit},
                           'only unfitted models raise NotFittedError: a copula whose fit() succeeded (or that carries a valid '
                           'parameter) answers every query', K_BFIT)
            bad = bad or {'model': label, 'theta': float(m.theta), 'NotFittedError_from': unfit}
    ctx.ob('oracle:fitted-bivariate-answers', bad is None, 'tie', bad or 'ok')


K_FBK = 'GaussianMultivariate.fit:fallback-remembered-across-refit'
K_MUT = 'GaussianMultivariate.fit:mutates-user-distribution-argument'
K_SSS = 'Univariate.fit:selection-depends-on-global-rng-at-boundary'


def _picky_class():
    """a marginal CLASS that cannot be fitted on fewer than 80 rows (class form of the fallback scenario)."""
    U, _ = _imports()
    global _Picky
    if '_Picky' not in globals():
        class _Picky(U.GaussianUnivariate):
            def _fit(self, X):
                if len(X) < 80:
                    raise ValueError('needs at least 80 rows')
                super()._fit(X)
        globals()['_Picky'] = _Picky
    return globals()['_Picky']


def _dist_snapshot(d):
    """identity + content of the user's `distribution` argument."""
    if isinstance(d, dict):
        return ('dict', tuple((k, id(v), canon(v.__dict__) if hasattr(v, '__dict__') and not isinstance(v, type) else repr(v))
                              for k, v in d.items()))
    if hasattr(d, '__dict__') and not isinstance(d, type):
        return ('inst', id(d), canon(d.__dict__))
    return ('plain', repr(d))


def oracle_fallback_refit(ctx, rng):
    """GaussianMultivariate whose configured marginal RAISES on the first table (the Gaussian fallback engages)
    and is then re-fitted on a table the marginal can handle: the refit must equal a fresh equal model, and `fit`
    must never modify the `distribution` object the user passed."""
    from copulas.multivariate import GaussianMultivariate
    U, _ = _imports()
    Picky = _picky_class()
    w = np.linspace(1.0, 2.0, 100)
    forms = {
        # (every column is named: an unnamed one would get the default selecting wrapper, which is slow)
        'dict{a: GaussianKDE(weights=w100) instance, b: Uniform class, c: Gaussian class}':
            lambda: {'a': U.GaussianKDE(weights=w.copy()), 'b': U.UniformUnivariate, 'c': U.GaussianUnivariate},
        'dict{a: Gaussian name, b: GaussianKDE(weights=w100, bw_method=0.5) instance, c: Gaussian class}':
            lambda: {'a': 'copulas.univariate.gaussian.GaussianUnivariate', 'b': U.GaussianKDE(weights=w.copy(), bw_method=0.5),
                     'c': U.GaussianUnivariate},
        'dict{a: class failing on < 80 rows, b: Uniform class, c: TruncatedGaussian instance}':
            lambda: {'a': Picky, 'b': U.UniformUnivariate, 'c': U.TruncatedGaussian(minimum=-50.0, maximum=90.0)},
        'instance GaussianKDE(weights=w100)': lambda: U.GaussianKDE(weights=w.copy()),
        'class failing on < 80 rows': lambda: Picky,
    }
    found = {}
    checked = 0
    for label, mkd in forms.items():
        for hist in ([60, 100], [100, 60, 100], [60, 45, 100]):
            seeds = [rng.randrange(1 << 30) for _ in hist]
            frames = [mv_frame({'n': n, 'k': 3, 'seed': sd, 'shift': 5.0}).rename(columns={'c0': 'a', 'c1': 'b', 'c2': 'c'})
                      for n, sd in zip(hist, seeds)]
            inp = {'distribution': label, 'rows_of_each_fit': hist, 'data_seeds': seeds,
                   'data': 'mv_frame(n, k=3, seed, shift=5.0) with columns a,b,c'}
            try:
                d1 = mkd()
                gm1 = GaussianMultivariate(distribution=d1)
                snap = _dist_snapshot(d1)
                fell_back = False
                mutated_after = None
                for j, fr in enumerate(frames):
                    _quiet(fit_pinned, gm1, fr, 11 + j)
                    kinds = [type(u).__name__ for u in gm1.univariates]
                    fell_back = fell_back or (fr.shape[0] < 80 and 'GaussianUnivariate' in kinds)
                    if mutated_after is None and _dist_snapshot(d1) != snap:
                        mutated_after = j + 1
                gm2 = GaussianMultivariate(distribution=mkd())
                _quiet(fit_pinned, gm2, frames[-1], 11 + len(frames) - 1)
            except Exception as e:  # noqa
                ctx.count('fallback:skipped-fit-raised:' + type(e).__name__)
                continue
            checked += 1
            ctx.case(('fallback-refit', label, tuple(hist), tuple(seeds)), nontrivial=fell_back)
            ctx.count('fallback:' + ('engaged' if fell_back else 'not-engaged'))
            if mutated_after is not None:
                found[K_MUT] = found.get(K_MUT, 0) + 1
                now = {k: getattr(v, '__name__', type(v).__name__) for k, v in d1.items()} if isinstance(d1, dict) else type(d1).__name__
                ctx.fail_input('GaussianMultivariate.fit', inp, {'modified_by_fit_number': mutated_after, 'distribution_now': now},
                               'fit does not modify the `distribution` object the caller passed (the constructor arguments stay '
                               'what the user gave)', K_MUT)
            t1 = [type(u).__name__ for u in gm1.univariates]
            t2 = [type(u).__name__ for u in gm2.univariates]
            if mv_view(gm1) != mv_view(gm2) or t1 != t2:
                found[K_FBK] = found.get(K_FBK, 0) + 1
                ctx.fail_input('GaussianMultivariate.fit', inp, {'marginals_of_refitted': t1, 'marginals_of_fresh': t2,
                                                                  'to_dict_equal': mv_view(gm1) == mv_view(gm2)},
                               'a model re-fitted on X is observably identical to a fresh equal model fitted on X', K_FBK)
    return found, checked


def oracle_selection_boundary(ctx, rng):
    """`selection_sample_size` at len(X) and above: all the data are used for the selection, so the fitted wrapper
    must not depend on the state of the global numpy generator (below len(X) a random subsample is documented)."""
    U, _ = _imports()
    PT, BT = U.ParametricType, U.BoundedType
    configs = {
        'candidates=[Uniform, Gaussian, TruncatedGaussian, Gamma]':
            (dict(candidates=[U.UniformUnivariate, U.GaussianUnivariate, U.TruncatedGaussian, U.GammaUnivariate]), (-1, 0, 1)),
        'candidates=[Gaussian, Uniform, Gamma]':
            (dict(candidates=[U.GaussianUnivariate, U.UniformUnivariate, U.GammaUnivariate]), (0, 1)),
        'parametric=PARAMETRIC, bounded=UNBOUNDED': (dict(parametric=PT.PARAMETRIC, bounded=BT.UNBOUNDED), (0,)),
    }
    found = {}
    checked = 0
    states = [rng.randrange(1 << 30) for _ in range(4)]
    for label, (kw, offs) in configs.items():
        for n, dseed in ((24, 5), (50, 6), (rng.randint(20, 40), rng.randrange(1 << 20))):
            X = 1.0 + 4.0 * np.random.RandomState(dseed).triangular(0.0, 0.5, 1.0, n)
            for off in offs:
                sss = n + off
                outs = []
                for st in states:
                    w = U.Univariate(selection_sample_size=sss, **copy.deepcopy(kw))
                    try:
                        fit_pinned(w, X, st)            # `st` = state of the global generator when fit is called
                        o = observe(w)
                        outs.append((type(w._instance).__name__, o))
                    except Exception as e:  # noqa
                        outs.append(('raised ' + type(e).__name__, None))
                checked += 1
                fams = [f for f, _ in outs]
                varies = any(f != fams[0] for f in fams) or any(o is not None and outs[0][1] is not None and obs_xdiff(o, outs[0][1])
                                                                for _, o in outs[1:])
                ctx.case(('sss-boundary', label, n, dseed, off), nontrivial=off >= 0)
                ctx.count(f'sss:{"below" if off < 0 else "at" if off == 0 else "above"}:{"varies" if varies else "stable"}')
                if off >= 0 and varies:
                    found[K_SSS] = found.get(K_SSS, 0) + 1
                    ctx.fail_input('copulas.univariate.Univariate.fit',
                                   {'wrapper': f'Univariate({label}, selection_sample_size={sss})', 'len_X': n,
                                    'data': f'1 + 4*RandomState({dseed}).triangular(0, .5, 1, {n})', 'global_numpy_seeds': states},
                                   {'selected_family_per_global_state': fams},
                                   'with selection_sample_size >= len(X) all data are used: two fresh equal fits on X agree whatever '
                                   'the state of the global numpy generator', K_SSS)
    return found, checked


def user_bound_configs():
    """TruncatedGaussian WITH explicit user bounds: zero (int, 0.0, -0.0) on either side, one-sided, two-sided,
    keyword / positional / mixed; `sign` = which side of 0 the data must lie."""
    cfgs = []
    for z in (0, 0.0, -0.0):
        cfgs += [([], {'minimum': z}, 1), ([z], {}, 1), ([], {'minimum': z, 'maximum': 60.0}, 1), ([z, 60.0], {}, 1),
                 ([], {'maximum': z}, -1), ([None, z], {}, -1), ([], {'minimum': -60.0, 'maximum': z}, -1),
                 ([-60.0], {'maximum': z}, -1)]
    cfgs += [([], {'minimum': -100.0}, 1), ([], {'maximum': 200.0}, 1), ([-100.0, 200.0], {}, 1), ([], {'minimum': 0.5, 'maximum': 55}, 1),
             ([], {'minimum': -100.0}, -1), ([-70, -0.25], {}, -1)]
    return cfgs


def _bounds_of(pos, kw):
    given = dict(zip(('minimum', 'maximum'), pos), **kw)
    return given.get('minimum'), given.get('maximum')


def oracle_user_bounds(ctx, rng, n_random):
    """TruncatedGaussian built with user bounds: (a) the fitted model uses exactly the user's bounds and keeps
    them on the instance, (b) a re-fit equals a fresh fit on every query; a difference that disappears when only
    the side the user left open is reset belongs to the recorded finding K_BND, anything else is K_USER."""
    U, _ = _imports()
    cls = U.TruncatedGaussian
    found = {}
    checked = 0
    for pos, kw, sign in user_bound_configs():
        s = lambda: rng.randrange(1 << 30)  # noqa: E731
        P = [{'kind': 'uniform', 'a': 2.0, 'b': 12.0, 'n': rng.randint(25, 60), 'seed': s(), 'sign': sign},
             {'kind': 'uniform', 'a': 20.0, 'b': 45.0, 'n': rng.randint(25, 60), 'seed': s(), 'sign': sign},
             {'kind': 'normal', 'a': 30.0, 'b': 3.0, 'n': rng.randint(25, 60), 'seed': s(), 'sign': sign},
             {'kind': 'gamma', 'a': 2.0, 'b': 2.0, 'n': rng.randint(25, 60), 'seed': s(), 'sign': sign},
             {'kind': 'const', 'a': 5.0, 'n': 30, 'seed': 0, 'sign': sign}]
        hists = [[0, 1], [1, 0], [2, 3], [4, 1], [0, 4, 2], [0, 1, 0], [0]] + \
            [[rng.randrange(len(P)) for _ in range(rng.randint(2, 4))] for _ in range(n_random)]
        umin, umax = _bounds_of(pos, kw)
        for h in hists:
            seed0 = rng.randrange(1 << 20)
            descs = [P[i] for i in h]
            inp = {'class': 'TruncatedGaussian', 'args': repr(pos), 'kwargs': repr(kw), 'args_raw': pos, 'kwargs_raw': kw,
                   'history': descs, 'seed0': seed0}
            checked += 1
            ctx.case(('user-bounds', repr(pos), repr(kw), sign, tuple(h), seed0), nontrivial=len(h) >= 2)
            ctx.count('user-bounds:' + ('two-sided' if umin is not None and umax is not None else 'one-sided'))
            problems = []
            try:
                m1 = cls(*copy.deepcopy(pos), **copy.deepcopy(kw))
                m3 = None
                for i, d in enumerate(descs):
                    if i == len(descs) - 1:
                        m3 = copy.deepcopy(m1)
                    X = make_data(d)
                    fit_pinned(m1, X, seed0 + i)
                    # (a) honoured
                    for side, ub, attr, par in (('minimum', umin, 'min', 'a'), ('maximum', umax, 'max', 'b')):
                        if ub is None:
                            continue
                        if not feq(getattr(m1, attr), ub):
                            problems.append(f'after fit #{i + 1}: self.{attr} = {getattr(m1, attr)!r}, user gave {side}={ub!r}')
                        if len(np.unique(X)) > 1:
                            p = m1._params
                            eff = float(p['loc'] + p[par] * p['scale'])
                            if not abs(eff - ub) <= 1e-7 * (1 + abs(eff) + abs(float(p['scale']))):
                                problems.append(f'after fit #{i + 1}: fitted support {side} = loc + {par}*scale = {eff!r}, user gave {ub!r}')
                m2 = cls(*copy.deepcopy(pos), **copy.deepcopy(kw))
                fit_pinned(m2, make_data(descs[-1]), seed0 + len(descs) - 1)
            except Exception as e:  # noqa
                ctx.count('user-bounds:skipped-fit-raised:' + type(e).__name__)
                continue
            o1, o2 = observe(m1), observe(m2)
            key = None
            obsd = {}
            if problems:
                key, obsd = K_USER, {'bounds_not_honoured': problems[:4]}
            if not obs_equal(o1, o2):
                obsd.update({'differs': obs_diff(o1, o2), 'refit': _brief(o1), 'fresh': _brief(o2)})
                # reset only the side(s) the user left open (the recorded leak) and the recorded override/size leaks
                open_sides = [a for a, ub in (('min', umin), ('max', umax)) if ub is None]
                for a in open_sides:
                    setattr(m3, a, None)
                try:
                    fit_pinned(m3, make_data(descs[-1]), seed0 + len(descs) - 1)
                    explained = bool(open_sides) and obs_equal(observe(m3), o2)
                except Exception:  # noqa
                    explained = False
                key = key or (K_BND if explained else K_USER)
                if not explained:
                    key = K_USER
            if key:
                found[key] = found.get(key, 0) + 1
                ctx.fail_input('copulas.univariate.TruncatedGaussian.fit', inp, obsd,
                               'a TruncatedGaussian built with user bounds uses exactly those bounds, and re-fitted on X is '
                               'observably identical to a fresh equal model fitted on X', key)
    return found, checked


def _brief(o):
    td = o['to_dict']
    if isinstance(td, dict):
        td = {k: (v if not isinstance(v, list) else f'list[{len(v)}]') for k, v in td.items()}
    out = {'override': o['override'], 'to_dict': td}
    for k in QKEYS:
        out[k] = o[k][:6] if isinstance(o[k], list) else o[k]
    return out


def oracle_uni(ctx, rng, n_random, forced=True):
    found = {}
    checked = 0
    for cls, kw in uni_configs():
        P = pool(rng)
        # always exercised (search too): constant->data for every special constant, data->constant, constant c1->c2
        # (incl. 0 on either side), data A->data B, and a constant sandwiched between data
        special = [[8, 2], [9, 3], [10, 2], [11, 3], [2, 8, 3], [0, 2], [2, 0], [3, 8], [0, 1], [0, 8], [8, 1], [9, 10], [2, 3]]
        hists = ([[2, 7], [0, 2, 3], [2, 0, 3]] if forced else []) + special + \
            [[rng.randrange(len(P)) for _ in range(rng.randint(2, 4))] for _ in range(n_random)]
        for h in hists:
            seed0 = rng.randrange(1 << 20)
            ks = refit_oracle(ctx, cls, kw, [P[i] for i in h], seed0)
            checked += 1
            ctx.case(('oracle', cls.__name__, repr(sorted(kw.items(), key=str)), tuple(h), seed0))
            for k in ks:
                found[k] = found.get(k, 0) + 1
    return found, checked


class poisoned_empty:
    """numpy.empty returning arrays filled with a sentinel (float dtypes only)."""

    def __init__(self, value):
        self.value = value

    def __enter__(self):
        self.orig = np.empty
        orig, val = self.orig, self.value

        def empty(shape, dtype=float, *a, **k):
            r = orig(shape, dtype, *a, **k)
            if np.issubdtype(r.dtype, np.floating):
                r.fill(val)
            return r
        np.empty = empty
        return self

    def __exit__(self, *a):
        np.empty = self.orig


def mv_frame(desc):
    rs = np.random.RandomState(desc['seed'])
    n, k = desc['n'], desc['k']
    z = rs.normal(size=(n, k))
    mix = rs.uniform(-1, 1, size=(k, k))
    x = z @ mix + 0.3 * rs.normal(size=(n, k)) + desc.get('shift', 0.0)
    return pd.DataFrame(x * desc.get('scale', 1.0), columns=[f'c{i}' for i in range(k)])


def canon(x, depth=0):
    """deep canonical form of model state for equality / snapshots."""
    if depth > 12:
        return 'deep'
    if isinstance(x, dict):
        return ('dict', tuple(sorted(((str(k), canon(v, depth + 1)) for k, v in x.items()), key=lambda kv: kv[0])))
    if isinstance(x, (list, tuple)):
        return ('seq', tuple(canon(v, depth + 1) for v in x))
    if isinstance(x, (set, frozenset)):
        return ('set', tuple(sorted(repr(v) for v in x)))
    if isinstance(x, pd.DataFrame):
        return ('df', tuple(map(str, x.columns)), canon(x.to_numpy(), depth + 1))
    if isinstance(x, (pd.Series, pd.Index)):
        return ('ser', canon(np.asarray(x), depth + 1))
    if isinstance(x, np.ndarray):
        if x.dtype == object:
            return ('ndo', x.shape, tuple(canon(v, depth + 1) for v in x.ravel().tolist()))
        return ('nd', x.shape, str(x.dtype), x.tobytes())
    if isinstance(x, np.random.RandomState):
        st = x.get_state()
        return ('rs', st[1].tobytes(), st[2])
    if isinstance(x, (float, np.floating)):
        return ('f', vc.f2h(x))
    if isinstance(x, (int, str, bool, np.integer, np.bool_)) or x is None:
        return x
    if isinstance(x, type) or callable(x):
        return ('callable', getattr(x, '__qualname__', repr(x)))
    if hasattr(x, '__dict__'):
        return ('obj', type(x).__name__, canon(x.__dict__, depth + 1))
    return ('repr', repr(x))


def mv_view(m):
    """observable state of a multivariate / bivariate model."""
    try:
        with warnings.catch_warnings():
            warnings.simplefilter('ignore')
            d = m.to_dict()
    except Exception as e:  # noqa
        d = 'raised ' + vc.exc_kind(e)
    return canon(d)


def mv_models():
    from copulas.multivariate import GaussianMultivariate, VineCopula
    import copulas.univariate as U
    with warnings.catch_warnings():
        warnings.simplefilter('ignore')
        return [
            ('GaussianMultivariate(GaussianUnivariate)', lambda: GaussianMultivariate(distribution=U.GaussianUnivariate)),
            ('GaussianMultivariate({c0:GaussianKDE,c1:TruncatedGaussian;else Gaussian})',
             lambda: GaussianMultivariate(distribution={'c0': U.GaussianKDE, 'c1': U.TruncatedGaussian, 'c2': U.GaussianUnivariate,
                                                        'c3': U.UniformUnivariate})),
            ('GaussianMultivariate(Univariate[2 candidates])',
             lambda: GaussianMultivariate(distribution=U.Univariate(candidates=[U.GaussianUnivariate, U.UniformUnivariate]))),
            ('VineCopula(center)', lambda: VineCopula('center')),
            ('VineCopula(direct)', lambda: VineCopula('direct')),
            ('VineCopula(regular)', lambda: VineCopula('regular')),
        ]


def _quiet(f, *a, **k):
    with warnings.catch_warnings(), np.errstate(all='ignore'):
        warnings.simplefilter('ignore')
        return f(*a, **k)


def oracle_multi(ctx, rng, n_pairs):
    """refit vs fresh on GaussianMultivariate, bivariate families and vines (np.empty pinned to NaN so
    that uninitialised reads cannot masquerade as history dependence)."""
    from copulas.bivariate import Clayton, Frank, Gumbel
    bad = None
    checked = 0
    for label, mk in mv_models():
        for _ in range(n_pairs):
            kA, kB = rng.choice([2, 3, 4]), rng.choice([3, 4])
            dA = {'n': rng.randint(30, 60), 'k': kA, 'seed': rng.randrange(1 << 30), 'shift': rng.uniform(-5, 5), 'scale': rng.uniform(0.5, 5)}
            dB = {'n': rng.randint(30, 60), 'k': kB, 'seed': rng.randrange(1 << 30)}
            seed = rng.randrange(1 << 20)
            with poisoned_empty(float('nan')):
                try:
                    m1, m2 = _quiet(mk), _quiet(mk)
                    _quiet(fit_pinned, m1, mv_frame(dA), seed)
                    _quiet(fit_pinned, m1, mv_frame(dB), seed + 1)
                    _quiet(fit_pinned, m2, mv_frame(dB), seed + 1)
                except Exception:  # noqa
                    ctx.count('multi:skipped-fit-raised')
                    continue
                v1, v2 = mv_view(m1), mv_view(m2)
            checked += 1
            ctx.case(('multi', label, repr(dA), repr(dB)))
            ctx.count('multi:' + label.split('(')[0])
            if v1 != v2:
                cls = label.split('(')[0]
                ctx.fail_input(f'{cls}.fit', {'model': label, 'first': dA, 'second': dB, 'seed': seed},
                               'to_dict() of the re-fitted model differs from the fresh one',
                               'a model re-fitted on X is observably identical to a fresh model fitted on X',
                               f'{cls}.fit:refit-differs-from-fresh')
                bad = bad or {'model': label, 'first': dA, 'second': dB}
    for fam in (Clayton, Frank, Gumbel):
        for _ in range(n_pairs):
            sA, sB = rng.randrange(1 << 30), rng.randrange(1 << 30)
            UA, UB = biv_data(sA, rng.uniform(0.2, 0.8)), biv_data(sB, rng.uniform(0.2, 0.8))
            try:
                m1, m2 = fam(), fam()
                _quiet(m1.fit, UA)
                _quiet(m1.fit, UB)
                _quiet(m2.fit, UB)
            except Exception:  # noqa
                ctx.count('multi:skipped-fit-raised')
                continue
            checked += 1
            ctx.case(('biv', fam.__name__, sA, sB))
            ctx.count('multi:bivariate')
            if mv_view(m1) != mv_view(m2) or canon(m1.__dict__) != canon(m2.__dict__):
                ctx.fail_input(f'{fam.__name__}.fit', {'first_seed': sA, 'second_seed': sB}, [m1.to_dict(), m2.to_dict()],
                               'a model re-fitted on X is observably identical to a fresh model fitted on X',
                               f'{fam.__name__}.fit:refit-differs-from-fresh')
                bad = bad or {'family': fam.__name__}
    return bad, checked


def biv_data(seed, rho):
    from scipy import stats
    rs = np.random.RandomState(seed)
    z = rs.multivariate_normal([0, 0], [[1, rho], [rho, 1]], size=60)
    return stats.norm.cdf(z)


# ------------------------------------------------------------------------- unfitted models
def unfitted_objects():
    import copulas.univariate as U
    from copulas.bivariate import Clayton, Frank, Gumbel
    from copulas.multivariate import GaussianMultivariate, VineCopula
    objs = [(n, (lambda n=n: getattr(U, n)()), 'uni') for n in
            ('BetaUnivariate', 'GammaUnivariate', 'GaussianKDE', 'GaussianUnivariate', 'LogLaplace', 'StudentTUnivariate',
             'TruncatedGaussian', 'UniformUnivariate', 'Univariate')]
    objs += [('GaussianMultivariate', GaussianMultivariate, 'multi'),
             ('VineCopula', lambda: _quiet(VineCopula, 'center'), 'multi'),
             ('VineCopula', lambda: _quiet(VineCopula, 'direct'), 'multi'),
             ('VineCopula', lambda: _quiet(VineCopula, 'regular'), 'multi'),
             ('Clayton', Clayton, 'biv'), ('Frank', Frank, 'biv'), ('Gumbel', Gumbel, 'biv')]
    return objs


def unfitted_args(kind, meth):
    x = np.array([0.2, 0.5])
    X2 = np.array([[0.2, 0.3], [0.5, 0.6]])
    df = pd.DataFrame({'a': [0.1, 0.2], 'b': [0.3, 0.5], 'c': [0.2, 0.9]})
    if meth == 'to_dict':
        return ()
    if meth == 'sample':
        return (3,)
    if kind == 'uni':
        return (x,)
    if kind == 'multi':
        return (np.array([[0.2, 0.3, 0.4]]),) if meth == 'get_likelihood' else (df,)
    if meth in ('percent_point', 'ppf'):
        return (x, x)
    if meth == 'partial_derivative_scalar':
        return (0.2, 0.3)
    if meth == 'generator':
        return (x,)
    return (X2,)


def check_unfitted(ctx, lean):
    name = 'corr:unfitted-guards'
    if lean is None:
        return ctx.ob(name, False, 'tie', 'driver unavailable')
    bad = None
    seen = set()
    for cname, mk, kind in unfitted_objects():
        m = mk()
        for meth in QUERIES:
            pred = lean.ask(f'life guard {cname} {meth}')
            has = callable(getattr(m, meth, None))
            ctx.case(('unfitted', cname, getattr(m, 'vine_type', ''), meth), nontrivial=has)
            if not has:
                if pred != 'absent' and bad is None:
                    bad = {'class': cname, 'method': meth, 'model': pred, 'real': 'no such method'}
                continue
            try:
                r = _quiet(getattr(m, meth), *unfitted_args(kind, meth))
                out = 'returned'
            except Exception as e:  # noqa
                out = type(e).__name__
            ctx.count(f'unfitted:{pred}:{out}')
            owner = getattr(type(m), meth).__qualname__.split('.')[0]
            if pred == 'guarded':
                if out != 'NotFittedError' and bad is None:
                    bad = {'class': cname, 'method': meth, 'model': 'guarded => NotFittedError', 'real': out}
            elif pred == 'abstract':
                if out != 'NotImplementedError' and bad is None:
                    bad = {'class': cname, 'method': meth, 'model': 'abstract', 'real': out}
                continue
            elif pred == 'absent':
                bad = bad or {'class': cname, 'method': meth, 'model': 'absent', 'real': 'method exists'}
                continue
            if out != 'NotFittedError':
                if meth == 'to_dict' and out == 'returned':
                    note = f'{owner}.to_dict on an unfitted model returns {str(r)[:70]} (serialises the unfitted state; not a query)'
                    if note not in ctx.notes:
                        ctx.notes.append(note)
                    continue
                key = f'{owner}.{meth}:unfitted-not-NotFittedError'
                if key not in seen:
                    seen.add(key)
                    ctx.fail_input(f'{cname}.{meth}', {'class': cname, 'vine_type': getattr(m, 'vine_type', None), 'method': meth},
                                   out, 'querying or sampling an unfitted model raises NotFittedError', key)
    ctx.ob(name, bad is None, 'tie', bad or 'ok')


# ------------------------------------------------------------------------- invalid training data
def invalid_inputs():
    nan = float('nan')
    return [
        ('empty-rows', lambda: pd.DataFrame({'a': [], 'b': []}), True),
        ('empty-frame', lambda: pd.DataFrame(), True),
        ('empty-float', lambda: pd.DataFrame(np.zeros((0, 3)), columns=list('abc')), True),
        ('strings', lambda: pd.DataFrame({'a': ['x', 'y', 'z', 'w'], 'b': [1.0, 2.0, 3.0, 4.0]}), True),
        ('object-numbers', lambda: pd.DataFrame({'a': [1, 2, 3, 4], 'b': [2.0, 1.0, 4.0, 3.0]}, dtype=object), True),
        ('bool', lambda: pd.DataFrame({'a': [True, False, True, True], 'b': [False, False, True, True]}), True),
        ('one-nan', lambda: pd.DataFrame({'a': [1.0, 2.0, nan, 4.0, 5.0], 'b': [2.0, 1.0, 4.0, 3.0, 6.0], 'c': [0.3, 0.1, 0.5, 0.2, 0.9]}), True),
        ('nan-column', lambda: pd.DataFrame({'a': [nan] * 5, 'b': [2.0, 1.0, 4.0, 3.0, 6.0]}), True),
        ('ndarray-empty', lambda: np.zeros((0, 2)), False),
        ('ndarray-str', lambda: np.array([['a', 'b'], ['c', 'd']]), False),
        ('ndarray-nan', lambda: np.array([[1.0, nan], [2.0, 3.0], [4.0, 1.0]]), False),
        # NaN in narrower float dtypes, mixed-dtype frames, object frames holding floats with None
        ('nan-float32-frame', lambda: _nan_frame(np.float32), True),
        ('nan-float16-frame', lambda: _nan_frame(np.float16), True),
        ('nan-float32-col-beside-int16', lambda: _nan_frame(np.float32, ints=np.int16), True),
        ('nan-float32-col-beside-int64', lambda: _nan_frame(np.float32, ints=np.int64), True),
        ('nan-float16-col-beside-int8', lambda: _nan_frame(np.float16, ints=np.int8), True),
        ('object-floats-with-None', lambda: pd.DataFrame({'a': [1.0, None, 3.0, 4.0, 5.0], 'b': [2.0, 1.0, 4.0, 3.0, 6.0]}, dtype=object), True),
        ('ndarray-nan-float32', lambda: _nan_frame(np.float32).to_numpy(), False),
        ('ndarray-nan-float16', lambda: _nan_frame(np.float16).to_numpy(), False),
        ('ndarray-all-nan-float32', lambda: np.full((6, 2), nan, dtype=np.float32), False),
    ]


def _nan_frame(ftype, ints=None):
    rs = np.random.RandomState(77)
    a = rs.uniform(1, 9, 12).astype(ftype)
    a[4] = np.nan
    cols = {'a': a, 'b': rs.uniform(1, 9, 12).astype(ftype)}
    if ints is not None:
        cols = {'i': rs.randint(0, 50, 12).astype(ints), 'a': a, 'j': rs.randint(0, 50, 12).astype(ints)}
    return pd.DataFrame(cols)


def inf_inputs():
    """+-inf is not among the inputs the property requires to be rejected: observed and noted only."""
    out = []
    for ft in (np.float64, np.float32, np.float16):
        def mk(ft=ft):
            f = _nan_frame(ft)
            f.iloc[4, 0] = np.inf
            return f
        out.append((f'inf-{np.dtype(ft).name}-frame', mk))
    return out


def cls_of(label):
    return label.split('(')[0]


def data_facts(X):
    """(len, numeric, has NaN) as the *property* reads them (independent of the decorator's code)."""
    W = X.to_numpy() if isinstance(X, pd.DataFrame) else np.asarray(X)
    numeric = W.dtype.kind in 'iuf'
    has_nan = bool(numeric and W.size and np.isnan(W.astype(float)).any())
    return len(W), numeric, has_nan


def check_invalid(ctx, lean):
    name = 'corr:check_valid_values'
    if lean is None:
        return ctx.ob(name, False, 'tie', 'driver unavailable')
    bad = None
    good = mv_frame({'n': 40, 'k': 3, 'seed': 11})
    for label, mk in mv_models()[:2] + mv_models()[3:]:
        is_vine = label.startswith('Vine')
        for was_fitted in (False, True):
            for iname, mkx, is_frame in invalid_inputs():
                if is_vine and not is_frame:
                    continue
                m = _quiet(mk)
                if was_fitted:
                    _quiet(fit_pinned, m, good, 3)
                X = mkx()
                ln, numeric, has_nan = data_facts(X)
                pred = lean.ask(f'life valid {ln} {int(numeric)} {int(has_nan)} {int(was_fitted)} ok')
                before = canon(m.__dict__)
                try:
                    _quiet(m.fit, X)
                    out = 'returned'
                except Exception as e:  # noqa
                    out = vc.exc_kind(e) if isinstance(e, ValueError) else type(e).__name__
                changed = canon(m.__dict__) != before
                real = f'ok fitted={int(m.fitted)}' if out == 'returned' else f'err {out} fitted={int(m.fitted)} changed={int(changed)}'
                ctx.case(('invalid', label, was_fitted, iname))
                ctx.count(f'invalid:{iname}')
                if real != pred:
                    bad = bad or {'model': label, 'previously_fitted': was_fitted, 'input': iname, 'real': real, 'lean': pred}
                cls = label.split('(')[0]
                if out != 'ValueError':
                    ctx.fail_input(f'{cls}.fit', {'model': label, 'input': iname, 'previously_fitted': was_fitted}, out,
                                   'empty / non-numeric / NaN training data raise ValueError', f'{cls}.fit:invalid-training-data-not-rejected')
                elif changed or bool(m.fitted) != was_fitted:
                    ctx.fail_input(f'{cls}.fit', {'model': label, 'input': iname, 'previously_fitted': was_fitted},
                                   {'fitted': bool(m.fitted), 'state_changed': changed},
                                   'a rejected fit leaves the model as it was (unfitted stays unfitted)',
                                   f'{cls}.fit:state-changed-by-rejected-fit')
                # after the attempt on an unfitted model: queries still say NotFittedError, and a later valid fit
                # gives exactly what a fresh model gives
                if not was_fitted:
                    after = []
                    if not is_vine:
                        for q, arg in (('to_dict', ()), ('sample', (2,)), ('probability_density', (good,)),
                                       ('cumulative_distribution', (good,))):
                            try:
                                _quiet(getattr(m, q), *arg)
                                after.append(f'{q} returned')
                            except Exception as e:  # noqa
                                if type(e).__name__ != 'NotFittedError':
                                    after.append(f'{q} raised {type(e).__name__}')
                    else:
                        d = _quiet(m.to_dict)
                        if d.get('fitted'):
                            after.append('to_dict says fitted')
                    later = mv_frame({'n': 35, 'k': 3, 'seed': 12})
                    try:
                        with poisoned_empty(float('nan')):
                            fresh = _quiet(mk)
                            _quiet(fit_pinned, m, later, 4)
                            _quiet(fit_pinned, fresh, later, 4)
                            same = mv_view(m) == mv_view(fresh)
                    except Exception as e:  # noqa
                        same = 'raised ' + type(e).__name__
                    if after or same is not True:
                        ctx.fail_input(f'{cls}.fit', {'model': label, 'input': iname},
                                       {'queries_after_invalid_fit': after, 'later_valid_fit_equals_fresh': same},
                                       'after invalid training data the model is unfitted (NotFittedError) and a later valid '
                                       'fit equals a fresh fit', f'{cls}.fit:invalid-training-data-leaves-a-trace')
                        bad = bad or {'model': label, 'input': iname, 'after': after, 'later_fit_equals_fresh': same}
            if not was_fitted:
                for iname, mkx in inf_inputs():
                    m = _quiet(mk)
                    try:
                        _quiet(m.fit, mkx())
                        out = f'returned fitted={int(m.fitted)}'
                    except Exception as e:  # noqa
                        out = f'{type(e).__name__} fitted={int(m.fitted)}'
                    ctx.count(f'inf-observed:{cls_of(label)}:{out}')
            # control: valid data are accepted
            m = _quiet(mk)
            if was_fitted:
                _quiet(fit_pinned, m, good, 3)
            pred = lean.ask(f'life valid {len(good)} 1 0 {int(was_fitted)} ok')
            try:
                _quiet(fit_pinned, m, mv_frame({'n': 35, 'k': 3, 'seed': 12}), 4)
                real = f'ok fitted={int(m.fitted)}'
            except Exception as e:  # noqa
                real = 'err ' + type(e).__name__
            ctx.case(('valid', label, was_fitted))
            if real != pred:
                bad = bad or {'model': label, 'input': 'valid', 'real': real, 'lean': pred}
    ctx.ob(name, bad is None, 'tie', bad or 'ok')
    # a body that raises for another reason: `fitted` must not have been set
    name2 = 'corr:failed-fit-stays-unfitted'
    from copulas.multivariate import GaussianMultivariate, VineCopula
    bad2 = None
    cases = [('VineCopula(center) constant column', lambda: _quiet(VineCopula, 'center'),
              pd.DataFrame({'a': [1.0] * 20, 'b': np.linspace(0, 1, 20), 'c': np.linspace(1, 0, 20) ** 2})),
             ('VineCopula(regular) constant column', lambda: _quiet(VineCopula, 'regular'),
              pd.DataFrame({'a': [1.0] * 20, 'b': np.linspace(0, 1, 20), 'c': np.linspace(1, 0, 20) ** 2})),
             ('GaussianMultivariate(unknown distribution name)',
              lambda: GaussianMultivariate(distribution='copulas.univariate.NoSuchDistribution'), good)]
    for label, mk, X in cases:
        m = mk()
        pred = lean.ask('life valid 20 1 0 0 raise')
        try:
            _quiet(m.fit, X)
            real = f'ok fitted={int(m.fitted)}'
        except Exception:  # noqa
            real = f'err fitted={int(m.fitted)}'
        ctx.case(('failed-fit', label))
        want = 'err fitted=0'
        if not (real == want and pred.startswith('err') and ' fitted=0' in pred):
            bad2 = bad2 or {'case': label, 'real': real, 'lean': pred}
            if real.endswith('fitted=1') and real.startswith('err'):
                cls = label.split('(')[0]
                ctx.fail_input(f'{cls}.fit', {'case': label}, real, 'a fit that raises leaves an unfitted model unfitted',
                               f'{cls}.fit:fitted-set-before-fit-completed')
    ctx.ob(name2, bad2 is None, 'tie', bad2 or 'ok')


def check_invalid_large(ctx, lean):
    """size variety: big tables whose ONLY NaN sits late (last row / middle / row 50000 / row 50001).  The fit must
    raise before any fitting, so on a correct tree this costs only the validation."""
    name = 'corr:check_valid_values-large'
    if lean is None:
        return ctx.ob(name, False, 'tie', 'driver unavailable')
    from copulas.multivariate import GaussianMultivariate, VineCopula
    import copulas.univariate as U
    models = [('GaussianMultivariate(GaussianUnivariate)', lambda: GaussianMultivariate(distribution=U.GaussianUnivariate), False),
              ('VineCopula(center)', lambda: _quiet(VineCopula, 'center'), True)]
    later = mv_frame({'n': 35, 'k': 2, 'seed': 12})
    bad = None
    for n in (50001, 60001, 100003):
        rs = np.random.RandomState(n)
        base = rs.normal(size=(n, 2))
        base[:, 1] = 0.6 * base[:, 0] + 0.8 * base[:, 1]
        for where, row in (('last', n - 1), ('middle', n // 2), ('row-50000', 50000), ('row-50001', 50001)):
            if row >= n:
                continue
            for label, mk, is_vine in models:
                for container in ('DataFrame',) if is_vine else ('DataFrame', 'ndarray'):
                    W = base.copy()
                    W[row, 0 if is_vine else row % 2] = np.nan      # vine: first column, so that a wrongly started fit stops at once
                    X = pd.DataFrame(W, columns=['a', 'b']) if container == 'DataFrame' else W
                    m = mk()
                    pred = lean.ask(f'life valid {n} 1 1 0 ok')
                    before = canon(m.__dict__)
                    try:
                        _quiet(m.fit, X)
                        out = 'returned'
                    except Exception as e:  # noqa
                        out = vc.exc_kind(e) if isinstance(e, ValueError) else type(e).__name__
                    changed = canon(m.__dict__) != before
                    real = f'ok fitted={int(m.fitted)}' if out == 'returned' else f'err {out} fitted={int(m.fitted)} changed={int(changed)}'
                    ctx.case(('invalid-large', label, n, where, container))
                    ctx.count(f'invalid-large:{where}')
                    cls = cls_of(label)
                    inp = {'model': label, 'rows': n, 'columns': 2, 'only_nan_at_row': row, 'position': where, 'container': container,
                           'data': f'RandomState({n}).normal(size=({n},2)), column 1 = 0.6*c0 + 0.8*c1'}
                    if real != pred:
                        bad = bad or dict(inp, real=real, lean=pred)
                    if out != 'ValueError':
                        ctx.fail_input(f'{cls}.fit', inp, {'fit': out, 'fitted': bool(m.fitted)},
                                       'training data containing NaN raise ValueError, wherever the NaN is',
                                       f'{cls}.fit:invalid-training-data-not-rejected:late-row')
                    elif changed or m.fitted:
                        ctx.fail_input(f'{cls}.fit', inp, {'fitted': bool(m.fitted), 'state_changed': changed},
                                       'a rejected fit leaves the model as it was: the validation runs before any work',
                                       f'{cls}.fit:state-changed-by-rejected-fit:late-row')
                    if where == 'last' and container == 'DataFrame':
                        # unfitted afterwards, and a later valid fit equals a fresh fit
                        after = []
                        try:
                            d = _quiet(m.to_dict)
                            if not is_vine or d.get('fitted'):
                                after.append('to_dict returned' + (' fitted' if is_vine else ''))
                        except Exception as e:  # noqa
                            if type(e).__name__ != 'NotFittedError':
                                after.append('to_dict raised ' + type(e).__name__)
                        try:
                            with poisoned_empty(float('nan')):
                                fresh = mk()
                                _quiet(fit_pinned, m, later, 4)
                                _quiet(fit_pinned, fresh, later, 4)
                                same = mv_view(m) == mv_view(fresh)
                        except Exception as e:  # noqa
                            same = 'raised ' + type(e).__name__
                        if after or same is not True:
                            ctx.fail_input(f'{cls}.fit', inp, {'after_invalid_fit': after, 'later_valid_fit_equals_fresh': same},
                                           'after invalid training data the model is unfitted and a later valid fit equals a fresh fit',
                                           f'{cls}.fit:invalid-training-data-leaves-a-trace')
                            bad = bad or dict(inp, after=after, later_fit_equals_fresh=same)
    ctx.ob(name, bad is None, 'tie', bad or 'ok')


# ------------------------------------------------------------------------- get_instance
def config_view(g):
    """constructor-level configuration of an object."""
    out = {'class': type(g).__name__}
    for a in ('min', 'max', '_sample_size', 'bw_method', 'selection_sample_size', 'vine_type'):
        if hasattr(g, a):
            out[a] = getattr(g, a)
    if hasattr(g, 'weights'):
        out['weights'] = None if g.weights is None else np.asarray(g.weights, dtype=float).tolist()
    if hasattr(g, 'candidates'):
        out['candidates'] = [getattr(c, '__name__', type(c).__name__) for c in g.candidates]
    if hasattr(g, 'distribution'):
        d = g.distribution
        out['distribution'] = {k: getattr(v, '__name__', str(v)) for k, v in d.items()} if isinstance(d, dict) \
            else getattr(d, '__name__', str(d))
    rs = getattr(g, 'random_state', None)
    out['random_state'] = None if rs is None else vc.f2h(float(rs.get_state()[1][0])) + ':' + str(rs.get_state()[2])
    return out


def fresh_state(g):
    """no trace of a fit."""
    probs = []
    if getattr(g, 'fitted', False):
        probs.append('fitted')
    d = g.__dict__
    for a in OVR + ('_constant_value', '_params', '_instance', '_model', 'trees', 'unis', 'tau_mat', 'n_var', 'columns',
                    'univariates', 'correlation'):
        if d.get(a) is not None:
            probs.append(a)
    if getattr(g, 'u_matrix', None) is not None:
        probs.append('u_matrix')
    return probs


def prototypes():
    import copulas.univariate as U
    from copulas.multivariate import GaussianMultivariate, VineCopula
    PT, BT = U.ParametricType, U.BoundedType
    ps = [
        (U.GaussianKDE, [], {}), (U.GaussianKDE, [], {'bw_method': 'silverman'}),
        (U.GaussianKDE, [], {'sample_size': 20, 'bw_method': 0.5}), (U.GaussianKDE, [15, None, 'scott'], {}),
        (U.GaussianKDE, [], {'weights': np.linspace(1.0, 2.0, 40)}), (U.GaussianKDE, [], {'random_state': 7}),
        (U.TruncatedGaussian, [], {}), (U.TruncatedGaussian, [], {'minimum': -50.0}),
        (U.TruncatedGaussian, [], {'minimum': -50.0, 'maximum': 90.0}), (U.TruncatedGaussian, [-60.0, 80.0], {}),
        (U.TruncatedGaussian, [], {'maximum': 70.0, 'random_state': 5}),
        (U.Univariate, [], {}), (U.Univariate, [], {'parametric': PT.PARAMETRIC}), (U.Univariate, [], {'bounded': BT.BOUNDED}),
        (U.Univariate, [], {'parametric': PT.PARAMETRIC, 'bounded': BT.SEMI_BOUNDED}),
        (U.Univariate, [], {'candidates': [U.GaussianUnivariate, U.UniformUnivariate]}),
        (U.Univariate, [[U.GaussianUnivariate]], {'selection_sample_size': 10}),
        (U.GaussianUnivariate, [], {}), (U.GaussianUnivariate, [], {'random_state': 3}), (U.BetaUnivariate, [4], {}),
        (U.UniformUnivariate, [], {'random_state': 11}), (U.GammaUnivariate, [], {}),
        (GaussianMultivariate, [], {}), (GaussianMultivariate, [], {'distribution': U.GaussianUnivariate}),
        (GaussianMultivariate, [], {'distribution': {'c0': U.GaussianKDE}}),
        (GaussianMultivariate, ['copulas.univariate.gaussian.GaussianUnivariate'], {'random_state': 4}),
        (VineCopula, ['center'], {}), (VineCopula, [], {'vine_type': 'regular'}), (VineCopula, ['direct'], {'random_state': 2}),
        # falsy-but-meaningful option values (0, 0.0, seed 0, empty-but-legal list), by keyword, positional and mixed;
        # 4th component: data on which the clone and a directly constructed equal object are fitted and compared
        (U.TruncatedGaussian, [], {'minimum': 0, 'maximum': 12}, {'kind': 'uniform', 'a': 1.0, 'b': 11.0, 'n': 40, 'seed': 31}),
        (U.TruncatedGaussian, [], {'minimum': 0.0}, {'kind': 'uniform', 'a': 1.0, 'b': 11.0, 'n': 40, 'seed': 32}),
        (U.TruncatedGaussian, [], {'maximum': 0}, {'kind': 'uniform', 'a': -9.0, 'b': -1.0, 'n': 40, 'seed': 33}),
        (U.TruncatedGaussian, [], {'minimum': -5.0, 'maximum': 0.0}, {'kind': 'uniform', 'a': -4.5, 'b': -0.5, 'n': 40, 'seed': 34}),
        (U.TruncatedGaussian, [0, 12], {}, {'kind': 'uniform', 'a': 1.0, 'b': 11.0, 'n': 40, 'seed': 35}),
        (U.TruncatedGaussian, [0], {'maximum': 12}, {'kind': 'uniform', 'a': 1.0, 'b': 11.0, 'n': 40, 'seed': 36}),
        (U.TruncatedGaussian, [-3.0], {'maximum': 0}, {'kind': 'uniform', 'a': -2.5, 'b': -0.5, 'n': 40, 'seed': 37}),
        (U.TruncatedGaussian, [], {'random_state': 0}), (U.GaussianKDE, [], {'random_state': 0}),
        (U.GaussianKDE, [], {'sample_size': 0}), (U.GaussianKDE, [0], {'bw_method': 'scott'}),
        (U.Univariate, [], {'candidates': []}), (U.Univariate, [[U.GaussianUnivariate, U.UniformUnivariate]], {'selection_sample_size': 0}),
        (U.Univariate, [], {'candidates': [U.GaussianUnivariate], 'random_state': 0}),
        (GaussianMultivariate, [], {'distribution': U.GaussianUnivariate, 'random_state': 0}),
        (VineCopula, ['center'], {'random_state': 0}), (VineCopula, [], {'vine_type': 'direct', 'random_state': 0}),
        # option values that are not representable in float32 (a clone must carry them exactly), keyword / positional / mixed
        (U.TruncatedGaussian, [], {'minimum': 0.1, 'maximum': 0.9}, {'kind': 'uniform', 'a': 0.15, 'b': 0.85, 'n': 40, 'seed': 51}),
        (U.TruncatedGaussian, [0.1, 0.9], {}, {'kind': 'uniform', 'a': 0.15, 'b': 0.85, 'n': 40, 'seed': 52}),
        (U.TruncatedGaussian, [1 / 3], {'maximum': 12345.678901234}, {'kind': 'uniform', 'a': 1.0, 'b': 11.0, 'n': 40, 'seed': 53}),
        (U.TruncatedGaussian, [], {'minimum': 1e-9, 'maximum': 0.7}, {'kind': 'uniform', 'a': 0.05, 'b': 0.65, 'n': 40, 'seed': 54}),
        (U.TruncatedGaussian, [], {'minimum': -0.3}, {'kind': 'uniform', 'a': -0.25, 'b': 0.65, 'n': 40, 'seed': 55}),
        (U.GaussianKDE, [], {'bw_method': 0.3}), (U.GaussianKDE, [None, None, 0.7], {}),
        (U.GaussianKDE, [20], {'bw_method': 1 / 3}), (U.GaussianKDE, [], {'bw_method': 0.1, 'weights': np.linspace(0.1, 0.7, 40)}),
        (GaussianMultivariate, [], {'distribution': U.GaussianKDE(bw_method=0.3)}),
    ]
    return [p if len(p) == 4 else p + (None,) for p in ps]


def _args_record(rec):
    """canonical form of a prototype's (__args__, __kwargs__): a record that is not a tuple / dict (an iterator that
    cloning would consume) is told apart from one that is."""
    a, k = rec
    return (type(a).__name__, canon(list(a)) if isinstance(a, tuple) else None, type(k).__name__,
            canon(k) if isinstance(k, dict) else None)


def check_get_instance(ctx, lean):
    name = 'corr:get_instance'
    if lean is None:
        ctx.ob(name, False, 'tie', 'driver unavailable')
        return
    from copulas.utils import get_instance
    import inspect
    bad = None
    lossy = {}
    toks = {}

    def tok(v):
        t = f't{len(toks)}'
        toks[t] = v
        return t
    A = make_data({'kind': 'normal', 'a': 5.0, 'b': 2.0, 'n': 40, 'seed': 21})
    frame = mv_frame({'n': 40, 'k': 3, 'seed': 22})
    small_frame = mv_frame({'n': 30, 'k': 3, 'seed': 23})
    for cls, pos, kw, fit_desc in prototypes():
        params = [p for p in inspect.signature(cls.__init__).parameters if p != 'self']
        given = dict(zip(params, pos), **kw)
        falsy_given = sorted(k for k, v in given.items() if v is not None and not isinstance(v, np.ndarray) and not v)
        fqn = cls.__module__ + '.' + cls.__name__
        forms = [('name', False, {}), ('class', False, {}), ('inst', False, {}), ('inst', True, {}),
                 ('inst', True, {'random_state': 9}), ('class', False, dict(zip(params, pos), **kw)),
                 ('name', False, dict(zip(params, pos), **kw))]
        for form, fitted, kwargs in forms:
            try:
                with warnings.catch_warnings():
                    warnings.simplefilter('ignore')
                    proto = cls(*copy.deepcopy(pos), **copy.deepcopy(kw))
            except Exception as e:  # noqa
                ctx.fail_input(f'{cls.__name__}.__init__', {'class': cls.__name__, 'args': repr(pos), 'kwargs': repr(kw)[:200]},
                               type(e).__name__ + ': ' + str(e)[:120], 'a legal prototype can be constructed (and then cloned)',
                               'store_args:constructor-raises')
                bad = bad or {'class': cls.__name__, 'kwargs': repr(kw)[:120], 'constructor raised': type(e).__name__}
                break
            if fitted:
                try:
                    _quiet(fit_pinned, proto, frame if hasattr(proto, 'univariates') or hasattr(proto, 'vine_type') else A, 5)
                except Exception:  # noqa
                    ctx.count('clone:proto-fit-raised')
                    continue
            ptoks = [tok(v) for v in pos]
            ktoks = [(k, tok(v)) for k, v in kw.items()]
            kwtoks = [(k, tok(v)) for k, v in kwargs.items()]
            req = f'life clone {"class" if form == "class" else form} {fqn if form == "name" else cls.__name__} {int(fitted)} ' \
                  f'{len(ptoks)} {" ".join(ptoks)} {len(ktoks)} {" ".join(a + " " + b for a, b in ktoks)} ' \
                  f'{len(kwtoks)} {" ".join(a + " " + b for a, b in kwtoks)}'
            pred = lean.ask(' '.join(req.split()))
            arg = fqn if form == 'name' else cls if form == 'class' else proto
            proto_rec_before = (getattr(proto, '__args__', None), getattr(proto, '__kwargs__', None))
            proto_rec_before = (proto_rec_before[0] if not isinstance(proto_rec_before[0], tuple) else tuple(proto_rec_before[0]),
                                copy.deepcopy(proto_rec_before[1]) if isinstance(proto_rec_before[1], dict) else proto_rec_before[1])
            try:
                with warnings.catch_warnings():
                    warnings.simplefilter('ignore')
                    g = get_instance(arg, **copy.deepcopy(kwargs))
                real_err = None
            except Exception as e:  # noqa
                g, real_err = None, vc.exc_kind(e)
            ctx.case(('clone', cls.__name__, repr(pos), repr(sorted(kw)), form, fitted, repr(sorted(kwargs))))
            ctx.count(f'clone:{form}{"+fitted" if fitted else ""}{"+kwargs" if kwargs else ""}')
            where = {'class': cls.__name__, 'args': repr(pos), 'kwargs': repr(kw), 'form': form, 'prototype_fitted': fitted,
                     'get_instance_kwargs': repr(kwargs)}
            if pred.startswith('err'):
                if real_err != pred.split()[1]:
                    bad = bad or dict(where, real=real_err or 'returned', lean=pred)
                continue
            if real_err is not None or not pred.startswith('ok'):
                bad = bad or dict(where, real=real_err, lean=pred)
                continue
            f = dict(p.split('=', 1) for p in pred.split()[2:])
            bound = dict(b.split('=') for b in f['bound'].split(',')) if f['bound'] else {}
            with warnings.catch_warnings():
                warnings.simplefilter('ignore')
                want = cls(**{k: copy.deepcopy(toks[t]) for k, t in bound.items()})
            problems = []
            if type(g) is not cls or pred.split()[1] != cls.__name__:
                problems.append('class')
            if g is proto:
                problems.append('same-object')
            leak = fresh_state(g)
            if leak or f['fitted'] != '0' or f['state'] != 'none':
                problems.append('fit-state:' + ','.join(leak))
            if not xeq(config_view(g), config_view(want)):
                problems.append('options')
            if (f['stored'] == 'yes') != hasattr(g, '__args__'):
                problems.append('stored-args')
            if problems:
                bad = bad or dict(where, problems=problems, real=config_view(g), lean=pred)
                if 'options' in problems or 'class' in problems:
                    ctx.fail_input('copulas.utils.get_instance', where, {'problems': problems, 'clone': config_view(g),
                                                                         'expected': config_view(want)},
                                   'get_instance builds the prototype\'s class with the requested / recorded options',
                                   'get_instance:clone-not-configured-as-constructed')
                if 'same-object' in problems or any(p.startswith('fit-state') for p in problems):
                    ctx.fail_input('copulas.utils.get_instance', where, {'problems': problems},
                                   'get_instance returns a NEW UNFITTED object', 'get_instance:prototype-state-leaks-into-clone')
            # the property itself: configured like the prototype (instance forms, no overriding kwargs)
            if form == 'inst' and not kwargs:
                with warnings.catch_warnings():
                    warnings.simplefilter('ignore')
                    like = cls(*copy.deepcopy(pos), **copy.deepcopy(kw))
                # clone the SAME prototype again (and again): every clone is a new unfitted object with the prototype's
                # configuration, and the prototype's own record of its arguments is untouched
                rec0 = _args_record(proto_rec_before)
                views = [config_view(g)]
                for nth in (2, 3):
                    try:
                        with warnings.catch_warnings():
                            warnings.simplefilter('ignore')
                            gn = get_instance(proto)
                        probs = (['class'] if type(gn) is not cls else []) + (['same-object'] if gn is proto or gn is g else []) + \
                            (['fit-state:' + ','.join(fresh_state(gn))] if fresh_state(gn) else []) + \
                            ([] if xeq(config_view(gn), views[0]) else ['options'])
                        views.append(config_view(gn))
                    except Exception as e:  # noqa
                        probs = ['raised ' + type(e).__name__]
                    if probs:
                        ctx.fail_input('copulas.utils.get_instance', dict(where, clone_number=nth),
                                       {'problems': probs, 'first_clone': views[0], 'this_clone': views[-1] if len(views) >= nth else None},
                                       'every clone of a prototype is a new unfitted object configured like the prototype, however '
                                       'often it is cloned', 'get_instance:repeated-clone-loses-options')
                        bad = bad or dict(where, clone_number=nth, problems=probs)
                        break
                if _args_record((getattr(proto, '__args__', None), getattr(proto, '__kwargs__', None))) != rec0:
                    ctx.fail_input('copulas.utils.get_instance', where, {'before': str(rec0)[:200],
                                   'after': str(_args_record((getattr(proto, '__args__', None), getattr(proto, '__kwargs__', None))))[:200]},
                                   'cloning does not change the prototype (its recorded __args__/__kwargs__ stay what they were)',
                                   'get_instance:cloning-consumes-prototype-record')
                    bad = bad or dict(where, prototype_record_changed=True)
                key = 'get_instance:falsy-option-lost' if falsy_given else 'get_instance:options-not-reproduced'
                vg, vl = config_view(g), config_view(like)
                config_lost = not xeq(vg, vl)          # exact: same value, same type, every stored option
                if config_lost:
                    lost = sorted(k for k in vl if not xeq(vl[k], vg.get(k)))
                    if all(vg.get(k) is not None and vl[k] is not None and feq(vl[k], vg.get(k), rtol=1e-3) for k in lost):
                        key = 'get_instance:option-value-altered'      # still there, but not the value (or type) given
                    if not hasattr(proto, '__args__'):
                        lossy.setdefault(cls.__name__, lost)
                    else:
                        ctx.fail_input('copulas.utils.get_instance', dict(where, falsy_options_given=falsy_given),
                                       {'lost': lost, 'clone': config_view(g), 'directly_constructed': config_view(like)},
                                       'the clone is configured like the prototype', key)
                        bad = bad or dict(where, lost=lost)
                # ... and BEHAVES like it: fit the clone and a directly constructed equal object on the same data
                if not fitted and (hasattr(proto, '__args__') or not given):
                    is_mv = hasattr(like, 'distribution') or hasattr(like, 'vine_type')
                    X = small_frame if is_mv else (make_data(fit_desc) if fit_desc else A)
                    outs = []
                    for obj in (g, like):
                        try:
                            with poisoned_empty(float('nan')):      # vines: uninitialised reads made deterministic
                                _quiet(fit_pinned, obj, X, 6)
                                outs.append(mv_view(obj) if is_mv else observe(obj))
                        except Exception as e:  # noqa
                            outs.append('raised ' + type(e).__name__)
                    ctx.case(('clone-behaviour', cls.__name__, repr(pos), repr(sorted(kw))))
                    ctx.count('clone:fitted-behaviour-compared')
                    # same code on the same data with the same options: bit for bit
                    same = (outs[0] == outs[1]) if (is_mv or isinstance(outs[0], str) or isinstance(outs[1], str)) \
                        else not obs_xdiff(outs[0], outs[1])
                    if not same and not config_lost:
                        key = 'get_instance:clone-fits-differently'
                    if not same:
                        diff = obs_xdiff(outs[0], outs[1]) if isinstance(outs[0], dict) and isinstance(outs[1], dict) else 'to_dict/raised'
                        ctx.fail_input('copulas.utils.get_instance', dict(where, falsy_options_given=falsy_given, fit_data=fit_desc or 'A'),
                                       {'differs': diff, 'clone': _brief(outs[0]) if isinstance(outs[0], dict) else str(outs[0])[:200],
                                        'directly_constructed': _brief(outs[1]) if isinstance(outs[1], dict) else str(outs[1])[:200]},
                                       'the clone, fitted on X, is observably identical to an object constructed like the prototype '
                                       'and fitted on X', key)
                        bad = bad or dict(where, fitted_behaviour_differs=diff)
    ctx.ob(name, bad is None, 'tie', bad or 'ok')
    # static table vs what was observed
    rows = {r.split(':')[0]: r.split(':') for r in lean.ask('life classes').split()}
    table_lossy = sorted(n for n, r in rows.items() if r[3] == '1')
    if lossy:
        ctx.fail_input('copulas.utils.get_instance', {'classes': sorted(lossy), 'example': 'GaussianUnivariate(random_state=3)',
                                                       'table_undecorated_with_options': table_lossy},
                       {'lost_options': lossy}, 'the clone is configured like the prototype (here: random_state is dropped '
                       'because ScipyModel.__init__ is not decorated with @store_args)', K_CLONE)
    ctx.ob('corr:store_args-table', all(rows.get(c, [0, 0, 0, '0'])[3] == '1' for c in lossy), 'tie',
           {'observed_lossy': sorted(lossy), 'table_lossy': table_lossy})
    # store_args records a snapshot taken at construction time (value semantics of the model)
    import copulas.univariate as U
    from copulas.multivariate import GaussianMultivariate
    snap_bad = None

    def _s1():
        cands = [U.GaussianUnivariate]
        u = U.Univariate(candidates=cands)
        cands.append(U.UniformUnivariate)
        return [c.__name__ for c in get_instance(u).candidates] == ['GaussianUnivariate']

    def _s2():
        dist = {'a': U.GaussianKDE}
        gm = GaussianMultivariate(distribution=dist)
        dist['b'] = U.BetaUnivariate
        return sorted(get_instance(gm).distribution) == ['a']

    def _s3():
        w = np.ones(5)
        k = U.GaussianKDE(weights=w)
        w[0] = 9.0
        return float(get_instance(k).weights[0]) == 1.0
    for label, f in (('Univariate(candidates=list) then list.append', _s1),
                     ('GaussianMultivariate(distribution=dict) then dict[...] = ...', _s2),
                     ('GaussianKDE(weights=array) then array[0] = ...', _s3)):
        try:
            ok = f()
        except Exception as e:  # noqa
            ok, label = False, label + ' raised ' + type(e).__name__
        if not ok:
            snap_bad = snap_bad or label
    ctx.case(('clone', 'snapshot'))
    if snap_bad:
        ctx.fail_input('copulas.utils.store_args', {'scenario': snap_bad}, 'the clone sees the later mutation',
                       'get_instance configures the clone like the prototype was constructed', 'store_args:arguments-aliased-with-caller')
    ctx.ob('corr:store_args-snapshot', snap_bad is None, 'tie', snap_bad or 'ok')
    facts_line = lean.ask('life facts')
    ctx.notes.append('generated facts: ' + facts_line)
    u2 = U.Univariate(candidates=[U.GaussianUnivariate])
    g2 = get_instance(u2)
    if g2.candidates is u2.__kwargs__['candidates']:
        ctx.notes.append('observation (not claimed): get_instance passes the prototype\'s recorded __kwargs__ objects to the clone, '
                         'so clone.candidates IS prototype.__kwargs__["candidates"]; mutating a clone\'s list changes later clones')


def check_clone_indirect(ctx):
    """prototypes reach get_instance indirectly: GaussianMultivariate(distribution=<instance>) and
    Univariate(candidates=[<instance>]) must fit marginals configured like the instance given."""
    import copulas.univariate as U
    from copulas.multivariate import GaussianMultivariate
    bad = None
    TG, KDE = U.TruncatedGaussian, U.GaussianKDE
    cases = [(TG, {'minimum': 0, 'maximum': 12}, (1.0, 11.0)), (TG, {'maximum': 0}, (-9.0, -1.0)), (TG, {'minimum': 0.0}, (1.0, 11.0)),
             (TG, {'minimum': -50.0, 'maximum': 90.0}, (1.0, 11.0)),
             (TG, {'minimum': 0.1, 'maximum': 0.9}, (0.15, 0.85)), (TG, {'minimum': 1 / 3, 'maximum': 12345.678901234}, (1.0, 11.0)),
             (KDE, {'bw_method': 0.3}, (1.0, 11.0)), (KDE, {'bw_method': 0.7}, (1.0, 11.0)),
             # POSITIONAL construction: the library clones one prototype once per column / twice per candidate
             (TG, {'__pos__': (0.0, 12.0)}, (1.0, 11.0)), (TG, {'__pos__': (-3.5,), 'maximum': 40.0}, (1.0, 11.0)),
             (KDE, {'__pos__': (None, None, 'silverman')}, (1.0, 11.0))]      # no sample_size here: a resampling fit draws from the stream GM.fit shares across columns
    for PC0, kw0, (lo, hi) in cases:
        pos = tuple(kw0.get('__pos__', ()))
        kw = {k: v for k, v in kw0.items() if k != '__pos__'}
        PC = PC0

        def build(PC=PC, pos=pos, kw=kw):
            return PC(*copy.deepcopy(pos), **copy.deepcopy(kw))
        rs = np.random.RandomState(41)
        frame = pd.DataFrame({'a': rs.uniform(lo, hi, 40), 'b': rs.uniform(lo, hi, 40)})
        direct = {}
        for c in frame:
            d = build()
            _quiet(fit_pinned, d, frame[c], 7)      # a Series, as GaussianMultivariate passes it (Series.std is ddof=1)
            direct[c] = observe(d)
        routes = {
            'GaussianMultivariate(distribution=<instance>)': lambda: GaussianMultivariate(distribution=build()),
            'GaussianMultivariate(distribution={col: <instance>})':
                lambda: GaussianMultivariate(distribution={c: build() for c in frame}),
            'GaussianMultivariate(distribution=Univariate(candidates=[<instance>]))':
                lambda: GaussianMultivariate(distribution=U.Univariate(candidates=[build()])),
        }
        for label, mk in routes.items():
            try:
                gm = mk()
                _quiet(fit_pinned, gm, frame, 7)
            except Exception:  # noqa
                ctx.count('clone-indirect:fit-raised')
                continue
            ctx.case(('clone-indirect', label, PC.__name__, repr(pos), repr(kw)))
            ctx.count('clone-indirect:compared')
            for c, uni in zip(gm.columns, gm.univariates):
                got = observe(uni)
                got['fitted'] = True
                if type(uni).__name__ == 'Univariate':
                    uni = uni._instance
                if type(uni) is not PC:
                    continue            # the fallback / another candidate was selected: nothing to compare
                dd = obs_xdiff(got, direct[c])       # same code, same data, same options: bit for bit
                if dd:
                    falsy = sorted(k for k, v in kw.items() if not v)
                    want = config_view(build())
                    close = all(config_view(uni).get(k) is not None and feq(want[k], config_view(uni).get(k), rtol=1e-3)
                                for k in want if want[k] is not None)
                    key = 'get_instance:falsy-option-lost' if falsy and not obs_equal(got, direct[c]) and not close else \
                        'get_instance:option-value-altered' if close else \
                        'get_instance:repeated-clone-loses-options' if pos and c != list(gm.columns)[0] else \
                        'get_instance:options-not-reproduced'
                    ctx.fail_input('copulas.utils.get_instance', {'route': label, 'marginal': f'{PC.__name__}(*{pos}, **{kw})', 'column': c,
                                                                   'data': f'uniform({lo},{hi}) n=40 seed=41'},
                                   {'differs': dd, 'marginal_in_model': _brief(got), 'options_in_model': config_view(uni),
                                    'options_given': want, 'directly_fitted': _brief(direct[c])},
                                   'a marginal built from an instance prototype is configured exactly like the prototype', key)
                    bad = bad or {'route': label, 'class': PC.__name__, 'kwargs': kw, 'column': c, 'differs': dd}
                    break
    ctx.ob('oracle:get_instance-indirect', bad is None, 'tie', bad or 'ok')


# ------------------------------------------------------------------------- uninitialised memory
def vine_summary(v):
    """(what the fit decided and uses: structure, families, thetas, edge taus, U; what it merely stores:
    the per-tree tau matrices)."""
    d = _quiet(v.to_dict)
    used = [[{k: e[k] for k in e if k != 'parents'} for e in t['edges']] for t in d.get('trees', [])]
    stored = [t.get('tau_matrix') for t in d.get('trees', [])]
    return canon({'edges': used, 'tau_mat': d.get('tau_mat')}), canon(stored)


def vine_edge_taus(v):
    return [[None if e.tau is None else float(e.tau) for e in t.edges] for t in v.trees]


def check_uninit(ctx, configs):
    """fit and evaluate vines with numpy.empty poisoned by two different sentinels."""
    from copulas.multivariate import VineCopula
    found = {K_TAU: 0, K_LIK: 0}
    checked = 0
    for vt, k, n, trunc, seed in configs:
        X = mv_frame({'n': n, 'k': k, 'seed': seed})
        fits = []
        for sentinel in (1e300, float('nan')):
            with poisoned_empty(sentinel):
                v = _quiet(VineCopula, vt)
                try:
                    _quiet(fit_pinned, v, X, 1)
                    fits.append((v, vine_summary(v), vine_edge_taus(v)))
                except Exception as e:  # noqa
                    fits.append((None, ('raised ' + type(e).__name__, None), None))
        checked += 1
        ctx.case(('uninit-fit', vt, k, n, trunc, seed))
        ctx.count(f'uninit:{vt}:{k}cols')
        if fits[0][1][0] == fits[1][1][0] and fits[0][1][1] != fits[1][1][1]:
            found[K_TAUSER] = found.get(K_TAUSER, 0) + 1
            ctx.fail_input('VineCopula.to_dict', {'vine_type': vt, 'columns': k, 'rows': n, 'data_seed': seed, 'truncated': 3},
                           'trees[k].tau_matrix in to_dict() (k >= 1) contains cells that get_tau_matrix never wrote (e.g. the '
                           'diagonal): they take the value of the sentinel; structure, families, thetas and edge taus are unaffected',
                           'no result depends on uninitialised memory', K_TAUSER)
        if fits[0][1][0] != fits[1][1][0]:
            found[K_TAU] += 1
            ctx.fail_input('VineCopula.fit', {'vine_type': vt, 'columns': k, 'rows': n, 'data_seed': seed, 'truncated': 3},
                           {'edge_tau_with_sentinel_1e300': fits[0][2], 'edge_tau_with_sentinel_nan': fits[1][2]},
                           'no result depends on uninitialised memory: the fitted vine must not change with the previous '
                           'content of np.empty buffers', K_TAU)
        v = fits[0][0]
        if v is None:
            continue
        rows = v.u_matrix[:3]
        liks = []
        for sentinel in (1e300, float('nan'), -7.0):
            with poisoned_empty(sentinel):
                out = []
                for r in rows:
                    try:
                        out.append(float(_quiet(v.get_likelihood, np.array([r]))))
                    except Exception as e:  # noqa
                        out.append('raised ' + type(e).__name__)
                liks.append(out)
        ctx.case(('uninit-lik', vt, k, n, seed))
        if not (feq(liks[0], liks[1]) and feq(liks[0], liks[2])):
            found[K_LIK] += 1
            ctx.fail_input('VineCopula.get_likelihood', {'vine_type': vt, 'columns': k, 'rows': n, 'data_seed': seed},
                           {'sentinel_1e300': liks[0], 'sentinel_nan': liks[1], 'sentinel_-7': liks[2]},
                           'no result depends on uninitialised memory: get_likelihood must not change with the previous '
                           'content of np.empty buffers', K_LIK)
    return found, checked


# ------------------------------------------------------------------------- entry points
def _phase(ctx, name, f, *a):
    """one part of the check; an exception inside it is that part's broken obligation and does not stop the
    others (in particular not the oracles that produce concrete failing inputs)."""
    import traceback
    try:
        return f(*a)
    except Exception:  # noqa
        ctx.ob(f'harness:{name}', False, 'tie', traceback.format_exc()[-700:])
        return None


def _one_thread(f):
    """BLAS/LAPACK on one thread: the problems are tiny (n <= 80) and a busy machine otherwise costs
    ~20-60 ms of thread wake-up per gaussian_kde.evaluate call."""
    import functools

    @functools.wraps(f)
    def g(*a, **k):
        try:
            from threadpoolctl import threadpool_limits
            import scipy.linalg  # noqa: F401  (load scipy's own OpenBLAS before limiting: only loaded libraries are limited)
            import scipy.stats  # noqa: F401
        except ImportError:
            return f(*a, **k)
        with threadpool_limits(limits=1):
            return f(*a, **k)
    return g


@_one_thread
def run(ctx, lean):
    flags = _phase(ctx, 'tie_histories', tie_histories, ctx, lean)
    _phase(ctx, 'tie_wrapper', tie_wrapper, ctx, lean)
    _phase(ctx, 'tie_query_dispatch', tie_query_dispatch, ctx, lean)
    _phase(ctx, 'rest', _run_rest, ctx, lean, flags)


def _run_rest(ctx, lean, flags):
    # the recorded re-fit leaks, surfaced with concrete witnesses by the oracle on the real code
    r = _phase(ctx, 'oracle_uni', oracle_uni, ctx, ctx.rng('oracle-run'), 1 * ctx.scale)
    found = r[0] if r is not None else {}
    if flags is not None and r is not None:
        want = {K_OVR: flags[0], K_BND: flags[1], K_KDE: flags[2]}
        found = {k: v for k, v in found.items() if k != K_STALE}      # not a flag of the model (see PARTIAL)
        agree = all((k in found) == (v == '1') for k, v in want.items() if v is not None)
        unknown = sorted(k for k in found if k not in want)
        ctx.ob('corr:variant-vs-oracle', agree and not unknown, 'tie',
               {'variant_flags(keepOverride,rememberBounds,cacheSize)': flags, 'oracle_found': found})
    r = _phase(ctx, 'oracle_multi', oracle_multi, ctx, ctx.rng('multi-run'), 2 * ctx.scale)
    if r is not None:
        ctx.ob('oracle:refit-multivariate', r[0] is None, 'tie', r[0] or f'ok ({r[1]} pairs)')
    _phase(ctx, 'check_unfitted', check_unfitted, ctx, lean)
    _phase(ctx, 'check_invalid', check_invalid, ctx, lean)
    _phase(ctx, 'check_invalid_large', check_invalid_large, ctx, lean)
    _phase(ctx, 'check_get_instance', check_get_instance, ctx, lean)
    _phase(ctx, 'check_clone_indirect', check_clone_indirect, ctx)
    r = _phase(ctx, 'oracle_wrapper', oracle_wrapper, ctx, ctx.rng('wrapper-oracle-run'), 1 * ctx.scale, 1 if ctx.scale == 1 else 4)
    if r is not None:
        ctx.ob('oracle:refit-wrapper', not r[0] and r[2] >= 8, 'tie',
               {'findings': r[0], 'histories': r[1], 'histories_where_the_winning_family_changes': r[2]})
    _phase(ctx, 'check_fitted_answers', check_fitted_answers, ctx)
    r = _phase(ctx, 'oracle_fallback_refit', oracle_fallback_refit, ctx, ctx.rng('fallback-run'))
    if r is not None:
        ctx.ob('oracle:fallback-then-refit', not r[0], 'tie', {'findings': r[0], 'histories': r[1]})
    r = _phase(ctx, 'oracle_selection_boundary', oracle_selection_boundary, ctx, ctx.rng('sss-run'))
    if r is not None:
        ctx.ob('oracle:selection_sample_size-boundary', not r[0], 'tie', {'findings': r[0], 'cases': r[1]})
    r = _phase(ctx, 'oracle_user_bounds', oracle_user_bounds, ctx, ctx.rng('user-bounds-run'), 1 * ctx.scale)
    if r is not None:
        ctx.ob('oracle:truncated-user-bounds', K_USER not in r[0], 'tie', {'findings': r[0], 'histories': r[1]})
    cfg = [('center', 5, 60, 3, 1), ('direct', 4, 60, 3, 2), ('direct', 5, 60, 3, 3), ('regular', 5, 60, 3, 4), ('regular', 6, 60, 3, 5)]
    rng = ctx.rng('uninit-run')
    cfg += [(rng.choice(['center', 'direct', 'regular']), rng.choice([4, 5, 6]), rng.randint(40, 70), 3, rng.randrange(1 << 20))
            for _ in range(2 * ctx.scale)]
    f, n3 = check_uninit(ctx, cfg)
    ctx.notes.append(f'uninitialised-memory differential: {n3} vines, findings {f}')


@_one_thread
def search(ctx, deep):
    rng = ctx.rng('search')
    scale = 6 if deep else 1
    found, n1 = oracle_uni(ctx, rng, 2 * scale, forced=False)
    bad, n2 = oracle_multi(ctx, rng, 1 * scale)
    fb, n7 = oracle_fallback_refit(ctx, rng) if deep else ({}, 0)        # quick tier: `run` has just done these
    sb, n8 = oracle_selection_boundary(ctx, rng) if deep else ({}, 0)
    # `run` has already exercised these two with the forced histories; repeat them on new seeds only in a deep search
    ub, n4 = oracle_user_bounds(ctx, rng, 1 * scale) if deep else ({}, 0)
    wf, n5, n6 = oracle_wrapper(ctx, rng, 1 * scale, 4) if deep else ({}, 0, 0)
    cfg = [(rng.choice(['center', 'direct', 'regular']), rng.choice([4, 5, 6, 7] if deep else [4, 5, 6]), rng.randint(40, 80), 3,
            rng.randrange(1 << 20)) for _ in range(3 * scale)]
    f, n3 = check_uninit(ctx, cfg)
    ctx.support = {'fallback_histories': n7, 'fallback_findings': fb, 'sss_boundary_cases': n8, 'sss_findings': sb, 'wrapper_histories': n5, 'wrapper_winner_changes': n6, 'wrapper_findings': wf, 'user_bound_histories': n4, 'user_bound_findings': ub, 'refit_histories': n1, 'refit_findings': found, 'multivariate_pairs': n2, 'vines_poisoned': n3,
                   'uninitialised_findings': f, 'deep': deep}


@_one_thread
def replay(ctx, payload):
    cls_key = payload.get('class')
    inp = payload.get('input', {})
    before = len(ctx.failing)
    if cls_key in (K_OVR, K_BND, K_KDE, K_STALE) or str(cls_key).endswith(('.fit:refit-differs-from-fresh', '-override-survives-refit')) \
            and 'history' in inp:
        import copulas.univariate as U
        cls = getattr(U, inp['class'])
        refit_oracle(ctx, cls, inp.get('ctor_raw', {}), inp['history'], inp['seed0'])
    elif cls_key == K_BFIT:
        check_fitted_answers(ctx)
    elif cls_key in (K_FBK, K_MUT):
        oracle_fallback_refit(ctx, ctx.rng('fallback-run'))
    elif cls_key == K_SSS:
        oracle_selection_boundary(ctx, ctx.rng('sss-run'))
        oracle_selection_boundary(ctx, ctx.rng('search'))
    elif cls_key == K_WSEL or str(cls_key).startswith('Univariate.fit:'):
        oracle_wrapper(ctx, ctx.rng('wrapper-oracle-run'), 1)
        oracle_wrapper(ctx, ctx.rng('search'), 1)
    elif cls_key == K_USER or (cls_key == K_BND and 'args_raw' in inp):
        oracle_user_bounds(ctx, ctx.rng('user-bounds-run'), 1)
        oracle_user_bounds(ctx, ctx.rng('search'), 1)
    elif cls_key in (K_TAU, K_LIK, K_TAUSER):
        check_uninit(ctx, [(inp['vine_type'], inp['columns'], inp['rows'], 3, inp['data_seed'])])
    else:
        class _NoLean:
            pass
        try:
            lean = vc.LeanDriver(DRIVER_MAIN)
        except Exception:  # noqa
            lean = None
        try:
            for f, a in ((check_unfitted, (ctx, lean)), (check_invalid, (ctx, lean)), (check_invalid_large, (ctx, lean)), (check_get_instance, (ctx, lean)),
                         (check_clone_indirect, (ctx,)), (oracle_multi, (ctx, ctx.rng('replay'), 2))):
                try:
                    f(*a)
                except Exception:  # noqa
                    pass
        finally:
            if lean is not None:
                lean.close()
    return any(f['class'] == cls_key for f in ctx.failing[before:])
