"""C01 — Gaussian-copula synthetic data keeps schema, marginals and dependence.

Tie: the Lean model `Model/GaussSample.lean` (`fitColumns`, `sample`) is run on SYMBOLS and prints, for every
output cell, a plan term over `P<j>` (`univariates[j].percent_point`), `H` (`scipy.stats.norm.cdf`),
`D<k>.<i>` (entry `[i, k]` of what `np.random.multivariate_normal` returned) and literals.  The harness
records the real `multivariate_normal` call made during the real `sample(n)`, interprets the plan with
the REAL fitted univariates and requires bit-equality with the real output, column by column.
Translator tie (GEN_TARGETS): `Gen/GaussCond.lean` (`_get_normal_samples`, `sample`; C01 = the call with
`conditions=None`) and `Gen/GaussTransform.lean` (`_fit_columns`) are regenerated from the source on every run,
`Props/C01b.lean` proves generated = model and restates the C01 theorems over the generated definitions, and the driver
answers the same requests from the generated definitions (`gs genfit / genargs / gensample`: obligations
`tv:GaussTransform`, `tv:GaussCond`).
Search: the property's own statement on the real code (schema; KS of `sample(20000)` against the fitted
marginal, DKW band; Kendall tau of sampled pairs == tau of the draws, and within a Hoeffding band of
(2/pi) asin(rho); Gaussian-copula recovery experiment in deep mode)."""
import math
import re
import warnings

import numpy as np
import pandas as pd
import scipy.stats as st

import vcommon as vc

warnings.filterwarnings('ignore')

GEN_TARGETS = ('GaussCond', 'GaussTransform')
DRIVER_MAIN = 'Main/GaussSample.lean'
DRIVER_TARGETS = ['CopVerif.Driver.GaussSample']
ALWAYS_SEARCH = True
RULE = ('tables of 2-6 columns x 30-300 rows drawn from a Gaussian copula: a random Cholesky factor gives a '
        'positive-definite correlation, the normal scores are pushed through marginal quantile functions from the 8 '
        'families (normal, beta, gamma, uniform, Student t, log-Laplace, truncated normal, a bimodal law for the KDE), '
        'with the training frame under a random ROW INDEX form (default, shuffled, offset, strings, DatetimeIndex, '
        'MultiIndex, duplicated; half of the tables), '
        'plus constant columns (about 1 table in 3 has one; 40% of them of INTEGER dtype incl. values beyond 2**53, the '
        'float ones incl. -0.0, 1e300, a denormal), rows as drawn or ORDERED by a column (sorted / blocks / trend, 1 table '
        'in 5), instance configurations WITH OPTIONS (GaussianKDE(weights=non-uniform | bw_method | sample_size), '
        'TruncatedGaussian(minimum, maximum), Univariate(selection_sample_size)), integer-rounded columns and, in about 1 table in 4, a '
        'NON-constant column on an awkward scale (epoch seconds spread over hours, 1000 + 1e-3 y, readings ~1e-9: range '
        'below 1e-5 of the magnitude or below 1e-8 absolute) and, with probability 0.06 per column, a GaussianKDE-modelled '
        'column at an extreme magnitude (farad 2.2e-11 +- 3e-12, ~1e-6, ~3e6, 1e9 offset +- 50..400); labels are shuffled strings '
        '(incl. spaces / non-ASCII / "0") or unsorted ints; crossed with the five configuration forms (default '
        'Univariate selection [sparingly: 8 candidate fits per column], a class, a fully-qualified-name string, an '
        'instance, a per-column dict of classes/strings/instances whose KEY ORDER and coverage vary: table order, reversed, '
        'shuffled, only the last / an inner column, a shuffled subset, a leading run, an unknown key in front (missing '
        'columns get the default selection); int-keyed dicts on numpy-array training tables; matched or deliberately '
        'mismatched families so that the Gaussian fall-back is exercised), model seeds int / RandomState / None, and per '
        'fitted model three sample sizes n from {1..200} drawn consecutively from the same model.  Every real '
        'sample(n) runs with np.random.multivariate_normal wrapped by a recorder (restored afterwards); the first '
        'draw of a seeded model is cross-checked against a replay from the seed.  A case = (table digest, '
        'configuration, seed, n); it is non-trivial when the table has >= 2 non-constant columns and n >= 2.  The search '
        '(run in the quick tier too) adds: the C01 oracle against the fitted marginals and against the TRAINING data '
        '(no non-constant column sampled constant, sample inside the extended training range, two-sample KS for '
        'dependable families), model.correlation vs the normal-score correlation, seed hunts for extreme draws, '
        'scale-stress tables, a Gaussian-copula table with a strongly dependent pair next to a constant column, dict-shape '
        'tables, constant-zoo tables (exact reproduction, integers compared as Python ints), tables of option-carrying '
        'instances (sampled KDE cells checked against an INDEPENDENT weighted kernel cdf), a row-ordered two-mode table '
        'with a selection_sample_size selector (selected family must be near-best on the full column), '
        'fall-back tables (2-3 columns whose requested marginal raises in fit — a class refusing non-positive columns, '
        'GaussianKDE instances with wrong-length weights — next to normally fitted ones: distinct univariate objects, '
        'fall-back fitted on its own column, fall-back only when the requested fit really raises), per-column dicts '
        'naming no column (empty / unknown key only) or one column, compared with the default configuration, '
        'equivalence cases (the same table under 8 row-index forms; the model restored via from_dict (both routes) / '
        'save-load / get_instance clone / fitted twice; histories fit(A), sample, fit(B), sample — all bitwise equal to a '
        'fresh model under the same seed, labels of the same TYPE and order), '
        'and tables of GaussianKDE columns at extreme scales whose sampled cells are compared with an '
        'independent float64 bisection of the fitted cdf (deterministic; also applied to every KDE-backed column of '
        'every other search sample)')
PARTIAL = [
    'dependence_value_partial: that standard normal draws with correlation rho have Kendall tau (2/pi) asin(rho) is '
    'Sheppard\'s theorem about the bivariate normal law; not proved (search: Hoeffding band).  Proved instead: the '
    'sampled columns have exactly the concordance counts / tau-b of the normal draws (kendall_invariant, '
    'sample_rank_dependence)',
    'recovery_partial: marginals and correlation of a Gaussian-copula training table are recovered within sampling '
    'error — statistical consistency of scipy\'s estimators, not modelled (search, deep mode only, heuristic bands)',
    'no_missing_values: finiteness / NaN-freeness of the cells is a statement about binary64 values of the external '
    'ppf/cdf; tie + search only (the search hunts model seeds whose first draws are extreme, |z| > 5.17, and checks '
    'the real sample: class schema-kde-tail-infinite = GaussianKDE.percent_point returns +-inf within float32-eps of 0/1)',
    'kendall invariance needs STRICTLY increasing percent_point∘Phi; for non-decreasing quantile functions only '
    'kendall_nondecreasing_le (concordant/discordant counts can only drop) is proved',
    'which distribution is fitted to a column (configuration look-up, selection, fall-back) is property C05; here a '
    'fitted univariate is an external symbol unless its training column is constant',
]
ASSUMPTIONS = [
    'IsQuantileOf(percent_point, cdf) for every fitted non-constant univariate — validated each run on a grid '
    '(assume:quantile-pair: percent_point non-decreasing; cdf(Q(q) - 4ulp) <= q <= cdf(Q(q) + 4ulp) within 1e-6; 1e-3 on ill-scaled columns whose range is below 1e-3 of their magnitude)',
    'IsStdNormalCDF for scipy.stats.norm.cdf — proved for Mathlib\'s standard normal cdf (Real/PITMeasure.lean); '
    'scipy\'s ndtr is validated strictly increasing with values in (0,1) on the recorded draws',
    'MvnShape: np.random.multivariate_normal(mean, cov, size=n) returns an (n, d) float array — checked on every '
    'recorded call (corr:draw-request)',
    'MT19937 streams are uniform/independent; multivariate_normal(0, Sigma) has law N(0, Sigma) (trusted, DESIGN 3.3)',
    'distinct column labels (pandas returns a sub-frame for a duplicated label; outside the model)',
    'real-number reading of binary64 arithmetic (DESIGN 3.1)',
]
TRUSTED_EXTRA = ['plan-term interpreter in tools/props/c01.py (P<j> = univariates[j].percent_point, H = '
                 'scipy.stats.norm.cdf, D<k>.<i> = recorded draws[i, k], evaluated column-wise)']

FQN = {'GaussianUnivariate': 'copulas.univariate.gaussian.GaussianUnivariate',
       'BetaUnivariate': 'copulas.univariate.beta.BetaUnivariate',
       'GammaUnivariate': 'copulas.univariate.gamma.GammaUnivariate',
       'UniformUnivariate': 'copulas.univariate.uniform.UniformUnivariate',
       'GaussianKDE': 'copulas.univariate.gaussian_kde.GaussianKDE',
       'StudentTUnivariate': 'copulas.univariate.student_t.StudentTUnivariate',
       'LogLaplace': 'copulas.univariate.log_laplace.LogLaplace',
       'TruncatedGaussian': 'copulas.univariate.truncated_gaussian.TruncatedGaussian',
       'Univariate': 'copulas.univariate.base.Univariate',
       'PositiveOnlyGaussian': __name__ + '.PositiveOnlyGaussian'}
KIND2CLASS = {'gaussian': 'GaussianUnivariate', 'beta': 'BetaUnivariate', 'gamma': 'GammaUnivariate',
              'uniform': 'UniformUnivariate', 'student_t': 'StudentTUnivariate', 'log_laplace': 'LogLaplace',
              'truncated': 'TruncatedGaussian', 'kde': 'GaussianKDE', 'ints': 'GaussianKDE', 'const': 'GaussianUnivariate',
              'near_epoch': 'GaussianUnivariate', 'near_kilo': 'GaussianUnivariate', 'near_tiny': 'GaussianUnivariate',
              'kde_farad': 'GaussianKDE', 'kde_micro': 'GaussianKDE', 'kde_mega': 'GaussianKDE', 'kde_giga': 'GaussianKDE'}
NEAR = ('near_epoch', 'near_kilo', 'near_tiny')
# KDE-modelled columns at extreme magnitudes / scales (SI base units, large offsets with a small spread)
XSCALE = ('kde_farad', 'kde_micro', 'kde_mega', 'kde_giga')
# families whose fit cannot collapse on a column with > 1 distinct values (moment / range / kernel estimates)
ROBUST = ('GaussianUnivariate', 'UniformUnivariate', 'GaussianKDE')
FAST = ('GaussianUnivariate', 'UniformUnivariate', 'GammaUnivariate', 'GaussianKDE', 'LogLaplace')
SLOW = ('BetaUnivariate', 'StudentTUnivariate', 'TruncatedGaussian')
DELTA = 1e-13          # false-alarm probability of ONE statistical test (<= 1e4 tests per run -> <= 1e-9 in total)
N_BIG = 20000


class PositiveOnlyGaussian:
    """a marginal whose fit REFUSES a column with non-positive values (forces GaussianMultivariate's fall-back path) and
    is a plain Gaussian otherwise.  Deliberately NOT a subclass of copulas' Univariate: a subclass would join the
    candidates of the default selection for the rest of the process."""

    def __init__(self):
        self._inner = None

    def fit(self, X):
        if np.min(X) <= 0:
            raise ValueError('PositiveOnlyGaussian needs positive data')
        from copulas.univariate import GaussianUnivariate
        inner = GaussianUnivariate()
        inner.fit(X)
        self._inner = inner

    def __getattr__(self, name):
        inner = self.__dict__.get('_inner')
        if inner is None or name.startswith('__'):
            raise AttributeError(name)
        return getattr(inner, name)


def _cls(name):
    import copulas.univariate as U
    if name == 'PositiveOnlyGaussian':
        return PositiveOnlyGaussian
    return getattr(U, name)


# --------------------------------------------------------------------------------------------- labels on the wire
def enc_label(x):
    if isinstance(x, (int, np.integer)) and not isinstance(x, (bool, np.bool_)):
        return 'i:%d' % int(x)
    return 's:' + str(x).encode('utf-8').hex()


def dec_label(tok):
    if tok.startswith('i:'):
        return int(tok[2:])
    return bytes.fromhex(tok[2:]).decode('utf-8')


# --------------------------------------------------------------------------------------------- generators
def random_correlation(rng, nr, k):
    """PD correlation from a random Cholesky factor (rows normalised); occasionally strong dependence."""
    L = np.tril(nr.randn(k, k))
    strength = rng.choice([0.3, 1.0, 1.0, 3.0])
    L[np.tril_indices(k, -1)] *= strength
    L[np.diag_indices(k)] = np.abs(L[np.diag_indices(k)]) + 0.3
    L /= np.linalg.norm(L, axis=1, keepdims=True)
    return L @ L.T, L


def marginal(rng, kind):
    """-> quantile function of the normal score z (monotone), readable description."""
    scale = 10.0 ** rng.choice([-2, -1, 0, 0, 0, 1, 2])
    loc = rng.choice([0.0, 0.0, 1.0, -5.0, 30.0]) * scale
    if kind == 'gaussian':
        return (lambda z: loc + scale * z), f'norm({loc},{scale})'
    if kind == 'beta':
        a, b = rng.choice([0.7, 2.0, 5.0]), rng.choice([0.8, 3.0])
        return (lambda z: loc + scale * st.beta.ppf(st.norm.cdf(z), a, b)), f'beta({a},{b})'
    if kind == 'gamma':
        a = rng.choice([0.8, 2.0, 6.0])
        return (lambda z: scale * st.gamma.ppf(st.norm.cdf(z), a)), f'gamma({a})'
    if kind == 'uniform':
        return (lambda z: loc + scale * st.norm.cdf(z)), f'uniform({loc},{scale})'
    if kind == 'student_t':
        df = rng.choice([3, 5, 10])
        return (lambda z: loc + scale * st.t.ppf(st.norm.cdf(z), df)), f't({df})'
    if kind == 'log_laplace':
        c = rng.choice([1.5, 3.0, 6.0])
        return (lambda z: scale * st.loglaplace.ppf(st.norm.cdf(z), c)), f'loglaplace({c})'
    if kind == 'truncated':
        a, b = rng.choice([(-1.0, 2.0), (-0.5, 0.5), (0.0, 3.0)])
        return (lambda z: loc + scale * st.truncnorm.ppf(st.norm.cdf(z), a, b)), f'truncnorm({a},{b})'
    if kind == 'kde':
        w = rng.choice([1.5, 2.5])
        return (lambda z: loc + scale * (z + w * np.tanh(2.0 * z))), f'bimodal({w})'
    if kind == 'kde_farad':       # capacitance in farad: 2.2e-11 +- 3e-12 (absolute spread far below 1e-8)
        w = rng.choice([3e-12, 5e-12])
        return (lambda z: 2.2e-11 + w * z), f'farad(2.2e-11,{w})'
    if kind == 'kde_micro':       # ~1e-6 with a bimodal shape
        m = rng.choice([4.7e-6, 1e-6])
        return (lambda z: m + 0.1 * m * (z + 1.5 * np.tanh(2.0 * z))), f'micro({m})'
    if kind == 'kde_mega':        # ~1e6
        return (lambda z: 3e6 + 2e5 * (z + 1.5 * np.tanh(2.0 * z))), 'mega(3e6,2e5)'
    if kind == 'kde_giga':        # 1e9 offset with a small spread (relative spread ~1e-7 .. 1e-6)
        w = rng.choice([50.0, 400.0])
        return (lambda z: 1e9 + w * z), f'giga(1e9,{w})'
    if kind == 'near_epoch':      # epoch seconds spread over a few hours: range / magnitude ~ 5e-6
        w = rng.choice([600.0, 1500.0, 2500.0])
        return (lambda z: 1.7e9 + w * z), f'epoch(1.7e9,{w})'
    if kind == 'near_kilo':       # 1000 + 1e-3 y
        w = rng.choice([1e-3, 5e-4])
        return (lambda z: 1000.0 + w * z), f'kilo(1000,{w})'
    if kind == 'near_tiny':       # readings ~ 1e-9: range below 1e-8 absolute
        return (lambda z: 3e-9 + 1e-9 * st.norm.cdf(z)), 'tiny(3e-9,1e-9)'
    if kind == 'ints':
        m = rng.choice([2.0, 5.0])
        return (lambda z: np.round(st.gamma.ppf(st.norm.cdf(z), m) * 2.0)), f'ints({m})'
    raise ValueError(kind)


def gen_table(rng, nr, rows=None, allow_kde=True):
    """-> dict(labels, cols [ndarray], kinds, corr)."""
    k = rng.choice([2, 3, 3, 4, 4, 5, 6])
    n = rows or rng.choice([30, 31, 40, 64, 100, 150, 200, 300])
    R, L = random_correlation(rng, nr, k)
    Z = nr.randn(n, k) @ L.T
    kinds_pool = ['gaussian', 'beta', 'gamma', 'uniform', 'student_t', 'log_laplace', 'truncated', 'kde', 'ints']
    if not allow_kde:
        kinds_pool = [x for x in kinds_pool if x not in ('kde', 'ints')]
    cols, kinds, descr = [], [], []
    dtypes = ['float'] * k
    n_const = rng.choice([0, 0, 0, 0, 1, 1, 2]) if k > 2 else rng.choice([0, 0, 0, 1])
    const_at = set(rng.sample(range(k), n_const))
    # about 1 table in 4 has a NON-constant column whose range is tiny relative to its magnitude (or absolutely)
    near_at = rng.randrange(k) if rng.random() < 0.25 else -1
    for j in range(k):
        if j in const_at:
            if rng.random() < 0.4:
                # integer dtype: small, bool-like, negative, and values float64 cannot hold (|v| > 2**53)
                c = rng.choice([0, 1, 7, -7, 2 ** 53 + 1, -(2 ** 53) - 3, 1696118400123456789, 2 ** 62 + 12345, -(2 ** 63) + 5])
                cols.append(np.full(n, c, dtype=np.int64))
                kinds.append('const')
                descr.append(f'const(int64 {c})')
                dtypes[j] = 'int64'
            else:
                c = rng.choice([0.0, 1.0, -3.5, 5.0, 1e6, 0.1, 3.25, -0.0, 1e300, -1e-300, 5e-324, 2.0 ** 53 + 2.0])
                cols.append(np.full(n, c))
                kinds.append('const')
                descr.append(f'const({c!r})')
            continue
        kind = rng.choice(kinds_pool)
        if near_at == j:
            kind = rng.choice(NEAR)
        elif allow_kde and rng.random() < 0.06:
            kind = rng.choice(XSCALE)
        q, d = marginal(rng, kind)
        x = np.asarray(q(Z[:, j]), dtype=float)
        if kind == 'ints' and np.all(x == x[0]):
            x[0] += 1.0
        cols.append(x)
        kinds.append(kind)
        descr.append(d)
    if rng.random() < 0.3:
        labels = rng.sample(range(0, 40), k)
    else:
        labels = rng.sample(['a', 'B', 'c3', 'z', 'x_1', 'col', 'y', 'M', 'k9', 'w w', 'é', '0', 'b', 'A'], k)
    # row order: as drawn (exchangeable), or ORDERED by one column (sorted, block-ordered, trend)
    varying = [j for j in range(k) if kinds[j] != 'const']
    row_order = 'as-drawn'
    if varying and rng.random() < 0.2:
        key = cols[rng.choice(varying)]
        row_order = rng.choice(['sorted-asc', 'sorted-desc', 'blocks', 'trend'])
        if row_order == 'sorted-asc':
            perm = np.argsort(key, kind='stable')
        elif row_order == 'sorted-desc':
            perm = np.argsort(-key, kind='stable')
        elif row_order == 'blocks':
            perm = np.argsort(key, kind='stable')
            blocks = np.array_split(perm, 4)
            rng.shuffle(blocks)
            perm = np.concatenate(blocks)
        else:
            perm = np.argsort(key + 0.5 * float(np.std(key)) * nr.randn(n), kind='stable')
        cols = [c[perm] for c in cols]
    return {'labels': labels, 'cols': cols, 'kinds': kinds, 'descr': descr, 'corr': R, 'dtypes': dtypes,
            'row_order': row_order}


def gen_config(rng, tab, quick):
    """-> JSON-able spec: ['default'] | [form, ClassName] | ['dict', [[enc_label, [form, ClassName]], ...]] (ordered)."""
    def pick_single():
        pool = list(FAST) * (4 if quick else 2) + list(SLOW)
        return rng.choice(pool)

    r = rng.random()
    if r < 0.02:
        return ['dict', []]                                # the EMPTY per-column dict: every column -> default selection
    if r < (0.06 if quick else 0.10):
        return ['default']
    if r < 0.50:
        form, name = rng.choice(['class', 'str', 'inst']), pick_single()
        if form == 'inst' and name == 'GaussianKDE' and rng.random() < 0.6:
            # one instance for the whole table: weights have the table's row count, whatever the column
            varying = [c for c, kd in zip(tab['cols'], tab['kinds']) if kd != 'const']
            opts = gen_inst_opts(rng, name, varying[0] if varying else tab['cols'][0])
            if opts:
                return [form, name, opts]
        return [form, name]
    labs, kinds = list(tab['labels']), list(tab['kinds'])
    items = []
    for lab, kind, col in zip(labs, kinds, tab['cols']):
        name = KIND2CLASS[kind] if rng.random() < 0.8 else rng.choice(list(FAST) + list(SLOW))
        if quick and name in SLOW and rng.random() < 0.5:
            name = rng.choice(FAST)
        form = rng.choice(['class', 'str', 'inst'])
        if kind != 'const' and rng.random() < 0.08:
            form, name = 'inst', 'Univariate'           # a selector instance, possibly with selection_sample_size
        leaf_ = [form, name]
        if form == 'inst' and kind != 'const' and rng.random() < 0.6:
            opts = gen_inst_opts(rng, name, col)
            if opts:
                leaf_ = [form, name, opts]
        items.append([enc_label(lab), leaf_])
    return ['dict', shape_dict(rng, items)]


DICT_SHAPES = ('full-in-order', 'full-reversed', 'full-shuffled', 'last-only', 'inner-only', 'subset-shuffled',
               'leading-run', 'unknown-key-first')


def shape_dict(rng, items, shape=None):
    """the ORDER and COVERAGE of a per-column dict are part of the configuration: keys in table order, reversed,
    shuffled, only the last / an inner column, a shuffled subset, a leading run, an unknown key in front.  Missing
    columns get DEFAULT_DISTRIBUTION (Univariate selection), so at most 2 columns are left out."""
    shape = shape or rng.choice(DICT_SHAPES)
    k = len(items)
    if shape == 'full-reversed':
        out = items[::-1]
    elif shape == 'full-shuffled':
        out = items[:]
        rng.shuffle(out)
        if k > 1 and out == items:
            out = items[1:] + items[:1]
    elif shape == 'last-only':
        out = items[-1:] if k <= 3 else [items[-1]] + items[1:-2]
    elif shape == 'inner-only':
        out = [items[k // 2]] if k <= 3 else [items[k // 2]] + [it for i, it in enumerate(items) if i not in (0, k // 2, k - 1)]
    elif shape == 'subset-shuffled':
        drop = set(rng.sample(range(k), min(2, k - 1)))
        out = [it for i, it in enumerate(items) if i not in drop]
        rng.shuffle(out)
    elif shape == 'leading-run':
        out = items[:max(1, k - rng.choice([1, 2]))]
    elif shape == 'unknown-key-first':
        out = [['s:' + 'nope'.encode().hex(), ['class', 'UniformUnivariate']]] + items[::-1]
    else:
        out = items[:]
    return out


def dict_items(spec):
    """ordered (label token, leaf) pairs of a dict spec (older replays stored a JSON object)."""
    body = spec[1]
    return [list(x) for x in body.items()] if isinstance(body, dict) else [list(x) for x in body]


def gen_inst_opts(rng, name, col):
    """constructor options of an INSTANCE configuration (JSON-able): GaussianKDE(weights=non-uniform | bw_method=
    'silverman' / scalar | sample_size=k), TruncatedGaussian(minimum, maximum), Univariate(selection_sample_size=k)."""
    x = np.asarray(col, dtype=float)
    n = len(x)
    if name == 'GaussianKDE':
        what = rng.choice(['weights', 'weights', 'bw', 'sample_size', 'none'])
        if what == 'weights' and np.std(x) > 0:
            style = rng.choice(['tilt', 'random', 'two-level'])
            if style == 'tilt':
                # moderately non-uniform (effective sample size stays ~n/3: a near-degenerate weight vector blows the
                # kernel bandwidth up beyond GaussianKDE's root bracket — a different matter, see kde-bracket class)
                w = np.exp(rng.choice([-0.8, 0.8]) * np.clip((x - x.mean()) / x.std(), -2.5, 2.5))
            elif style == 'random':
                w = np.array([rng.gammavariate(0.5, 1.0) + 1e-3 for _ in range(n)])
            else:
                w = np.where(np.arange(n) % 3 == 0, 10.0, 1.0)
            return {'weights': [float(v) for v in w]}
        if what == 'bw':
            return {'bw_method': rng.choice(['silverman', 0.3, 0.8])}
        if what == 'sample_size':
            return {'sample_size': rng.choice([max(5, n // 2), n, 2 * n])}
        return {}
    if name == 'TruncatedGaussian' and np.std(x) > 0:
        r = float(x.max() - x.min())
        pad = rng.choice([1e-3, 0.5, 2.0]) * r
        return {'minimum': float(x.min() - pad), 'maximum': float(x.max() + pad)}
    if name == 'Univariate' and n >= 12:
        return {'selection_sample_size': rng.choice([max(5, n // 3), max(6, n // 2), n + 5])}
    return {}


def leaf_opts(case, j):
    """constructor options configured for column j ({} when none)."""
    spec = case['config']
    if spec[0] == 'default':
        return {}
    if spec[0] == 'dict':
        for k_, v in dict_items(spec):
            if k_ == enc_label(case['labels'][j]):
                return dict(v[2]) if len(v) > 2 and v[2] else {}
        return {}
    return dict(spec[2]) if len(spec) > 2 and spec[2] else {}


def build_config(spec):
    def leaf(form, name, opts=None):
        if form == 'class':
            return _cls(name)
        if form == 'str':
            return FQN[name]
        kw = dict(opts or {})
        if 'weights' in kw:
            kw['weights'] = np.array(kw['weights'], dtype=float)
        if 'candidates' in kw:
            kw['candidates'] = [_cls(c) for c in kw['candidates']]
        return _cls(name)(**kw)
    if spec[0] == 'default':
        return None
    if spec[0] == 'dict':
        return {dec_label(k): leaf(*v) for k, v in dict_items(spec)}
    return leaf(*spec)


def gen_seed(rng):
    r = rng.random()
    if r < 0.1:
        return ['none', rng.randrange(2 ** 31)]            # unseeded model: the GLOBAL stream is set to this seed
    if r < 0.25:
        return ['rs', rng.randrange(2 ** 31)]
    return ['int', rng.randrange(2 ** 31)]


def make_case(rng, nr, quick, **kw):
    tab = gen_table(rng, nr, **kw)
    ndarray = False
    if isinstance(tab['labels'][0], int) and rng.random() < 0.4 and all(t == 'float' for t in tab['dtypes']):
        # the training table is a numpy array: fit() labels its columns 0..k-1, a dict is keyed by those ints
        tab['labels'] = list(range(len(tab['labels'])))
        ndarray = True
    return {'labels': tab['labels'], 'cols': [c.tolist() for c in tab['cols']], 'kinds': tab['kinds'],
            'descr': tab['descr'], 'config': gen_config(rng, tab, quick), 'seed': gen_seed(rng), 'ndarray': ndarray,
            'dtypes': tab['dtypes'], 'row_order': tab['row_order'],
            'row_index': 'default' if (ndarray or rng.random() < 0.5) else rng.choice(ROW_INDEX_FORMS[1:])}


def col_dtypes(case):
    return list(case.get('dtypes') or ['float'] * len(case['labels']))


def case_input(case, **extra):
    """JSON-able, exactly replayable rendering of a case."""
    d = {'labels': [enc_label(x) for x in case['labels']], 'readable_labels': [repr(x) for x in case['labels']],
         'cols_hex': [[str(int(v)) for v in c] if dt == 'int64' else [vc.f2h(v) for v in c]
                      for c, dt in zip(case['cols'], col_dtypes(case))], 'kinds': case['kinds'],
         'config': case['config'], 'seed': case['seed'], 'ndarray': bool(case.get('ndarray')),
         'dtypes': col_dtypes(case), 'row_order': case.get('row_order', 'as-drawn'),
         'row_index': case.get('row_index', 'default')}
    d.update(extra)
    return d


def short_config(spec):
    """configuration with long option values (weights) abbreviated, for messages."""
    def leaf(v):
        if len(v) > 2 and v[2]:
            return [v[0], v[1], {k_: ('<%d weights>' % len(x_) if k_ == 'weights' else x_) for k_, x_ in v[2].items()}]
        return list(v[:2])
    if spec[0] == 'default':
        return spec
    if spec[0] == 'dict':
        return ['dict', [[k_, leaf(v)] for k_, v in dict_items(spec)]]
    return leaf(spec)


def brief(case, **extra):
    """short rendering for obligation details (the full table goes into failing-input replays only)."""
    d = {'labels': [repr(x) for x in case['labels']], 'kinds': case['kinds'], 'config': short_config(case['config']),
         'seed': case['seed'], 'rows': len(case['cols'][0])}
    d.update(extra)
    return d


def case_from_input(inp):
    dts = inp.get('dtypes') or ['float'] * len(inp['labels'])
    return {'labels': [dec_label(t) for t in inp['labels']],
            'cols': [[int(h) for h in c] if dt == 'int64' else [vc.h2f(h) for h in c]
                     for c, dt in zip(inp['cols_hex'], dts)], 'kinds': inp.get('kinds', []),
            'descr': [], 'config': inp['config'], 'seed': inp['seed'], 'ndarray': bool(inp.get('ndarray')),
            'dtypes': list(dts), 'row_order': inp.get('row_order', 'as-drawn'),
            'row_index': inp.get('row_index', 'default')}


# --------------------------------------------------------------------------------------------- the real code
class Recorder:
    """harness-side wrapper around np.random.multivariate_normal; restores the original on exit."""

    def __enter__(self):
        self.calls = []
        self.orig = np.random.multivariate_normal

        def wrapper(mean, cov, size=None, *a, **k):
            out = self.orig(mean, cov, size, *a, **k)
            self.calls.append({'mean': np.array(mean, dtype=float), 'cov': np.array(cov, dtype=float), 'size': size,
                               'out': np.array(out, copy=True)})
            return out
        np.random.multivariate_normal = wrapper
        return self

    def __exit__(self, *a):
        np.random.multivariate_normal = self.orig


ROW_INDEX_FORMS = ('default', 'shuffled', 'offset-n', 'offset-1', 'strings', 'datetime', 'multi', 'duplicated', 'filtered')


def make_row_index(form, n):
    """row index of the training frame (the VALUES and their order are the same under every form)."""
    if form == 'shuffled':
        return pd.Index(np.random.RandomState(n).permutation(n))
    if form == 'offset-n':
        return pd.RangeIndex(n, 2 * n)
    if form == 'offset-1':
        return pd.RangeIndex(1, n + 1)
    if form == 'strings':
        return pd.Index(['row%d' % i for i in range(n)])
    if form == 'datetime':
        return pd.date_range('2021-03-01', periods=n, freq='h')
    if form == 'multi':
        return pd.MultiIndex.from_arrays([np.arange(n) // 7, np.arange(n) % 7])
    if form == 'duplicated':
        return pd.Index(np.arange(n) // 2)
    if form == 'filtered':          # what is left of a 3n-row table after a row filter
        return pd.Index(np.sort(np.random.RandomState(n).choice(3 * n, size=n, replace=False)))
    return pd.RangeIndex(n)


def fit_model(case, row_index=None):
    """fit the real model; -> (model, X).  An unseeded model draws from the global stream, which is saved, seeded
    and restored around every use (the harness never consumes global randomness)."""
    from copulas.multivariate import GaussianMultivariate
    X = pd.DataFrame({lab: np.array(col, dtype=(np.int64 if dt == 'int64' else float))
                      for lab, col, dt in zip(case['labels'], case['cols'], col_dtypes(case))},
                     columns=list(case['labels']))
    form_ = row_index or case.get('row_index') or 'default'
    if form_ != 'default' and not case.get('ndarray'):
        X.index = make_row_index(form_, len(X))
    cfg = build_config(case['config'])
    kind, s = case['seed']
    rs = None if kind == 'none' else (s if kind == 'int' else np.random.RandomState(s))
    kw = {} if cfg is None else {'distribution': cfg}
    model = GaussianMultivariate(random_state=rs, **kw)
    state = np.random.get_state()
    try:
        np.random.seed(s % (2 ** 32))
        model.fit(X.to_numpy() if case.get('ndarray') else X)
    finally:
        np.random.set_state(state)
    return model, X


def real_sample(model, case, n, first):
    """-> (DataFrame, recorded calls).  For an unseeded model the global stream is seeded deterministically."""
    kind, s = case['seed']
    state = np.random.get_state()
    try:
        if kind == 'none':
            np.random.seed((s + 7919 * n + (0 if first else 1)) % (2 ** 32))
        with Recorder() as rec:
            out = model.sample(n)
    finally:
        np.random.set_state(state)
    return out, rec.calls


_QGRID = np.linspace(0.002, 0.998, 84)


def col_status(uni, train):
    """'const'      : the TRAINING column is constant (the model's `Uni.const`);
       'degenerate' : the fitted marginal is not a continuous law at binary64 resolution (percent_point not strictly
                      increasing / not finite on the grid) — e.g. scipy's beta.fit collapsing on heavy-tailed data;
                      the statistical clauses (KS, Kendall value) and the IsQuantileOf validation do not apply;
       'regular'    : otherwise."""
    train = np.asarray(train, dtype=float)
    if np.all(train == train[0]):
        return 'const'
    try:
        p = np.asarray(uni.percent_point(_QGRID), dtype=float)
    except Exception:
        return 'degenerate'
    if not (np.all(np.isfinite(p)) and np.all(np.diff(p) > 0)):
        return 'degenerate'
    return 'regular'


# --------------------------------------------------------------------------------------------- plan terms
_D = re.compile(r'D(\d+)\.(\d+)')


def parse_plan(reply):
    """'ok mvn d n | lab len t..' -> (d, n, [(label_token, [cells])])"""
    ws = reply.split()
    if len(ws) < 4 or ws[0] != 'ok' or ws[1] != 'mvn':
        raise ValueError('bad plan reply: ' + reply[:120])
    d, n = int(ws[2]), int(ws[3])
    cols, i = [], 4
    while i < len(ws):
        if ws[i] != '|':
            raise ValueError('bad plan framing at word %d' % i)
        lab, ln = ws[i + 1], int(ws[i + 2])
        cols.append((lab, ws[i + 3:i + 3 + ln]))
        i += 3 + ln
    return d, n, cols


def eval_shape(shape, rows, pos, unis, draws):
    """recursive-descent evaluation of one column shape (`#` = the per-cell row index, given by `rows`).
    -> (value array, position after the term)"""
    if shape.startswith('P', pos):
        m = re.compile(r'P(\d+)\(').match(shape, pos)
        j = int(m.group(1))
        val, pos = eval_shape(shape, rows, m.end(), unis, draws)
        if shape[pos:pos + 1] != ')':
            raise ValueError('unbalanced plan term')
        return np.asarray(unis[j].percent_point(val)), pos + 1
    if shape.startswith('H(', pos):
        val, pos = eval_shape(shape, rows, pos + 2, unis, draws)
        if shape[pos:pos + 1] != ')':
            raise ValueError('unbalanced plan term')
        return st.norm.cdf(val), pos + 1
    m = re.compile(r'D(\d+)\.#').match(shape, pos)
    if m:
        return draws[rows, int(m.group(1))], m.end()
    raise ValueError('bad term at %d: %s' % (pos, shape[pos:pos + 20]))


def interpret_column(cells, unis, draws):
    """plan cells of one column -> ndarray, evaluated COLUMN-WISE with the real objects (a cell-by-cell
    evaluation would not be bit-identical for the vectorised root finder of GaussianKDE)."""
    n = len(cells)
    if n == 0:
        return np.zeros(0)
    if all(c.startswith('C') and len(c) == 17 for c in cells):
        return np.array([vc.h2f(c[1:]) for c in cells], dtype=float)
    shapes = {_D.sub(lambda m: 'D%s.#' % m.group(1), c) for c in cells}
    if len(shapes) != 1:
        raise ValueError('column plan is not a map of one term: %s' % sorted(shapes)[:3])
    shape = shapes.pop()
    if shape.count('#') != 1:
        raise ValueError('column plan reads %d draw cells per output cell' % shape.count('#'))
    rows = np.array([int(_D.search(c).group(2)) for c in cells], dtype=int)
    val, pos = eval_shape(shape, rows, 0, unis, draws)
    if pos != len(shape):
        raise ValueError('trailing text in plan term')
    return np.asarray(val, dtype=float)


def bits_equal(a, b):
    a = np.ascontiguousarray(np.asarray(a, dtype=np.float64))
    b = np.ascontiguousarray(np.asarray(b, dtype=np.float64))
    return a.shape == b.shape and bool(np.array_equal(a.view(np.uint64), b.view(np.uint64)))


def table_request(cmd, case, *pre):
    d, r = len(case['labels']), len(case['cols'][0])
    ws = ['gs', cmd] + [str(p) for p in pre] + [str(d), str(r)] + [enc_label(x) for x in case['labels']]
    for c in case['cols']:
        ws += [vc.f2h(float(v)) for v in c]          # the Lean model runs at Float (exact-integer check: schema oracle)
    return ' '.join(ws)


# --------------------------------------------------------------------------------------------- oracles
def has_constant_override(uni):
    """the real univariate (or the instance selected by `Univariate`) carries `_replace_constant_methods`' overrides,
    i.e. it was fitted AS a constant column."""
    for u in (uni, getattr(uni, '_instance', None)):
        if u is None:
            continue
        f = vars(u).get('percent_point')
        if f is not None and getattr(f, '__name__', '') == '_constant_percent_point':
            return True
    return False


def kde_backed(uni):
    return type(uni).__name__ == 'GaussianKDE' or type(getattr(uni, '_instance', None)).__name__ == 'GaussianKDE'


def schema_problems(model, case, out, n, draws=None):
    """the schema clause of C01 on one real sample -> list of (what, observed).  `what` is part of the failure class:
    an infinite cell of a GaussianKDE-backed column whose score Phi(z) is within float32-eps of 0 (-inf) / 1 (+inf) is the class
    `kde-tail-infinite` (GaussianKDE.percent_point returns +-inf for u within float32-eps of 0 or 1); any other
    non-finite cell is `nonfinite` / `nan`."""
    probs = []
    labels = list(case['labels'])
    if not isinstance(out, pd.DataFrame):
        return [('type', type(out).__name__)]
    got = list(out.columns)
    if len(got) != len(labels) or any(type(a) is not type(b) and not (isinstance(a, (int, np.integer)) and isinstance(b, (int, np.integer))) or a != b
                                      for a, b in zip(got, labels)):
        probs.append(('labels', {'sampled_columns': [repr(x) for x in got], 'training_columns': [repr(x) for x in labels],
                                 'model_columns': [repr(x) for x in (model.columns or [])]}))
        return probs
    if len(out) != n:
        probs.append(('rows', len(out)))
    for j, lab in enumerate(labels):
        col = out.iloc[:, j]
        dts = col_dtypes(case)
        tr_raw = case['cols'][j]
        is_const = all(x == tr_raw[0] for x in tr_raw)
        if dts[j] == 'int64' and is_const:
            # an INTEGER constant column must come back exactly, also beyond 2**53 (compared as Python ints)
            want = int(tr_raw[0])
            try:
                vals = col.tolist()
                got_ints = [int(x) for x in vals]
                exact = len(got_ints) == n and all(g == want for g in got_ints) and \
                    all((not isinstance(x, float)) or x.is_integer() for x in vals)
            except Exception:  # noqa
                got_ints, exact = [repr(x) for x in col.tolist()[:3]], False
            if not exact:
                probs.append(('constant', {'column': repr(lab), 'trained_on_integer_constant': want,
                                           'sampled': got_ints[:3], 'sampled_dtype': str(col.dtype)}))
            continue
        if col.dtype != np.float64:
            probs.append(('dtype', f'{lab!r}: {col.dtype}'))
            continue
        v = col.to_numpy()
        if np.isnan(v).any():
            probs.append(('nan', f'{lab!r}: {int(np.isnan(v).sum())} NaN'))
        if np.isinf(v).any():
            rows = np.where(np.isinf(v))[0]
            unis = list(model.univariates)
            zs = None if draws is None or draws.shape != (len(v), len(labels)) else draws[rows, j]
            tail = False
            if zs is not None and j < len(unis) and kde_backed(unis[j]):
                # exactly the recorded situation: u = Phi(z) beyond GaussianKDE.percent_point's EPSILON cut
                # (float32 eps), -inf on the low side and +inf on the high side
                eps32 = float(np.finfo(np.float32).eps)
                us = st.norm.cdf(zs)
                tail = bool(np.all(((us <= eps32) & (v[rows] == -np.inf)) | ((us >= 1.0 - eps32) & (v[rows] == np.inf))))
            probs.append(('kde-tail-infinite' if tail else 'nonfinite',
                          {'column': repr(lab), 'rows': rows[:5].tolist(), 'values': v[rows[:5]].tolist(),
                           'normal_draws': None if zs is None else zs[:5].tolist(),
                           'univariate': type(unis[j]).__name__ + '>' + type(getattr(unis[j], '_instance', None)).__name__
                           if j < len(unis) else '?'}))
        tr = np.asarray(case['cols'][j], dtype=float)
        if np.all(tr == tr[0]) and not (len(v) == n and bits_equal(v, np.full(len(v), tr[0]))):
            # bit-exact: -0.0, denormals, 1e300 and 0.1 come back as the very same float
            probs.append(('constant', {'column': repr(lab), 'trained_on_constant': [float(tr[0]), vc.f2h(tr[0])],
                                       'sampled': [[float(x), vc.f2h(x)] for x in v[:3]]}))
    return probs


def numeric_slack(train):
    """(tolerance of the cdf/percent_point round trip, slack added to the KS band) for one training column.
    On an ill-scaled column (range below 1e-3 of the magnitude: timestamps, 1000 + 1e-3 y) scipy's location-scale
    laws with huge shape parameters (a LogLaplace / Gamma fit with c ~ 1e7 and loc ~ -1e7) evaluate cdf with a
    cancellation error of ~1e-5; that is binary64 conditioning of a legal fit, not a broken quantile pair."""
    t = np.asarray(train, dtype=float)
    mag = max(abs(float(t.max())), abs(float(t.min())), 1e-300)
    # GaussianKDE.percent_point's root finder stops at |dx| <= 2 eps |x| + 2 eps (its documented defaults): in
    # probability units that is ~ tolerance / std.  Only matters below ~1e-10 absolute spread (2.2e-11 +- 3e-12 F:
    # 3e-4) and for offsets above ~1e10 times the spread.
    eps = float(np.finfo(float).eps)
    sd = float(np.std(t))
    solver = 2.0 * (2 * eps * mag + 2 * eps) / sd if sd > 0 else 0.0
    if (float(t.max()) - float(t.min())) / mag >= 1e-3:
        return max(1e-6, solver), max(1e-4, solver)
    return max(1e-3, solver), max(2e-3, solver)


def ulp_nbhd(x, k=4):
    """x -/+ k units in the last place."""
    x = np.asarray(x, dtype=float)
    h = k * np.spacing(np.abs(x))
    return x - h, x + h


def ref_inverse(cdf, u, lo, hi, iters=44):
    """independent inversion of a fitted cdf: plain float64 bisection on cdf(x) - u over [lo, hi]."""
    lo = np.full(u.shape, lo, dtype=float)
    hi = np.full(u.shape, hi, dtype=float)
    for _ in range(iters):
        mid = 0.5 * (lo + hi)
        up = (np.asarray(cdf(mid), dtype=float) - u) < 0
        lo = np.where(up, mid, lo)
        hi = np.where(up, hi, mid)
    return 0.5 * (lo + hi)


def independent_kde_cdf(uni, opts):
    """x -> sum_i w_i Phi((x - d_i) / h): the fitted (weighted) Gaussian kernel law, rebuilt in the harness from
    `_params['dataset']`, the CONFIGURED weights (uniform when none) and scipy's bandwidth factor.  None if unavailable."""
    from scipy.special import ndtr
    kde = uni if type(uni).__name__ == 'GaussianKDE' else getattr(uni, '_instance', None)
    try:
        data = np.asarray(kde._params['dataset'], dtype=float).ravel()
        factor = float(kde._model.factor)
    except Exception:  # noqa
        return None
    w = np.asarray(opts['weights'], dtype=float) if opts.get('weights') is not None else np.ones(len(data))
    if len(w) != len(data) or len(data) < 2:
        return None
    w = w / w.sum()
    var = float(np.cov(data, aweights=w, bias=False))
    if not var > 0:
        return None
    h = factor * math.sqrt(var)
    return lambda x: ndtr((np.asarray(x, dtype=float)[:, None] - data) / h).dot(w)


def kde_inversion_problems(case, unis, out, draws, max_rows=300, probs_marginal=None):
    """deterministic oracle for the columns modelled by GaussianKDE (whose percent_point is Copulas' OWN root
    finder): the sampled cell must be the quantile of the fitted KDE at u = Phi(normal draw), as computed by an
    independent bisection of `univariate.cdf`, in the column's own scale:
        |x - x_ref| <= 1e-6 * (training max - min)   or   |cdf(x) - u| <= max(2e-4, solver tolerance in probability)
    (the second alternative covers flat stretches of the cdf, where the root is ill-determined in x but the
    distribution is not affected), and the sampled column must not be quantised: >= 98% distinct values.
    -> list of (column, observed)"""
    probs = []
    marg = probs_marginal if probs_marginal is not None else []
    d = len(case['labels'])
    if draws is None or getattr(draws, 'shape', None) != (len(out), d):
        return probs
    eps32 = float(np.finfo(np.float32).eps)
    for j in range(min(d, len(unis))):
        tr = np.asarray(case['cols'][j], dtype=float)
        if not kde_backed(unis[j]) or np.all(tr == tr[0]):
            continue
        x = out.iloc[:max_rows, j].to_numpy()
        u = st.norm.cdf(draws[:max_rows, j])
        ok = np.isfinite(x) & (u > eps32) & (u < 1 - eps32)        # beyond: the recorded kde-tail-infinite finding
        if ok.sum() == 0:
            continue
        x, u = x[ok], u[ok]
        R = float(tr.max() - tr.min())
        ref = ref_inverse(unis[j].cdf, u, tr.min() - 8 * R, tr.max() + 8 * R)
        err = np.abs(x - ref) / R
        res = np.abs(np.asarray(unis[j].cdf(x), dtype=float) - u)
        tol_p = max(2e-4, numeric_slack(tr)[0])
        bad = (err > 1e-6) & ~(res <= tol_p)
        distinct = int(len(np.unique(x)))
        # INDEPENDENT of the model's own cdf: the weighted kernel cdf rebuilt from the stored dataset, the configured
        # weights and the bandwidth factor scipy reports;  F_w(sampled cell) must be Phi(draw)
        ind = independent_kde_cdf(unis[j], leaf_opts(case, j))
        if ind is not None:
            res_ind = np.abs(ind(x) - u)
            off = res_ind > tol_p + 1e-6
            if off.any():
                i = int(np.argmax(res_ind))
                marg.append((j, {'cells_checked': int(len(x)), 'cells_off': int(off.sum()),
                                 'worst': {'u': float(u[i]), 'sampled': float(x[i]),
                                           'independent_weighted_kernel_cdf': float(ind(x[i:i + 1])[0]),
                                           'models_own_cdf': float(np.asarray(unis[j].cdf(x[i:i + 1]))[0])},
                                 'options': {k_: (v_ if k_ != 'weights' else 'non-uniform, %d values' % len(v_))
                                             for k_, v_ in leaf_opts(case, j).items()},
                                 'univariate': type(unis[j]).__name__ + '>' + type(getattr(unis[j], '_instance', None)).__name__}))
        if bad.any() or (len(x) >= 20 and distinct < 0.98 * len(x)):
            i = int(np.argmax(np.where(bad, res, -1.0))) if bad.any() else 0
            probs.append((j, {'cells_checked': int(len(x)), 'cells_off': int(bad.sum()), 'distinct_values': distinct,
                              'worst': {'u': float(u[i]), 'sampled': float(x[i]), 'independent_inverse': float(ref[i]),
                                        'error_in_training_ranges': float(err[i]), 'cdf_residual': float(res[i])},
                              'training_min_max': [float(tr.min()), float(tr.max())],
                              'univariate': type(unis[j]).__name__ + '>' + type(getattr(unis[j], '_instance', None)).__name__}))
    return probs


KDE_MARG_REQ = ('the probability of a sampled GaussianKDE cell under the fitted WEIGHTED kernel law (dataset, configured '
                'weights, scipy bandwidth factor; computed independently of the model\'s cdf) equals Phi(normal draw) up to '
                'the solver tolerance')
KDE_INV_REQ = ('a GaussianKDE-modelled column is percent_point(Phi(draw)): within 1e-6 training ranges of an independent '
               'bisection of the fitted cdf (or cdf residual <= 2e-4), and not quantised (>= 98% distinct values)')


def ks_two_sample(a, b):
    a, b = np.sort(np.asarray(a, dtype=float)), np.sort(np.asarray(b, dtype=float))
    allv = np.concatenate([a, b])
    Fa = np.searchsorted(a, allv, side='right') / len(a)
    Fb = np.searchsorted(b, allv, side='right') / len(b)
    return float(np.max(np.abs(Fa - Fb)))


def empirical_law_problems(case, unis, cols):
    """C01 against the TRAINING data: a training column with > 1 distinct values must not come back as a constant
    column, and (where the configured family cannot be blamed for a misfit) its sampled values must follow the
    column's empirical law.  -> list of (class suffix, column, observed, required).
    * not-constant: for every column whose requested family is ROBUST (Gaussian / Uniform / KDE: moment, range and
      kernel estimates cannot collapse), the default selection, or the family matched to the generating law.
      (A collapsed scipy MLE of a mis-specified family — Beta on heavy-tailed data — is a misfit, not this class.)
    * range: central 98% of the sample inside the training range extended by 3 ranges on each side (ROBUST only).
    * ECDF: two-sample KS(training, sample) <= DKW(n_train) + DKW(n_sample) + 0.15 for GaussianKDE and for the matched
      family of a closed-form generating law (each DKW radius at false-alarm probability DELTA; 0.15 is slack for the
      parametric estimation error, >= 5x the largest value seen in calibration)."""
    out = []
    requested = requested_classes(case)
    for j, (kind, rq) in enumerate(zip(case['kinds'], requested)):
        tr = np.asarray(case['cols'][j], dtype=float)
        if len(np.unique(tr)) < 2 or j not in cols:
            continue
        v = np.asarray(cols[j], dtype=float)
        if len(v) < 50 or not np.all(np.isfinite(v)):
            continue
        # matched = the configured family IS the generating one, for the laws whose scipy MLE is dependable
        # (LogLaplace / Beta / Student t / truncated-normal fits with free location can be far off even on their
        # own data: a fit-quality matter, property C04, not this oracle)
        if j < len(unis) and type(unis[j]).__name__ == 'GaussianUnivariate' and rq != 'GaussianUnivariate':
            rq = 'GaussianUnivariate'                  # the Gaussian fall-back: judged as a Gaussian fit of ITS column
        matched = kind in ('gaussian', 'uniform', 'gamma') + NEAR and KIND2CLASS[kind] == rq
        eligible = rq in ROBUST or rq == 'Univariate' or matched
        if not eligible:
            continue
        if len(np.unique(v)) == 1:
            out.append(('nonconstant-column-sampled-constant', j,
                        {'training_distinct': int(len(np.unique(tr))), 'training_min': float(tr.min()),
                         'training_max': float(tr.max()), 'sampled_constant': float(v[0]),
                         'constant_override': has_constant_override(unis[j]), 'requested': rq},
                        'a training column with > 1 distinct values is not sampled as a constant column'))
            continue
        R = float(tr.max() - tr.min())
        if rq in ROBUST:
            lo, hi = np.quantile(v, [0.01, 0.99])
            if not (tr.min() - 3 * R <= lo and hi <= tr.max() + 3 * R):
                out.append(('sample-outside-training-range', j,
                            {'sample_q01_q99': [float(lo), float(hi)], 'training_range': [float(tr.min()), float(tr.max())],
                             'requested': rq},
                            'central 98% of the sampled column inside the training range extended by 3 ranges'))
        if ((rq == 'GaussianKDE' and kind != 'ints') or matched) and not leaf_opts(case, j).get('weights'):
            D = ks_two_sample(tr, v)
            band = dkw_eps(len(tr)) + dkw_eps(len(v)) + 0.15
            if not D <= band:
                # whose fault?  If the FITTED cdf is already far from the training ECDF the fit did not recover the
                # marginal (reported per family at entry point fit, e.g. scipy's gamma.fit stuck at loc = min(X));
                # otherwise the sample does not follow a marginal that fits the data.
                Dfit = ks_distance(tr, unis[j].cdf)
                if Dfit > dkw_eps(len(tr)) + 0.1:
                    out.append(('fit:marginal-not-recovered-' + type(unis[j]).__name__, j,
                                {'ks_training_vs_fitted_cdf': Dfit, 'ks_two_sample': D, 'requested': rq, 'generating': kind,
                                 'fitted': {k_: float(v_) for k_, v_ in (getattr(unis[j], '_params', None) or {}).items()
                                            if isinstance(v_, (int, float, np.floating))}},
                                'the marginal fitted with the generating family is within DKW(n_train) + 0.1 of the '
                                'training ECDF (generating marginals are recovered)'))
                else:
                    out.append(('sample-not-like-training-data', j, {'ks_two_sample': D, 'band': band, 'requested': rq,
                                                                     'ks_training_vs_fitted_cdf': Dfit},
                                f'KS(training ECDF, sample ECDF) <= {band:.3f}'))
    return out


def ks_distance(sample, cdf):
    """sup |F_n - F| read at binary64 resolution: a sampled value is only known up to a few ulps (a fitted law with a
    huge density at its end point — LogLaplace with c < 1 — maps an interval of probabilities to ONE float)."""
    x = np.sort(np.asarray(sample, dtype=float))
    n = len(x)
    lo, hi = ulp_nbhd(x)
    Flo, Fhi = np.asarray(cdf(lo), dtype=float), np.asarray(cdf(hi), dtype=float)
    i = np.arange(1, n + 1)
    return float(max(np.max(i / n - Fhi), np.max(Flo - (i - 1) / n), 0.0))


def dkw_eps(n, delta=DELTA):
    """P(sup|F_n - F| > eps) <= 2 exp(-2 n eps^2) = delta (Dvoretzky-Kiefer-Wolfowitz, Massart constant)."""
    return math.sqrt(math.log(2.0 / delta) / (2.0 * n))


def hoeffding_tau_eps(n, delta=DELTA):
    """Kendall's tau-a is a U-statistic of degree 2 with kernel in [-1, 1]; Hoeffding (1963, eq. 5.7):
    P(|U - tau| >= t) <= 2 exp(-2 floor(n/2) t^2 / (b-a)^2) with b-a = 2, i.e. t = sqrt(2 ln(2/delta) / floor(n/2))."""
    return math.sqrt(2.0 * math.log(2.0 / delta) / (n // 2))


def brute_counts(xs, ys):
    c = d = tx = ty = txy = 0
    n = len(xs)
    for i in range(n):
        for j in range(i + 1, n):
            a = (xs[i] < xs[j]) - (xs[j] < xs[i])
            b = (ys[i] < ys[j]) - (ys[j] < ys[i])
            if a * b > 0:
                c += 1
            elif a * b < 0:
                d += 1
            tx += a == 0
            ty += b == 0
            txy += (a == 0 and b == 0)
    return [c, d, tx, ty, txy]


# --------------------------------------------------------------------------------------------- the tie
def run(ctx, lean):
    names = ['corr:fit-columns', 'corr:draw-request', 'corr:draw-replay', 'corr:sample-plan', 'corr:schema',
             'corr:kendall-sample', 'corr:kendall-counter', 'assume:quantile-pair', 'assume:norm-cdf',
             # translation validation: the same requests answered from the definitions GENERATED from the source
             # (Gen.GaussTransform.fitColumns; Gen.GaussCond.samplerArgs / sample with conditions = None) vs the real code
             'tv:GaussTransform', 'tv:GaussCond']
    if lean is None:
        for nm in names:
            ctx.ob(nm, False, 'tie', 'driver unavailable')
        return
    bad = {nm: None for nm in names}

    def note(nm, detail):
        if bad[nm] is None:
            bad[nm] = detail

    quick = ctx.tier == 'quick'
    rng = ctx.rng('tie')
    nr = ctx.nprng('tie')
    ntab = 50 * ctx.scale
    for t in range(ntab):
        case = make_case(rng, nr, quick)
        ns = [1, rng.randint(2, 200), rng.choice([2, 3, 5, 10, 50, 100, 200])]
        rng.shuffle(ns)
        tie_case(ctx, lean, case, ns, note)
    kendall_counter(ctx, lean, note)
    for nm in names:
        ctx.ob(nm, bad[nm] is None, 'tie', bad[nm] or 'ok')


def tie_case(ctx, lean, case, ns, note):
    d = len(case['labels'])
    form = case['config'][0]
    ctx.count('config:' + form)
    ctx.count('labels:' + ('int' if isinstance(case['labels'][0], int) else 'str'))
    ctx.count('seed:' + case['seed'][0])
    ctx.count('ncols:%d' % d)
    ctx.count('input:' + ('ndarray' if case.get('ndarray') else 'DataFrame'))
    ctx.count('row-order:' + case.get('row_order', 'as-drawn'))
    ctx.count('row-index:' + case.get('row_index', 'default'))
    for j_ in range(d):
        for k_ in leaf_opts(case, j_):
            ctx.count('inst-option:' + k_)
        if col_dtypes(case)[j_] == 'int64':
            ctx.count('const-int64' + (':beyond-2**53' if abs(int(case['cols'][j_][0])) > 2 ** 53 else ''))
    if form == 'dict':
        keys = [k for k, _ in dict_items(case['config'])]
        lead = keys == [enc_label(x) for x in case['labels']][:len(keys)]
        ctx.count('dict-keys:' + ('leading-run-in-table-order' if lead else 'non-leading-or-permuted'))
    for kd in case['kinds']:
        ctx.count('train-kind:' + kd)
    try:
        model, X = fit_model(case)
    except Exception as e:  # noqa
        ctx.count('fit-raised:' + type(e).__name__)
        note('corr:fit-columns', {'real': 'fit raised ' + repr(e)[:200], 'case': brief(case)})
        return
    unis = list(model.univariates)
    for u in unis:
        inner = getattr(u, '_instance', None)
        ctx.count('fitted:' + type(u).__name__ + ('>' + type(inner).__name__ if inner is not None else ''))
    requested = requested_classes(case)
    for u, rq in zip(unis, requested):
        if rq is not None and type(u).__name__ != rq:
            ctx.count('fallback-used')
    # --- fit: labels in order + which columns are constant
    real_cols = [enc_label(c) for c in model.columns]

    def fit_reply_ok(reply):
        ws = reply.split()
        ok_fit = ws[:1] == ['ok'] and len(ws) == 1 + 2 * d
        if ok_fit:
            mcols, mun = ws[1::2], ws[2::2]
            ok_fit = mcols == real_cols and len(unis) == d
            for j in range(d if ok_fit else 0):
                if mun[j].startswith('C'):
                    # the model says: trained on constant c => percent_point is constantly c
                    c = vc.h2f(mun[j][1:])
                    p = np.asarray(unis[j].percent_point(np.array([0.001, 0.25, 0.75, 0.999])), dtype=float)
                    ok_fit = ok_fit and bits_equal(p, np.full(4, c))
                else:
                    # the model says: > 1 distinct training values => an ordinary (external) fit, never the constant one
                    ok_fit = ok_fit and mun[j] == 'E%d' % j and not has_constant_override(unis[j])
        return ok_fit

    reply = lean.ask(table_request('fit', case))
    if not fit_reply_ok(reply):
        note('corr:fit-columns', {'model': reply[:200], 'real_columns': real_cols,
                                  'real_constant_override': [has_constant_override(u) for u in unis],
                                  'case': brief(case)})
    # the same from the GENERATED `_fit_columns` (state `genFitted` of Lemmas/GaussSampleGen.lean)
    greply = lean.ask(table_request('genfit', case))
    ctx.count('tv:genfit')
    if not fit_reply_ok(greply):
        note('tv:GaussTransform', {'generated': greply[:200], 'real_columns': real_cols,
                                   'real_constant_override': [has_constant_override(u) for u in unis],
                                   'case': brief(case)})
    # what the GENERATED `_get_normal_samples(n, None)` hands to the RNG: zeros, the stored correlation entry by entry,
    # the frame of draws labelled with the training columns (the real call is checked against the same under
    # corr:draw-request below)
    areply = lean.ask(table_request('genargs', case))
    ctx.count('tv:genargs')
    want_args = ('ok %d mean ' % d + ' '.join(['0'] * d) + ' cov '
                 + ' '.join('R%d.%d' % (i, j) for i in range(d) for j in range(d)) + ' cols ' + ' '.join(real_cols))
    if areply.split() != want_args.split():
        note('tv:GaussCond', {'generated_sampler_args': areply[:300], 'real': want_args[:300], 'case': brief(case)})
    if real_cols != [enc_label(x) for x in case['labels']]:
        return        # corr:fit-columns is broken; the index-based comparisons below would be misaligned
    status = [col_status(unis[j], case['cols'][j]) if j < len(unis) else 'const' for j in range(d)]
    for sname in status:
        ctx.count('column-status:' + sname)
    nonconst = [j for j in range(d) if status[j] == 'regular']
    validate_assumptions(ctx, case, unis, status, note)
    # --- samples
    first = True
    for n in ns:
        key = (tuple(case['labels']), repr(case['config']), tuple(case['seed']), n, vc.f2h(case['cols'][0][0]),
               vc.f2h(case['cols'][-1][-1]))
        ctx.case(key, nontrivial=(len(nonconst) >= 2 and n >= 2))
        try:
            out, calls = real_sample(model, case, n, first)
        except Exception as e:  # noqa
            note('corr:schema', {'real': 'sample raised ' + repr(e)[:300], 'case': brief(case, n=n)})
            first = False
            continue
        # draw request
        corr = model.correlation.to_numpy()
        okreq = (len(calls) == 1 and calls[0]['size'] == n and calls[0]['mean'].shape == (d,)
                 and not calls[0]['mean'].any() and bits_equal(calls[0]['cov'], corr)
                 and calls[0]['out'].shape == (n, d) and calls[0]['out'].dtype == np.float64)
        if not okreq:
            note('corr:draw-request', {'calls': [
                {'size': c['size'], 'mean': c['mean'].tolist(), 'out_shape': list(c['out'].shape)} for c in calls][:3],
                'expected': {'size': n, 'mean': 'zeros(%d)' % d, 'cov': 'model.correlation'}, 'case': brief(case, n=n)})
            first = False
            continue
        draws = calls[0]['out']
        if first and case['seed'][0] in ('int', 'rs'):
            rep = np.random.RandomState(case['seed'][1]).multivariate_normal(np.zeros(d), corr, size=n)
            ctx.count('draw-replayed-from-seed')
            if not bits_equal(rep, draws):
                note('corr:draw-replay', {'first_diff': first_diff(rep.ravel(), draws.ravel()), 'case': brief(case, n=n)})
        first = False
        # schema of the real output
        probs = schema_problems(model, case, out, n, draws)
        if any(w == 'kde-tail-infinite' for w, _ in probs):
            # the recorded finding (known_findings.json) met by chance in the tie: reported by the search under its
            # own class, not as a broken correspondence
            ctx.count('tie-met-kde-tail-infinite')
            probs = [pr for pr in probs if pr[0] != 'kde-tail-infinite']
        if probs:
            note('corr:schema', {'problems': probs[:3], 'case': brief(case, n=n)})
        # plan
        reply = lean.ask(table_request('sample', case, n))
        try:
            pd_, pn, pcols = parse_plan(reply)
            if (pd_, pn) != (d, n):
                raise ValueError(f'model requests mvn {pd_} x {pn}, real call was {d} x {n}')
            if [lab for lab, _ in pcols] != [enc_label(c) for c in out.columns]:
                raise ValueError('labels: model %s real %s' % ([lab for lab, _ in pcols], [enc_label(c) for c in out.columns]))
            for j, (lab, cells) in enumerate(pcols):
                want = interpret_column(cells, unis, draws)
                got = out.iloc[:, j].to_numpy()
                ctx.count('plan-column:' + ('const' if cells and cells[0].startswith('C') else 'map'))
                if not bits_equal(want, got):
                    raise ValueError('column %d (%r): %s; plan %s' % (j, dec_label(lab), first_diff(want, got), cells[:1]))
        except Exception as e:  # noqa
            note('corr:sample-plan', {'diff': str(e)[:380], 'case': brief(case, n=n)})
            pcols = None
        # the plan of the GENERATED `sample(n)` (Gen.GaussCond.sample with conditions = None) against the real output
        greply = lean.ask(table_request('gensample', case, n))
        ctx.count('tv:gensample')
        try:
            gd_, gn, gcols = parse_plan(greply)
            if (gd_, gn) != (d, n):
                raise ValueError(f'generated code requests mvn {gd_} x {gn}, real call was {d} x {n}')
            if [lab for lab, _ in gcols] != [enc_label(c) for c in out.columns]:
                raise ValueError('labels: generated %s real %s' % ([lab for lab, _ in gcols], [enc_label(c) for c in out.columns]))
            if pcols is not None and gcols == pcols:
                # term for term the plan just interpreted with the real objects and found bit-equal to the real output
                ctx.count('tv:gensample-plan-identical-to-verified-model-plan')
            else:
                for j, (lab, cells) in enumerate(gcols):
                    want = interpret_column(cells, unis, draws)
                    got = out.iloc[:, j].to_numpy()
                    if not bits_equal(want, got):
                        raise ValueError('column %d (%r): %s; plan %s' % (j, dec_label(lab), first_diff(want, got), cells[:1]))
                ctx.count('tv:gensample-plan-interpreted')
        except Exception as e:  # noqa
            note('tv:GaussCond', {'diff': str(e)[:380], 'case': brief(case, n=n)})
        if pcols is None:
            continue
        # norm.cdf on the recorded draws: strictly increasing, inside (0,1)
        zs = np.sort(draws.ravel())
        ph = st.norm.cdf(zs)
        if not (np.all(ph > 0) and np.all(ph < 1) and np.all(np.diff(ph)[np.diff(zs) > 1e-9] > 0)):
            note('assume:norm-cdf', {'z': zs[:5].tolist()})
        # the theorem sample_rank_dependence executed at Float: counts of output pair == counts of draw pair
        if len(nonconst) >= 2 and 2 <= n <= 120:
            j, k = nonconst[0], nonconst[-1]
            oj, ok_ = out.iloc[:, j].to_numpy(), out.iloc[:, k].to_numpy()
            # a numerically inverted marginal (GaussianKDE) is strictly increasing only up to the root finder's stopping
            # tolerance; the hypothesis `StrictMono (ppf o Phi)` is checked on the actual cells before it is used
            mono = all(np.all(np.diff(o_[np.argsort(draws[:, c_], kind='stable')]) > 0) for o_, c_ in ((oj, j), (ok_, k)))
            if not mono and (kde_backed(unis[j]) or kde_backed(unis[k])):
                ctx.count('kendall-sample-skipped-kde-not-strictly-monotone')
            elif len(np.unique(oj)) == len(np.unique(draws[:, j])) and len(np.unique(ok_)) == len(np.unique(draws[:, k])):
                r1 = lean.ask('gs kendall %d ' % n + ' '.join(vc.f2h(a) + ' ' + vc.f2h(b) for a, b in zip(oj, ok_)))
                r2 = lean.ask('gs kendall %d ' % n + ' '.join(vc.f2h(a) + ' ' + vc.f2h(b) for a, b in zip(draws[:, j], draws[:, k])))
                ctx.count('kendall-sample-pairs')
                if r1 != r2 or not r1.startswith('ok'):
                    note('corr:kendall-sample', {'columns': [j, k], 'output': r1, 'draws': r2, 'case': brief(case, n=n)})
            else:
                ctx.count('kendall-sample-skipped-float-ties')
        if len(ctx.samples) < 4 and len(nonconst) >= 2:
            ctx.sample({'labels': [repr(x) for x in case['labels']], 'kinds': case['kinds'], 'config': case['config'],
                        'seed': case['seed'], 'n': n, 'plan_head': reply[:160]})


def requested_classes(case):
    spec = case['config']
    if spec[0] == 'default':
        return ['Univariate'] * len(case['labels'])
    if spec[0] == 'dict':
        d_ = {k: v for k, v in dict_items(spec)}
        return [d_.get(enc_label(lab), [None, 'Univariate'])[1] for lab in case['labels']]
    return [spec[1]] * len(case['labels'])


def first_diff(a, b):
    a, b = np.asarray(a, dtype=float).ravel(), np.asarray(b, dtype=float).ravel()
    if a.shape != b.shape:
        return f'shapes {a.shape} vs {b.shape}'
    for i in range(len(a)):
        if vc.f2h(a[i]) != vc.f2h(b[i]):
            return f'row {i}: model/replay {a[i]!r} ({vc.f2h(a[i])}) real {b[i]!r} ({vc.f2h(b[i])})'
    return 'equal'


def validate_assumptions(ctx, case, unis, status, note):
    """IsQuantileOf on the real fitted objects: percent_point non-decreasing on a grid and, for the fitted marginals
    that are continuous laws at binary64 resolution ('regular'), cdf(percent_point(q)) = q."""
    q = _QGRID
    for j, stt in enumerate(status):
        if stt == 'const':
            continue
        u = unis[j]
        try:
            p = np.asarray(u.percent_point(q), dtype=float)
            fin = np.isfinite(p)
            mono = bool(np.all(np.diff(p[fin]) >= 0))
            if stt == 'degenerate':
                ctx.count('quantile-pair:degenerate-fit-monotone-only')
                if not mono:
                    note('assume:quantile-pair', {'column': j, 'univariate': type(u).__name__,
                                                  'what': 'percent_point decreases', 'case': brief(case)})
                continue
            lo, hi = ulp_nbhd(p)
            clo, chi = np.asarray(u.cdf(lo), dtype=float), np.asarray(u.cdf(hi), dtype=float)
        except Exception as e:  # noqa
            note('assume:quantile-pair', {'column': j, 'raised': repr(e)[:200], 'case': brief(case)})
            continue
        ctx.count('quantile-pair-validated')
        # Q(q) <= x <-> q <= F(x), read at binary64 resolution: F(Q(q) - 4ulp) <= q <= F(Q(q) + 4ulp), up to 1e-6
        viol = np.maximum(clo - q, q - chi)
        tol = numeric_slack(case['cols'][j])[0]
        ok = bool(mono and np.all(np.isfinite(clo)) and np.all(np.isfinite(chi)) and np.max(viol) <= tol)
        if not ok:
            i = int(np.argmax(viol)) if np.all(np.isfinite(viol)) else 0
            note('assume:quantile-pair', {'column': j, 'univariate': type(u).__name__, 'q': float(q[i]),
                                          'ppf': float(p[i]), 'cdf_below': float(clo[i]), 'cdf_above': float(chi[i]),
                                          'monotone': mono, 'case': brief(case)})


def kendall_counter(ctx, lean, note):
    """the executable Kendall counter of the model vs a brute-force count and scipy.stats.kendalltau."""
    rng = ctx.rng('kendall')
    for t in range(20 * ctx.scale):
        n = rng.choice([2, 3, 5, 8, 13, 30, 60])
        mode = rng.choice(['ties', 'ties', 'cont', 'allx', 'mono'])
        if mode == 'cont':
            xs = [rng.gauss(0, 1) for _ in range(n)]
            ys = [0.6 * x + rng.gauss(0, 1) for x in xs]
        elif mode == 'allx':
            xs = [1.5] * n
            ys = [float(rng.randint(0, 3)) for _ in range(n)]
        elif mode == 'mono':
            xs = [float(i) for i in range(n)]
            ys = [math.exp(x / 7.0) for x in xs]
        else:
            xs = [float(rng.randint(0, 4)) for _ in range(n)]
            ys = [float(rng.randint(-2, 2)) for _ in range(n)]
        r = lean.ask('gs kendall %d ' % n + ' '.join(vc.f2h(a) + ' ' + vc.f2h(b) for a, b in zip(xs, ys)))
        ws = r.split()
        want = brute_counts(xs, ys)
        ctx.case(('kendall', mode, n, tuple(xs), tuple(ys)), nontrivial=(mode != 'allx'))
        ctx.count('kendall-counter:' + mode)
        ok = ws[:1] == ['ok'] and len(ws) == 7 and [int(w) for w in ws[1:6]] == want
        if ok:
            tau = st.kendalltau(xs, ys).statistic
            if ws[6] == 'nan':
                ok = tau != tau
            else:
                ok = tau == tau and abs(vc.h2f(ws[6]) - tau) <= 1e-12
        if not ok:
            note('corr:kendall-counter', {'x': xs, 'y': ys, 'model': r, 'brute': want,
                                          'scipy': float(st.kendalltau(xs, ys).statistic)})


# --------------------------------------------------------------------------------------------- failing-input search
def search(ctx, deep):
    rng = ctx.rng('search')
    nr = ctx.nprng('search')
    quick = ctx.tier == 'quick'
    ntab = (10 if quick else 30) if deep else 4
    stats = {'tables': 0, 'schema_checks': 0, 'ks_tests': 0, 'kendall_exact': 0, 'kendall_value': 0,
             'rank_preservation': 0, 'recovery_experiments': 0, 'failures': 0, 'deep': deep, 'max_ks': 0.0,
             'max_tau_dev': 0.0, 'n_big': N_BIG, 'dkw_eps': dkw_eps(N_BIG), 'tau_eps': hoeffding_tau_eps(N_BIG)}
    for t in range(ntab):
        case = make_case(rng, nr, quick=True, allow_kde=(t % 3 == 0 if deep else t == 0))
        oracle_case(ctx, case, stats, schema_ns=[1, rng.randint(2, 200)], big=True,
                    hunt=(3000 if deep else (1500 if t < 2 else -1)), light=not deep)
    # awkward scales (non-constant columns that are "close" to constant) and dependence next to a constant column
    rng2 = ctx.rng('search', 'stress')
    nr2 = ctx.nprng('search', 'stress')
    for t in range((4 if quick else 10) if deep else 1):
        case = scale_stress_case(rng2, nr2, deep)
        stats['scale_stress_tables'] = stats.get('scale_stress_tables', 0) + 1
        oracle_case(ctx, case, stats, schema_ns=[rng2.randint(2, 200)], big=True, light=not deep)
    for t in range((3 if quick else 8) if deep else 1):
        dependence_oracle(ctx, dependence_case(rng2, nr2), stats)
    # GaussianKDE-modelled columns at extreme magnitudes / scales: independent inversion of the fitted cdf
    rng4 = ctx.rng('search', 'kde-scales')
    nr4 = ctx.nprng('search', 'kde-scales')
    for t in range((4 if quick else 10) if deep else 1):
        stats['kde_scale_tables'] = stats.get('kde_scale_tables', 0) + 1
        oracle_case(ctx, kde_scale_case(rng4, nr4), stats, schema_ns=[rng4.randint(100, 400)], big=deep, light=True)
    # input FORM (row index), object STATE (from_dict / save-load / clone / refit) and HISTORY (fit A, sample, fit B)
    rng8 = ctx.rng('search', 'equivalence')
    nr8 = ctx.nprng('search', 'equivalence')
    for t in range((6 if quick else 16) if deep else 2):
        case = equivalence_case(rng8, nr8, allow_default=deep)
        if not deep and t == 0 and isinstance(case['labels'][0], str):
            case['labels'] = list(range(7, 7 + len(case['labels'])))      # every quick run has a non-string-label table
            if case['config'][0] == 'dict':
                case['config'] = ['class', 'GaussianUnivariate']
        k_ = len(case['labels'])
        same = equivalence_case(rng8, nr8, k=k_, allow_default=False)
        diff_ = equivalence_case(rng8, nr8, k=k_ + 1, allow_default=False)
        for o in (same, diff_):
            o['ndarray'] = False
        forms = None if deep else ['offset-n'] + rng8.sample(list(ROW_INDEX_FORMS[1:3]) + list(ROW_INDEX_FORMS[4:]), 2)
        equivalence_oracle(ctx, case, same, diff_ if deep else None, stats, forms=forms)
    # selector instances with selection_sample_size on ROW-ORDERED tables (and shuffled controls in deep mode)
    rng7 = ctx.rng('search', 'selection')
    nr7 = ctx.nprng('search', 'selection')
    for t in range((2 if quick else 4) if deep else 1):
        selection_oracle(ctx, selection_case(rng7, nr7, ordered=(t % 2 == 0)), stats)
    # several columns on the Gaussian FALL-BACK path next to normally fitted ones; the empty per-column dict
    rng9 = ctx.rng('search', 'fallback')
    nr9 = ctx.nprng('search', 'fallback')
    for t in range((4 if quick else 10) if deep else 1):
        stats['fallback_tables'] = stats.get('fallback_tables', 0) + 1
        oracle_case(ctx, fallback_case(rng9, nr9), stats, schema_ns=[rng9.randint(2, 200)], big=True, light=True)
        for shape in (['empty'] if not deep else ['empty', 'unknown-key-only', 'one-named']):
            ec = empty_dict_case(rng9, nr9, shape if deep else rng9.choice(['empty', 'empty', 'unknown-key-only', 'one-named']))
            oracle_case(ctx, ec, stats, schema_ns=[rng9.randint(2, 60)], big=False)
            unnamed_columns_oracle(ctx, ec, stats)
    # selector instance on a non-default row index; weakly dependent Gaussian columns
    rng10 = ctx.rng('search', 'selector-index')
    nr10 = ctx.nprng('search', 'selector-index')
    for t in range((3 if quick else 8) if deep else 1):
        oracle_case(ctx, selector_index_case(rng10, nr10), stats, schema_ns=[rng10.randint(2, 60)], big=False)
        oracle_case(ctx, weak_dependence_case(rng10, nr10), stats, schema_ns=[rng10.randint(2, 200)], big=False)
    # instances with options (weighted KDE, bw_method, sample_size, TruncatedGaussian bounds)
    rng6 = ctx.rng('search', 'kde-options')
    nr6 = ctx.nprng('search', 'kde-options')
    for t in range((4 if quick else 10) if deep else 1):
        stats['kde_option_tables'] = stats.get('kde_option_tables', 0) + 1
        oracle_case(ctx, kde_options_case(rng6, nr6), stats, schema_ns=[rng6.randint(150, 400)], big=deep, light=True)
    # constant columns of every flavour (int64 beyond 2**53, small ints, -0.0, denormal, 1e300): exact reproduction
    rng5 = ctx.rng('search', 'constants')
    nr5 = ctx.nprng('search', 'constants')
    for t in range((4 if quick else 10) if deep else 1):
        stats['constant_zoo_tables'] = stats.get('constant_zoo_tables', 0) + 1
        oracle_case(ctx, constant_zoo_case(rng5, nr5), stats, schema_ns=[1, rng5.randint(2, 50)], big=False)
    # per-column dicts whose key order / coverage differs from the table's column order: schema only (cheap)
    rng3 = ctx.rng('search', 'dict-shapes')
    nr3 = ctx.nprng('search', 'dict-shapes')
    for rep in range(3 if deep else 1):
        for case in dict_shape_cases(rng3, nr3):
            stats['dict_shape_cases'] = stats.get('dict_shape_cases', 0) + 1
            oracle_case(ctx, case, stats, schema_ns=[1, rng3.randint(2, 60)], big=False)
    if deep:
        for t in range(3 if quick else 8):
            recovery_experiment(ctx, rng, nr, stats, use_default=(t == 0))
    stats['failures'] = len(ctx.failing)
    ctx.support = stats


def normal_score_corr(case, unis, j, k):
    """Pearson correlation of the normal scores norm.ppf(clip(cdf_j(x_j))) of two training columns, computed here
    from the REAL fitted univariates (what `model.correlation[j, k]` has to be, property C02)."""
    eps32 = float(np.finfo(np.float32).eps)
    zs = []
    for i in (j, k):
        u = np.asarray(unis[i].cdf(np.asarray(case['cols'][i], dtype=float)), dtype=float).clip(eps32, 1 - eps32)
        zs.append(st.norm.ppf(u))
    if np.std(zs[0]) == 0 or np.std(zs[1]) == 0:
        return None
    return float(np.corrcoef(zs[0], zs[1])[0, 1])


def correlation_entry_problems(case, model, unis, regular):
    """`model.correlation` entries of the non-degenerate columns vs the normal-score correlation of the training
    data (tolerance 1e-6; the singularity ridge only touches the diagonal)."""
    out = []
    C = model.correlation.to_numpy()
    for a in range(len(regular)):
        for b in range(a + 1, len(regular)):
            j, k = regular[a], regular[b]
            want = normal_score_corr(case, unis, j, k)
            if want is None or not np.isfinite(want):
                continue
            if not abs(C[j, k] - want) <= 1e-6 or not abs(C[k, j] - want) <= 1e-6:
                out.append(([j, k], {'model_correlation': float(C[j, k]), 'normal_score_correlation': want}))
    return out


def dict_shape_cases(rng, nr):
    """one small table per dict shape whose keys are NOT a leading run of the table's columns in table order
    (+ a numpy training table with an int-keyed dict): the order of `sample(n).columns` must be the TABLE's."""
    out = []
    for shape in ('full-reversed', 'full-shuffled', 'last-only', 'inner-only', 'subset-shuffled', 'unknown-key-first',
                  'ndarray-int-keys'):
        k = rng.choice([3, 4, 5])
        n = rng.choice([40, 60, 90])
        R, L = random_correlation(rng, nr, k)
        Z = nr.randn(n, k) @ L.T
        kinds = [rng.choice(['gaussian', 'uniform', 'gamma']) for _ in range(k)]
        if rng.random() < 0.5:
            kinds[rng.randrange(k)] = 'const'
        cols, descr = [], []
        for j, kd in enumerate(kinds):
            if kd == 'const':
                cols.append(np.full(n, 2.5))
                descr.append('const(2.5)')
                continue
            q, dsc = marginal(rng, kd)
            cols.append(np.asarray(q(Z[:, j]), dtype=float))
            descr.append(dsc)
        nd = shape == 'ndarray-int-keys'
        if nd:
            labels = list(range(k))
        elif rng.random() < 0.3:
            labels = rng.sample(range(0, 40), k)
        else:
            labels = rng.sample(['income', 'age', 'flag', 'ratio', 'z', 'b', 'A', 'w w'], k)
        items = [[enc_label(lab), [rng.choice(['class', 'str', 'inst']), KIND2CLASS[kd]]] for lab, kd in zip(labels, kinds)]
        spec = ['dict', shape_dict(rng, items, 'subset-shuffled' if nd else shape)]
        out.append({'labels': labels, 'cols': [c.tolist() for c in cols], 'kinds': kinds, 'descr': descr,
                    'config': spec, 'seed': ['int', rng.randrange(2 ** 31)], 'ndarray': nd})
    return out


def kde_scale_case(rng, nr):
    """a table whose GaussianKDE-modelled columns live at extreme magnitudes / scales (farad ~2e-11, ~1e-6, ~1e6, a
    1e9 offset with a small spread), next to an ordinary column; KDE requested per column or for the whole table."""
    n = rng.choice([60, 150, 300])
    kinds = list(XSCALE)
    rng.shuffle(kinds)
    kinds = ['kde_farad'] + [k_ for k_ in kinds if k_ != 'kde_farad'][:rng.choice([1, 2])] + ['gaussian']
    rng.shuffle(kinds)
    R, L = random_correlation(rng, nr, len(kinds))
    Z = nr.randn(n, len(kinds)) @ L.T
    cols, descr = [], []
    for j, kd in enumerate(kinds):
        q, dsc = marginal(rng, kd)
        cols.append(np.asarray(q(Z[:, j]), dtype=float))
        descr.append(dsc)
    labels = rng.sample(['capacitance', 'current', 'count', 'offset', 'score', 'x', 5, 11, 2, 30], len(kinds))
    if not all(isinstance(x, int) for x in labels):
        labels = [str(x) for x in labels]
    form = rng.choice(['class', 'str', 'inst', 'dict', 'dict'])
    if form == 'dict':
        spec = ['dict', shape_dict(rng, [[enc_label(lab), [rng.choice(['class', 'str', 'inst']), KIND2CLASS[kd]]]
                                         for lab, kd in zip(labels, kinds)],
                                   rng.choice(['full-in-order', 'full-reversed', 'full-shuffled']))]
    else:
        spec = [form, 'GaussianKDE']
    return {'labels': labels, 'cols': [c.tolist() for c in cols], 'kinds': kinds, 'descr': descr, 'config': spec,
            'seed': ['int', rng.randrange(2 ** 31)], 'ndarray': False}


SEL_N, SEL_K = 4000, 2800
SEL_CANDS = ['GaussianUnivariate', 'UniformUnivariate', 'TruncatedGaussian', 'BetaUnivariate', 'GaussianKDE']


def selection_case(rng, nr, ordered=True):
    """a two-mode column (75% in a flat mode, 25% in a far Gaussian mode) modelled by the selector instance
    `Univariate(candidates=[Gaussian, Uniform, TruncatedGaussian, Beta, KDE], selection_sample_size=2800)` in a table of
    4000 rows that are ORDERED by that column (ascending with the heavy mode low / descending with it high) or left as
    drawn.  On a random 2800-subsample only the KDE gets close (KS ~0.10 against >= 0.23 for every parametric
    candidate), so the selection must not depend on the row order."""
    n = SEL_N
    heavy = nr.rand(n) < 0.75
    flat = nr.rand(n) * 2.0 - 5.0
    far = nr.randn(n) * 0.5 + 4.0
    x = np.where(heavy, flat, far)
    how = rng.choice(['sorted-asc', 'sorted-desc']) if ordered else 'as-drawn'
    if how == 'sorted-desc':
        x = -x
    scale = rng.choice([1.0, 10.0, 0.1])
    x = x * scale + rng.choice([0.0, 100.0]) * scale
    y = 0.6 * (x - x.mean()) / x.std() + 0.8 * nr.randn(n)
    if how == 'sorted-asc':
        perm = np.argsort(x, kind='stable')
    elif how == 'sorted-desc':
        perm = np.argsort(-x, kind='stable')
    else:
        perm = np.arange(n)
    x, y = x[perm], y[perm]
    labels = rng.sample(['amount', 'score', 'b', 'x', 'k9'], 2)
    first = rng.random() < 0.5
    cols = [x, y] if first else [y, x]
    kinds = ['two-mode', 'gaussian'] if first else ['gaussian', 'two-mode']
    sel_leaf = ['inst', 'Univariate', {'selection_sample_size': SEL_K, 'candidates': list(SEL_CANDS)}]
    leaves = [sel_leaf, ['class', 'GaussianUnivariate']] if first else [['class', 'GaussianUnivariate'], sel_leaf]
    spec = ['dict', [[enc_label(lab), lf] for lab, lf in zip(labels, leaves)]]
    return {'labels': labels, 'cols': [c.tolist() for c in cols], 'kinds': kinds, 'descr': ['', ''], 'config': spec,
            'seed': ['int', rng.randrange(2 ** 31)], 'ndarray': False, 'dtypes': ['float', 'float'], 'row_order': how}


def selection_oracle(ctx, case, stats):
    """the family selected on the subsample must be (nearly) the best one for the FULL column, whatever the row order:
        KS_full(selected) <= min over candidates KS_full + 2 * DKW(k, 1e-9)      (subsample noise at k)
        KS_full(selected) <= DKW(n_train) + 0.1                                   (the marginal-recovery band)
    Deterministic given the table and the seed; with the candidates of `selection_case` a false alarm needs a
    parametric family to beat the KDE by > 0.13 in KS on a random 2800-subsample (probability < 1e-9)."""
    from copulas.utils import get_instance
    ep = 'GaussianMultivariate.fit'
    cls = ep + ':selected-family-misses-row-ordered-column'
    stats['selection_experiments'] = stats.get('selection_experiments', 0) + 1
    inp = case_input(case, experiment='selection')
    try:
        model, X = fit_model(case)
    except Exception as e:  # noqa
        ctx.fail_input(ep, inp, 'raised ' + repr(e)[:300], 'fit succeeds', ep + ':raises')
        return
    if not columns_in_table_order(ctx, case, model):
        return
    for j in range(len(case['labels'])):
        opts = leaf_opts(case, j)
        k = opts.get('selection_sample_size')
        if not k:
            continue
        uni = model.univariates[j]
        tr = np.asarray(case['cols'][j], dtype=float)
        selected = type(getattr(uni, '_instance', None)).__name__
        ks_sel = ks_distance(tr, uni.cdf)
        ks_all = {}
        for cname in opts.get('candidates') or []:
            try:
                inst = get_instance(_cls(cname))
                inst.fit(tr)
                ks_all[cname] = ks_distance(tr, inst.cdf)
            except Exception:  # noqa
                ks_all[cname] = None
        finite = [v for v in ks_all.values() if v is not None and v == v]
        best = min(finite) if finite else ks_sel
        margin = 2.0 * dkw_eps(min(k, len(tr)), 1e-9)
        band = dkw_eps(len(tr)) + 0.1
        stats['max_selection_excess'] = max(stats.get('max_selection_excess', 0.0), ks_sel - best)
        if not (ks_sel <= best + margin and ks_sel <= band):
            ctx.fail_input(ep, dict(inp, column=j),
                           {'selected': selected, 'ks_full_selected': ks_sel, 'ks_full_by_candidate': ks_all,
                            'best': best, 'margin': margin, 'recovery_band': band, 'row_order': case.get('row_order')},
                           'KS_full(selected family) <= min_candidates KS_full + 2 DKW(k) and <= DKW(n) + 0.1, for every '
                           'row order of the training table', cls)


def config_or_default(spec):
    cfg = build_config(spec)
    if cfg is None:
        from copulas.univariate import Univariate
        return Univariate
    return cfg


def seeded_sample(model, S, n):
    """model.set_random_state(S); model.sample(n) — with the global stream saved and restored."""
    state = np.random.get_state()
    try:
        model.set_random_state(S)
        return model.sample(n)
    finally:
        np.random.set_state(state)


def label_list_equal(a, b):
    """same labels, same TYPE (int vs str vs tuple), same order."""
    a, b = list(a), list(b)
    if len(a) != len(b):
        return False
    for x, y in zip(a, b):
        xi, yi = isinstance(x, (int, np.integer)), isinstance(y, (int, np.integer))
        if xi != yi or (not xi and type(x) is not type(y)) or x != y:
            return False
    return True


def frames_bit_equal(a, b):
    if not (isinstance(a, pd.DataFrame) and isinstance(b, pd.DataFrame)) or a.shape != b.shape:
        return 'shape/type %s vs %s' % (getattr(a, 'shape', type(a)), getattr(b, 'shape', type(b)))
    if not label_list_equal(a.columns, b.columns):
        return 'columns %r vs %r' % (list(a.columns), list(b.columns))
    for j in range(a.shape[1]):
        x, y = a.iloc[:, j], b.iloc[:, j]
        if x.dtype.kind in 'iu' or y.dtype.kind in 'iu':
            if x.tolist() != y.tolist():
                return 'column %r: %r vs %r' % (a.columns[j], x.tolist()[:2], y.tolist()[:2])
        elif not bits_equal(x.to_numpy(), y.to_numpy()):
            return 'column %r: %s' % (a.columns[j], first_diff(x.to_numpy(), y.to_numpy()))
    return None


_PGRID = np.linspace(0.01, 0.99, 25)


def models_differ(ref, m):
    """fitted state compared: labels (type, order), correlation bits, each univariate's percent_point on a grid."""
    if not label_list_equal(ref.columns, m.columns):
        return 'columns %r vs %r' % (list(ref.columns), list(m.columns))
    if not label_list_equal(ref.correlation.columns, m.correlation.columns) or \
            not label_list_equal(ref.correlation.index, m.correlation.index):
        return 'correlation labels %r vs %r' % (list(ref.correlation.columns), list(m.correlation.columns))
    if not bits_equal(ref.correlation.to_numpy(), m.correlation.to_numpy()):
        return 'correlation: ' + first_diff(ref.correlation.to_numpy(), m.correlation.to_numpy())
    for j, (u, v) in enumerate(zip(ref.univariates, m.univariates)):
        a = np.asarray(u.percent_point(_PGRID))
        b = np.asarray(v.percent_point(_PGRID))
        if a.dtype.kind in 'iu' or b.dtype.kind in 'iu':
            if a.tolist() != b.tolist():
                return 'univariate %d: %r vs %r' % (j, a.tolist()[:2], b.tolist()[:2])
        elif not bits_equal(a, b):
            return 'univariate %d percent_point: %s' % (j, first_diff(a, b))
    return None


def has_lossy_kde_options(case):
    """GaussianKDE(weights / bw_method) are constructor options that to_dict does not carry (serialisation is another
    property): the bitwise comparison of a from_dict copy is skipped for them, the label / schema comparison is not."""
    return any(('weights' in leaf_opts(case, j) or 'bw_method' in leaf_opts(case, j)) for j in range(len(case['labels'])))


def equivalence_case(rng, nr, k=None, n=None, allow_default=True):
    """a small table with fast families (incl. a constant column now and then), int or str or numpy-array labels."""
    k = k or rng.choice([2, 3, 4])
    n = n or rng.choice([40, 70, 120])
    R, L = random_correlation(rng, nr, k)
    Z = nr.randn(n, k) @ L.T
    kinds = [rng.choice(['gaussian', 'gamma', 'uniform', 'kde', 'truncated']) for _ in range(k)]
    if k > 2 and rng.random() < 0.4:
        kinds[rng.randrange(k)] = 'const'
    cols, descr, dtypes = [], [], []
    for j, kd in enumerate(kinds):
        if kd == 'const':
            if rng.random() < 0.5:
                cols.append([rng.choice([3, -7, 2 ** 53 + 1])] * n)
                dtypes.append('int64')
            else:
                cols.append([rng.choice([2.5, -0.0, 0.1])] * n)
                dtypes.append('float')
            descr.append('const')
            continue
        q, dsc = marginal(rng, kd)
        cols.append(np.asarray(q(Z[:, j]), dtype=float).tolist())
        descr.append(dsc)
        dtypes.append('float')
    lab_form = rng.choice(['str', 'int', 'ndarray', 'int'])
    nd = lab_form == 'ndarray' and all(t == 'float' for t in dtypes)
    if nd:
        labels = list(range(k))
    elif lab_form == 'str':
        labels = rng.sample(['a', 'b', 'c3', 'w w', '0', 'z'], k)
    else:
        labels = rng.sample(range(0, 30), k)
    form = rng.choice(['class', 'str', 'inst', 'dict', 'dict'] + (['default'] if allow_default else []))
    if form == 'default':
        spec = ['default']
    elif form == 'dict':
        items = []
        for lab, kd, col in zip(labels, kinds, cols):
            name = KIND2CLASS[kd] if kd != 'truncated' else rng.choice(['TruncatedGaussian', 'GaussianUnivariate'])
            f_ = rng.choice(['class', 'str', 'inst'])
            opts = gen_inst_opts(rng, name, col) if (f_ == 'inst' and kd != 'const' and rng.random() < 0.5) else {}
            items.append([enc_label(lab), [f_, name, opts] if opts else [f_, name]])
        spec = ['dict', shape_dict(rng, items, rng.choice(['full-in-order', 'full-shuffled', 'subset-shuffled']))]
    else:
        spec = [form, rng.choice(['GaussianUnivariate', 'GammaUnivariate', 'GaussianKDE', 'UniformUnivariate'])]
    return {'labels': labels, 'cols': cols, 'kinds': kinds, 'descr': descr, 'config': spec,
            'seed': ['int', rng.randrange(2 ** 31)], 'ndarray': nd, 'dtypes': dtypes, 'row_order': 'as-drawn',
            'row_index': 'default'}


def equivalence_oracle(ctx, case, other_same, other_diff, stats, n=37, forms=None):
    """C01 must not depend on the FORM of the input, the STATE of the object or its HISTORY.  Reference = a fresh model
    fitted on the table under a default row index, sampled with `set_random_state(S); sample(n)`.  Bitwise equal to it:
      * the same table under every other row index (shuffled labels, offsets, strings, DatetimeIndex, MultiIndex,
        duplicated labels): fitted state and sample;
      * the model restored through to_dict -> from_dict (class route and Multivariate.from_dict), through save/load,
        a get_instance clone fitted on the table, a model fitted twice: labels (same TYPE and order) and sample;
      * a model with a history: fit(other table) -> sample -> fit(this table) -> sample."""
    import tempfile
    from copulas.multivariate import GaussianMultivariate
    from copulas.multivariate.base import Multivariate
    from copulas.utils import get_instance
    S = case['seed'][1]
    stats['equivalence_cases'] = stats.get('equivalence_cases', 0) + 1

    def report(cls_, entry, what, diff, **extra):
        ctx.fail_input(entry, case_input(case, n=n, experiment='equivalence', variant=what, **extra),
                       {'variant': what, 'difference_from_fresh_default_index_model': str(diff)[:400]},
                       'fitted state and sample(n) under the same seed are identical to those of a fresh model fitted on '
                       'the same values under a default row index', cls_)

    def refit(model, c):
        """model.fit(table of case c) with the global stream seeded like fit_model does."""
        X = pd.DataFrame({lab: np.array(col, dtype=(np.int64 if dt == 'int64' else float))
                          for lab, col, dt in zip(c['labels'], c['cols'], col_dtypes(c))}, columns=list(c['labels']))
        state = np.random.get_state()
        try:
            np.random.seed(c['seed'][1] % (2 ** 32))
            model.fit(X.to_numpy() if c.get('ndarray') else X)
        finally:
            np.random.set_state(state)

    try:
        ref, X = fit_model(case, row_index='default')
        ref_out = seeded_sample(ref, S, n)
    except Exception as e:  # noqa
        ctx.fail_input('GaussianMultivariate.fit', case_input(case, n=n), 'raised ' + repr(e)[:300], 'fit + sample succeed',
                       'GaussianMultivariate.fit:raises')
        return
    if not label_list_equal(ref_out.columns, case['labels']):
        report('GaussianMultivariate.sample:schema-labels', 'GaussianMultivariate.sample', 'fresh',
               'columns %r vs training %r' % (list(ref_out.columns), case['labels']))
        return
    # --- FORM: row index of the training frame
    if not case.get('ndarray'):
        for form in (forms or ROW_INDEX_FORMS[1:]):
            stats['row_index_variants'] = stats.get('row_index_variants', 0) + 1
            try:
                m, _ = fit_model(case, row_index=form)
                diff = models_differ(ref, m) or frames_bit_equal(ref_out, seeded_sample(m, S, n))
            except Exception as e:  # noqa
                diff = 'raised ' + repr(e)[:300]
            if diff:
                report('GaussianMultivariate.fit:depends-on-row-index', 'GaussianMultivariate.fit', 'row-index:' + form, diff)
    # --- STATE: restored / cloned / re-fitted objects
    states = {}
    try:
        states['from_dict-class'] = lambda: GaussianMultivariate.from_dict(ref.to_dict())
        states['from_dict-factory'] = lambda: Multivariate.from_dict(ref.to_dict())

        def pickled():
            with tempfile.TemporaryDirectory() as dd:
                path = dd + '/model.pkl'
                ref.save(path)
                return GaussianMultivariate.load(path)
        states['save-load'] = pickled

        def clone():
            m = get_instance(ref)
            refit(m, case)
            return m
        states['get_instance-clone'] = clone

        def twice():
            m = get_instance(ref)
            refit(m, case)
            refit(m, case)
            return m
        states['fitted-twice'] = twice
    except Exception:  # noqa
        pass
    lossy = has_lossy_kde_options(case)
    for name, make in states.items():
        stats['state_variants'] = stats.get('state_variants', 0) + 1
        try:
            m = make()
            out = seeded_sample(m, S, n)
        except Exception as e:  # noqa
            scalar_bw = any(isinstance(leaf_opts(case, j).get('bw_method'), (int, float))
                            for j in range(len(case['labels'])))
            if name == 'save-load' and scalar_bw and 'gaussian_kde.set_bandwidth.<locals>.<lambda>' in repr(e):
                # the route is UNAVAILABLE, not a C01 matter (recorded under C14): scipy keeps a local lambda as
                # covariance_factor for a scalar bw_method, so such a model cannot be pickled
                ctx.count('state:pickle-unavailable:scalar-bw-kde')
                stats['pickle_unavailable_scalar_bw_kde'] = stats.get('pickle_unavailable_scalar_bw_kde', 0) + 1
            else:
                report('GaussianMultivariate.sample:restored-model-raises', 'GaussianMultivariate.sample', 'state:' + name,
                       'raised ' + repr(e)[:300])
            continue
        if not (label_list_equal(m.columns, case['labels']) and label_list_equal(out.columns, case['labels'])
                and label_list_equal(m.correlation.columns, case['labels'])):
            report('GaussianMultivariate.sample:restored-model-labels', 'GaussianMultivariate.sample', 'state:' + name,
                   'model.columns %r, sample columns %r, training labels %r' % (list(m.columns), list(out.columns),
                                                                                case['labels']))
            continue
        if name.startswith('from_dict') and lossy:
            continue
        diff = frames_bit_equal(ref_out, out)
        if diff:
            report('GaussianMultivariate.sample:restored-model-differs', 'GaussianMultivariate.sample', 'state:' + name, diff)
    # --- HISTORY: fit(other) -> sample -> fit(this) -> sample
    for tag, other in (('same-width', other_same), ('other-width', other_diff)):
        if other is None:
            continue
        stats['history_variants'] = stats.get('history_variants', 0) + 1
        try:
            m = get_instance(ref)
            m.distribution = config_or_default(other['config'])
            refit(m, other)
            seeded_sample(m, S, 5)
            m.distribution = config_or_default(case['config'])
            refit(m, case)
            diff = models_differ(ref, m) or frames_bit_equal(ref_out, seeded_sample(m, S, n))
        except Exception as e:  # noqa
            diff = 'raised ' + repr(e)[:300]
        if diff:
            report('GaussianMultivariate.sample:depends-on-fit-history', 'GaussianMultivariate.sample',
                   'history:fit(other %s)->sample->fit->sample' % tag, diff,
                   other={'labels': [enc_label(x) for x in other['labels']],
                          'cols_hex': [[str(int(v)) for v in c] if dt == 'int64' else [vc.f2h(v) for v in c]
                                       for c, dt in zip(other['cols'], col_dtypes(other))],
                          'dtypes': col_dtypes(other), 'config': other['config'], 'seed': other['seed'],
                          'ndarray': bool(other.get('ndarray')), 'kinds': other['kinds']})


def fallback_case(rng, nr):
    """2-3 columns whose requested marginal RAISES in fit (so they take the Gaussian fall-back) mixed with normally
    fitted columns, on visibly different locations / scales.  Two routes: a class refusing non-positive columns for the
    whole table, or a per-column dict with GaussianKDE instances whose weights have the wrong length."""
    n = rng.choice([80, 200, 400])
    k = rng.choice([4, 5])
    R, L = random_correlation(rng, nr, k)
    Z = nr.randn(n, k) @ L.T
    nfall = rng.choice([2, 3])
    fall = set(rng.sample(range(k), nfall))
    route = rng.choice(['class-refuses', 'kde-bad-weights'])
    cols, kinds, descr = [], [], []
    locs = rng.sample([-50.0, -3.0, 0.0, 12.0, 400.0, -1000.0], k)
    for j in range(k):
        sc = rng.choice([0.5, 2.0, 30.0])
        if j in fall:
            x = locs[j] + sc * Z[:, j]
            if route == 'class-refuses' and np.min(x) > 0:
                x = x - np.min(x) - 0.5 * sc                      # make sure the column has non-positive values
            kinds.append('gaussian')
            descr.append(f'norm({locs[j]},{sc}) [falls back]')
        else:
            x = 5.0 * sc + sc * np.exp(0.4 * Z[:, j])              # strictly positive
            kinds.append('gamma')
            descr.append('positive lognormal-ish')
        cols.append(np.asarray(x, dtype=float))
    labels = rng.sample(['price', 'delta', 'weight', 'balance', 'x', 4, 9, 17, 23], k)
    if not all(isinstance(x, int) for x in labels):
        labels = [str(x) for x in labels]
    if route == 'class-refuses':
        spec = [rng.choice(['class', 'str', 'inst']), 'PositiveOnlyGaussian']
    else:
        items = []
        for j, lab in enumerate(labels):
            if j in fall:
                items.append([enc_label(lab), ['inst', 'GaussianKDE', {'weights': [1.0] * 10}]])
            else:
                items.append([enc_label(lab), [rng.choice(['class', 'str', 'inst']), rng.choice(['GaussianUnivariate', 'GammaUnivariate'])]])
        spec = ['dict', shape_dict(rng, items, rng.choice(['full-in-order', 'full-reversed', 'full-shuffled']))]
    return {'labels': labels, 'cols': [c.tolist() for c in cols], 'kinds': kinds, 'descr': descr, 'config': spec,
            'seed': ['int', rng.randrange(2 ** 31)], 'ndarray': False, 'dtypes': ['float'] * k, 'row_order': 'as-drawn',
            'row_index': rng.choice(['default', 'strings'])}


def empty_dict_case(rng, nr, shape=None):
    """a per-column dict that names NO column of the table (empty, or only an unknown key) or only one: every unnamed
    column must get the default selection, exactly as under the default configuration; non-Gaussian columns."""
    n = rng.choice([60, 150])
    k = rng.choice([2, 3])
    R, L = random_correlation(rng, nr, k)
    Z = nr.randn(n, k) @ L.T
    kinds = [rng.choice(['gamma', 'uniform', 'kde']) for _ in range(k)]
    cols, descr = [], []
    for j, kd in enumerate(kinds):
        q, dsc = marginal(rng, kd)
        cols.append(np.asarray(q(Z[:, j]), dtype=float))
        descr.append(dsc)
    labels = rng.sample(['a', 'b', 'c', 'd'], k)
    shape = shape or rng.choice(['empty', 'unknown-key-only', 'one-named'])
    if shape == 'empty':
        spec = ['dict', []]
    elif shape == 'unknown-key-only':
        spec = ['dict', [['s:' + 'nope'.encode().hex(), ['class', 'UniformUnivariate']]]]
    else:
        spec = ['dict', [[enc_label(labels[-1]), [rng.choice(['class', 'str', 'inst']), 'GaussianUnivariate']]]]
    return {'labels': labels, 'cols': [c.tolist() for c in cols], 'kinds': kinds, 'descr': descr, 'config': spec,
            'seed': ['int', rng.randrange(2 ** 31)], 'ndarray': False, 'dtypes': ['float'] * k, 'row_order': 'as-drawn',
            'row_index': 'default'}


def selector_index_case(rng, nr):
    """`Univariate(selection_sample_size=k)` INSTANCE as the distribution (whole table or per column), k < rows, on a
    training frame whose row index is not 0..n-1 (filtered / offset / strings / datetime); non-Gaussian columns."""
    n = rng.choice([60, 120])
    k = rng.choice([2, 3])
    R, L = random_correlation(rng, nr, k)
    Z = nr.randn(n, k) @ L.T
    kinds = [rng.choice(['gamma', 'uniform', 'kde']) for _ in range(k)]
    cols = [np.asarray(marginal(rng, kd)[0](Z[:, j]), dtype=float) for j, kd in enumerate(kinds)]
    labels = rng.sample(['a', 'b', 'c', 'd'], k)
    leaf = ['inst', 'Univariate', {'selection_sample_size': rng.choice([n // 3, n // 2])}]
    spec = leaf if rng.random() < 0.5 else ['dict', [[enc_label(lab), list(leaf)] for lab in labels]]
    return {'labels': labels, 'cols': [c.tolist() for c in cols], 'kinds': kinds, 'descr': [''] * k, 'config': spec,
            'seed': ['int', rng.randrange(2 ** 31)], 'ndarray': False, 'dtypes': ['float'] * k, 'row_order': 'as-drawn',
            'row_index': rng.choice(['filtered', 'offset-n', 'strings', 'datetime'])}


def weak_dependence_case(rng, nr):
    """2-3 Gaussian columns whose IN-SAMPLE correlations are all ~0.035 (built by Gram-Schmidt, so the fitted
    correlation is weak but not zero for sure) and no constant column: the draws must still be N(0, correlation)."""
    n = rng.choice([300, 600])
    k = rng.choice([2, 3])
    Q, _ = np.linalg.qr(nr.randn(n, k) - nr.randn(n, k).mean(axis=0))
    Q = Q - Q.mean(axis=0)
    Q, _ = np.linalg.qr(Q)
    r = 0.035
    C = np.full((k, k), r) + (1 - r) * np.eye(k)
    X = Q @ np.linalg.cholesky(C).T * math.sqrt(n)
    cols = [rng.choice([-3.0, 0.0, 10.0]) + rng.choice([0.5, 2.0]) * X[:, j] for j in range(k)]
    labels = rng.sample(['u', 'v', 'w', 'x'], k)
    return {'labels': labels, 'cols': [np.asarray(c, dtype=float).tolist() for c in cols], 'kinds': ['gaussian'] * k,
            'descr': [''] * k, 'config': [rng.choice(['class', 'str', 'inst']), 'GaussianUnivariate'],
            'seed': ['int', rng.randrange(2 ** 31)], 'ndarray': False, 'dtypes': ['float'] * k, 'row_order': 'as-drawn',
            'row_index': 'default'}


def kde_options_case(rng, nr):
    """ordinary-scale columns configured with INSTANCES carrying options: GaussianKDE(weights=non-uniform),
    GaussianKDE(bw_method=...), GaussianKDE(sample_size=...), TruncatedGaussian(minimum, maximum); the first column
    always gets a weighted KDE (alone for the whole table, or inside a per-column dict)."""
    n = rng.choice([60, 150, 300])
    k = rng.choice([2, 3, 4])
    R, L = random_correlation(rng, nr, k)
    Z = nr.randn(n, k) @ L.T
    kinds = [rng.choice(['kde', 'gaussian', 'gamma', 'truncated']) for _ in range(k)]
    cols, descr = [], []
    for j, kd in enumerate(kinds):
        q, dsc = marginal(rng, kd)
        cols.append(np.asarray(q(Z[:, j]), dtype=float))
        descr.append(dsc)
    labels = rng.sample(['a', 'b', 'c', 'd', 'w w', 7, 3, 12, 40], k)
    if not all(isinstance(x, int) for x in labels):
        labels = [str(x) for x in labels]

    def weighted(col):
        for _ in range(20):
            o = gen_inst_opts(rng, 'GaussianKDE', col)
            if 'weights' in o:
                return o
        return {}
    if rng.random() < 0.35:
        spec = ['inst', 'GaussianKDE', weighted(cols[0])]
    else:
        items = [[enc_label(labels[0]), ['inst', 'GaussianKDE', weighted(cols[0])]]]
        for lab, kd, col in zip(labels[1:], kinds[1:], cols[1:]):
            name = rng.choice(['GaussianKDE', 'GaussianKDE', 'TruncatedGaussian', 'GaussianUnivariate'])
            opts = gen_inst_opts(rng, name, col)
            items.append([enc_label(lab), ['inst', name, opts] if opts else ['inst', name]])
        spec = ['dict', shape_dict(rng, items, rng.choice(['full-in-order', 'full-reversed', 'full-shuffled']))]
    return {'labels': labels, 'cols': [c.tolist() for c in cols], 'kinds': kinds, 'descr': descr, 'config': spec,
            'seed': ['int', rng.randrange(2 ** 31)], 'ndarray': False, 'dtypes': ['float'] * k, 'row_order': 'as-drawn'}


def constant_zoo_case(rng, nr):
    """two ordinary columns among several CONSTANT columns of every flavour: int64 beyond 2**53 (nanosecond timestamp,
    64-bit id), small / bool-like / negative ints, and float constants 0.1, -0.0, 1e300, a denormal."""
    n = rng.choice([30, 80, 200])
    ints = [1696118400123456789, 2 ** 53 + 1, rng.choice([0, 1]), rng.choice([-7, -(2 ** 53) - 3, -(2 ** 63) + 5]),
            2 ** 62 + rng.randrange(1, 10 ** 6)]
    floats = [0.1, -0.0, 1e300, 5e-324, rng.choice([-1e-300, 2.0 ** 53 + 2.0, 3.25])]
    consts = [('int64', v) for v in rng.sample(ints, 3)] + [('float', v) for v in rng.sample(floats, 3)]
    rng.shuffle(consts)
    R, L = random_correlation(rng, nr, 2)
    Z = nr.randn(n, 2) @ L.T
    cols, kinds, descr, dtypes = [], [], [], []
    var = [('gaussian', Z[:, 0]), (rng.choice(['gamma', 'uniform']), Z[:, 1])]
    slots = ['v'] * 2 + ['c'] * len(consts)
    rng.shuffle(slots)
    for sl in slots:
        if sl == 'v':
            kd, z = var.pop()
            q, dsc = marginal(rng, kd)
            cols.append(np.asarray(q(z), dtype=float).tolist())
            kinds.append(kd)
            descr.append(dsc)
            dtypes.append('float')
        else:
            dt, v = consts.pop()
            cols.append([v] * n)
            kinds.append('const')
            descr.append(f'const({dt} {v!r})')
            dtypes.append(dt)
    labels = rng.sample(['ts', 'id', 'flag', 'a', 'b', 'c', 'd', 'e', 'f', 'g'], len(slots))
    form = rng.choice(['default', 'class', 'str', 'inst', 'dict'])
    if form == 'default':
        spec = ['default']
    elif form == 'dict':
        spec = ['dict', shape_dict(rng, [[enc_label(lab), [rng.choice(['class', 'str', 'inst']),
                                                            rng.choice(list(FAST) + ['TruncatedGaussian', 'BetaUnivariate'])]]
                                         for lab in labels], rng.choice(['full-in-order', 'full-shuffled', 'subset-shuffled']))]
    else:
        spec = [form, rng.choice(list(FAST) + ['TruncatedGaussian', 'BetaUnivariate', 'StudentTUnivariate'])]
    return {'labels': labels, 'cols': cols, 'kinds': kinds, 'descr': descr, 'config': spec,
            'seed': ['int', rng.randrange(2 ** 31)], 'ndarray': False, 'dtypes': dtypes, 'row_order': 'as-drawn'}


def scale_stress_case(rng, nr, deep):
    """a table whose NON-constant columns live on awkward scales (epoch seconds within a few hours, readings ~1e-9,
    1000 + 1e-3 y), an ordinary column and a truly constant flag; Gaussian marginals in the five configuration forms."""
    n = rng.choice([300, 800, 1500])
    kinds = ['near_epoch', 'near_tiny', 'near_kilo', 'gaussian']
    rng.shuffle(kinds)
    kinds = kinds[:rng.choice([3, 4])]
    R, L = random_correlation(rng, nr, len(kinds))
    Z = nr.randn(n, len(kinds)) @ L.T
    cols, descr = [], []
    for j, kd in enumerate(kinds):
        q, dsc = marginal(rng, kd)
        cols.append(np.asarray(q(Z[:, j]), dtype=float))
        descr.append(dsc)
    at = rng.randrange(len(kinds) + 1)
    kinds.insert(at, 'const')
    cols.insert(at, np.full(n, 7.0))
    descr.insert(at, 'const(7.0)')
    labels = rng.sample(['timestamp', 'reading', 'score', 'flag', 'level', 'x'], len(kinds))
    form = rng.choice(['class', 'str', 'inst', 'dict', 'dict'] + (['default'] if deep else []))
    if form == 'default':
        spec = ['default']
    elif form == 'dict':
        spec = ['dict', shape_dict(rng, [[enc_label(lab), [rng.choice(['class', 'str', 'inst']),
                                                            rng.choice(['GaussianUnivariate', 'GaussianUnivariate',
                                                                        'GaussianKDE', 'UniformUnivariate'])]]
                                         for lab in labels],
                                   rng.choice(['full-in-order', 'full-reversed', 'full-shuffled']))]
    else:
        spec = [form, 'GaussianUnivariate']
    return {'labels': labels, 'cols': [c.tolist() for c in cols], 'kinds': kinds, 'descr': descr, 'config': spec,
            'seed': ['int', rng.randrange(2 ** 31)]}


N_DEP_TRAIN = 2000


def dependence_case(rng, nr):
    """training table FROM a Gaussian copula: a strongly dependent pair (|rho| in 0.85..0.92, Gaussian / Gamma
    marginals), a third column, and a CONSTANT column somewhere; matched families in the configuration."""
    rho = rng.choice([-1, 1]) * rng.uniform(0.85, 0.92)
    r13, r23 = rng.uniform(-0.3, 0.3), rng.uniform(-0.3, 0.3)
    R = np.array([[1.0, rho, r13], [rho, 1.0, r23], [r13, r23, 1.0]])
    while np.min(np.linalg.eigvalsh(R)) < 0.05:
        r13, r23 = r13 / 2, r23 / 2
        R = np.array([[1.0, rho, r13], [rho, 1.0, r23], [r13, r23, 1.0]])
    Z = nr.randn(N_DEP_TRAIN, 3) @ np.linalg.cholesky(R).T
    kinds = [rng.choice(['gaussian', 'gamma']), rng.choice(['gaussian', 'gamma']), rng.choice(['gaussian', 'gamma', 'uniform'])]
    cols, descr = [], []
    for j, kd in enumerate(kinds):
        q, dsc = marginal(rng, kd)
        cols.append(np.asarray(q(Z[:, j]), dtype=float))
        descr.append(dsc)
    order = [0, 1, 2]
    rng.shuffle(order)
    kinds = [kinds[i] for i in order]
    cols = [cols[i] for i in order]
    descr = [descr[i] for i in order]
    at = rng.randrange(4)
    kinds.insert(at, 'const')
    cols.insert(at, np.full(N_DEP_TRAIN, rng.choice([0.0, 7.0, -2.5])))
    descr.insert(at, 'const')
    labels = rng.sample(['a', 'b', 'c', 'd', 'e', 10, 3, 7, 21], 4)
    if any(isinstance(x, int) for x in labels) and not all(isinstance(x, int) for x in labels):
        labels = [str(x) for x in labels]
    spec = ['dict', shape_dict(rng, [[enc_label(lab), [rng.choice(['class', 'str', 'inst']), KIND2CLASS[kd]]]
                                     for lab, kd in zip(labels, kinds)],
                               rng.choice(['full-in-order', 'full-reversed', 'full-shuffled']))]
    return {'labels': labels, 'cols': [c.tolist() for c in cols], 'kinds': kinds, 'descr': descr, 'config': spec,
            'seed': ['int', rng.randrange(2 ** 31)], 'true_rho': rho}


def dependence_oracle(ctx, case, stats):
    """"recovered within sampling error", dependence part, on a table that also holds a constant column:
    |tau(sampled pair) - tau(training pair)| <= Hoeffding(n_train) + Hoeffding(n_sample) + 0.06, each Hoeffding radius
    at false-alarm probability DELTA (tau-a is a U-statistic; E tau_train = (2/pi) asin rho, E tau_sample =
    (2/pi) asin rho_fitted); 0.06 covers the estimation error of rho_fitted at n_train = 2000 (standard error
    ~0.01, >= 5x the largest deviation seen in calibration).  And model.correlation == normal-score correlation."""
    ep = 'GaussianMultivariate.fit'
    cls = ep + ':dependence-not-recovered'
    stats['dependence_experiments'] = stats.get('dependence_experiments', 0) + 1
    inp = case_input(case, n=N_BIG, experiment='dependence')
    try:
        model, X = fit_model(case)
        out, calls = real_sample(model, case, N_BIG, True)
    except Exception as e:  # noqa
        ctx.fail_input(ep, inp, 'raised ' + repr(e)[:300], 'fit + sample succeed', ep + ':recovery-raises')
        return
    for what, obs in schema_problems(model, case, out, N_BIG, calls[0]['out'] if len(calls) == 1 else None):
        ctx.fail_input('GaussianMultivariate.sample', inp, obs, 'schema', f'GaussianMultivariate.sample:schema-{what}')
    if not columns_in_table_order(ctx, case, model, N_BIG):
        return
    unis = list(model.univariates)
    d = len(case['labels'])
    regular = [j for j in range(d) if col_status(unis[j], case['cols'][j]) == 'regular']
    for pair, obs in correlation_entry_problems(case, model, unis, regular):
        ctx.fail_input(ep, dict(inp, columns=pair), obs,
                       'model.correlation[j, k] = Pearson correlation of the training normal scores (1e-6)', cls)
    n_t = len(case['cols'][0])
    # marginal part of the recovery clause: the family is the generating one, so the fitted cdf must be close to the
    # training ECDF (KS <= DKW(n_train) + 0.1).  A column whose marginal is NOT recovered (scipy's MLE with a free
    # location stuck at loc = min(X)) is reported under its own class and left out of the dependence comparison: the
    # normal scores of a wrong marginal are meaningless.
    good = []
    for j in regular:
        Dj = ks_distance(np.asarray(case['cols'][j], dtype=float), unis[j].cdf)
        stats['max_dependence_marginal_ks'] = max(stats.get('max_dependence_marginal_ks', 0.0), Dj)
        if Dj <= dkw_eps(n_t) + 0.1:
            good.append(j)
        else:
            fam = type(unis[j]).__name__
            ctx.fail_input(ep, dict(inp, column=j),
                           {'ks_training_vs_fitted_cdf': Dj, 'band': dkw_eps(n_t) + 0.1, 'generating': case['descr'][j]
                            if j < len(case.get('descr', [])) else case['kinds'][j],
                            'fitted': {k_: float(v_) for k_, v_ in (getattr(unis[j], '_params', None) or {}).items()
                                       if isinstance(v_, (int, float, np.floating))}},
                           'the marginal fitted with the generating family is within DKW(n_train) + 0.1 of the training '
                           'ECDF (generating marginals are recovered)', f'{ep}:marginal-not-recovered-{fam}')
    regular = good
    band = hoeffding_tau_eps(n_t) + hoeffding_tau_eps(N_BIG) + 0.06
    for a in range(len(regular)):
        for b in range(a + 1, len(regular)):
            j, k = regular[a], regular[b]
            oj, ok_ = out.iloc[:, j].to_numpy(), out.iloc[:, k].to_numpy()
            if not (np.all(np.isfinite(oj)) and np.all(np.isfinite(ok_))):
                continue
            tau_t = float(st.kendalltau(case['cols'][j], case['cols'][k]).statistic)
            tau_s = float(st.kendalltau(oj, ok_).statistic)
            stats['max_dependence_tau_dev'] = max(stats.get('max_dependence_tau_dev', 0.0), abs(tau_t - tau_s))
            if not abs(tau_t - tau_s) <= band:
                ctx.fail_input(ep, dict(inp, columns=[j, k]),
                               {'tau_training': tau_t, 'tau_sampled': tau_s, 'band': band,
                                'model_correlation': float(model.correlation.to_numpy()[j, k])},
                               f'|tau(sampled pair) - tau(training pair)| <= {band:.3f} (Hoeffding, training and sample '
                               f'error, false-alarm probability {2 * DELTA:g})', cls)


def extreme_seed(corr, cols, n, budget, thresh=5.17):
    """first int seed s < budget such that RandomState(s).multivariate_normal(0, corr, n) — exactly what a model
    seeded with s draws in its first sample(n) — has a cell beyond +-thresh in one of `cols`.  Deterministic."""
    d = corr.shape[0]
    zero = np.zeros(d)
    for s_ in range(budget):
        z = np.random.RandomState(s_).multivariate_normal(zero, corr, size=n)
        if np.any(np.abs(z[:, cols]) > thresh):
            return s_
    return None


def tail_hunt(ctx, case, model, stats, budget):
    """"all seeds": look for a model seed whose FIRST sample(n) contains an extreme normal draw (|z| > 5.17, i.e.
    Phi(z) within float32-eps of 0 or 1; probability 2.4e-7 per cell) and check the schema of that real sample."""
    d = len(case['labels'])
    unis = list(model.univariates)
    cols = [j for j in range(d) if col_status(unis[j], case['cols'][j]) != 'const']
    if not cols:
        return
    n = 2000
    # search heuristic only (the verdict comes from the real sample below): prefer the columns whose percent_point is
    # not finite at Phi(+-5.3); for those the seed budget is raised so that a seed is found with probability ~0.98
    probe = st.norm.cdf(np.array([-5.3, 5.3]))
    suspect = []
    for j in cols:
        try:
            if not np.all(np.isfinite(np.asarray(unis[j].percent_point(probe), dtype=float))):
                suspect.append(j)
        except Exception:  # noqa
            suspect.append(j)
    if budget < 0 and not suspect:
        return                                  # shallow mode: only hunt where the probe is suspicious
    if suspect:
        cols, budget = suspect, max(budget, 8000)
        stats['tail_hunt_suspect_columns'] = stats.get('tail_hunt_suspect_columns', 0) + len(suspect)
    s_ = extreme_seed(model.correlation.to_numpy(), cols, n, budget)
    stats['tail_hunts'] = stats.get('tail_hunts', 0) + 1
    if s_ is None:
        return
    stats['tail_hunt_seeds_found'] = stats.get('tail_hunt_seeds_found', 0) + 1
    case2 = dict(case, seed=['int', s_])
    model.set_random_state(s_)
    ep = 'GaussianMultivariate.sample'
    try:
        out, calls = real_sample(model, case2, n, True)
    except Exception as e:  # noqa
        ctx.fail_input(ep, case_input(case2, n=n), 'raised ' + repr(e)[:300], 'sample(n) returns a frame', ep + ':raises')
        return
    draws = calls[0]['out'] if len(calls) == 1 else None
    for what, obs in schema_problems(model, case2, out, n, draws):
        ctx.fail_input(ep, case_input(case2, n=n), obs,
                       'every sampled cell is a finite float (no missing / infinite values), also for the seeds whose '
                       'normal draws are extreme', f'{ep}:schema-{what}')


def fit_state_problems(case, model):
    """what `fit` must leave behind, per column (-> list of (class suffix, column, observed, required)):
    * the univariates are DISTINCT objects;
    * a column whose fitted univariate is not of the requested class took the Gaussian fall-back: that is legitimate
      only if the requested marginal really raises on that column, and the fall-back must be fitted on THAT column
      (loc = mean, scale = std of the column);
    * a column without a configured marginal (default / key missing / empty dict) is modelled by the default selection."""
    from copulas.utils import get_instance
    out = []
    unis = list(model.univariates)
    d = len(case['labels'])
    if len(unis) != d:
        return out
    ids = [id(u) for u in unis]
    if len(set(ids)) != d:
        shared = [[j for j in range(d) if ids[j] == i_] for i_ in set(ids) if ids.count(i_) > 1]
        out.append(('univariates-share-object', shared[0][0], {'columns_sharing_one_univariate_object': shared,
                                                            'types': [type(u).__name__ for u in unis]},
                    'model.univariates holds one fitted object per column'))
    requested = requested_classes(case)
    cfg = build_config(case['config'])
    for j in range(d):
        rq, got = requested[j], type(unis[j]).__name__
        if rq is None or got == rq:
            continue
        tr = np.asarray(case['cols'][j], dtype=float)
        if got != 'GaussianUnivariate':
            out.append(('wrong-marginal-class', j, {'requested': rq, 'fitted': got}, 'the configured marginal class is fitted'))
            continue
        # fell back: was it needed?
        if cfg is None:
            dist = _cls('Univariate')
        elif isinstance(cfg, dict):
            dist = cfg.get(case['labels'][j], _cls('Univariate'))
        else:
            dist = cfg
        state = np.random.get_state()
        try:
            np.random.seed(case['seed'][1] % (2 ** 32))
            try:
                get_instance(dist).fit(pd.Series(case['cols'][j]))
                raised = None
            except Exception as e:  # noqa
                raised = repr(e)[:120]
        finally:
            np.random.set_state(state)
        if raised is None:
            out.append(('unneeded-fallback', j, {'requested': rq, 'fitted': got,
                                                 'note': 'the requested marginal fits this column without raising'},
                        'the configured (or default-selected) marginal is used when its fit succeeds'))
        if len(np.unique(tr)) > 1:
            prm = getattr(unis[j], '_params', None) or {}
            loc, scale = prm.get('loc'), prm.get('scale')
            m_, s_ = float(np.mean(tr)), float(np.std(tr))
            ok = loc is not None and scale is not None and abs(loc - m_) <= 1e-9 * max(1.0, abs(m_), s_) and \
                abs(scale - s_) <= 1e-9 * max(abs(s_), 1e-300)
            if not ok:
                out.append(('fallback-marginal-not-of-its-column', j,
                            {'fallback_loc_scale': [None if loc is None else float(loc), None if scale is None else float(scale)],
                             'column_mean_std': [m_, s_], 'requested': rq, 'raised': raised},
                            'the Gaussian fall-back of a column is fitted on that column: loc = mean, scale = std'))
    return out


def unnamed_columns_oracle(ctx, case, stats):
    """reference = the model fitted with the DEFAULT `distribution` on the same table (same seed): for every column the
    dict does not name, the fitted univariate has the same type and the same to_dict()."""
    ep = 'GaussianMultivariate.fit'
    try:
        model, _ = fit_model(case)
        ref, _ = fit_model(dict(case, config=['default']))
    except Exception as e:  # noqa
        ctx.fail_input(ep, case_input(case), 'raised ' + repr(e)[:300], 'fit succeeds', ep + ':raises')
        return
    named = {k_ for k_, _ in dict_items(case['config'])} if case['config'][0] == 'dict' else set()
    for j, lab in enumerate(case['labels']):
        if enc_label(lab) in named or j >= len(model.univariates):
            continue
        stats['unnamed_columns_checked'] = stats.get('unnamed_columns_checked', 0) + 1
        u, r = model.univariates[j], ref.univariates[j]
        tu = type(u).__name__ + '>' + type(getattr(u, '_instance', None)).__name__
        tr_ = type(r).__name__ + '>' + type(getattr(r, '_instance', None)).__name__
        try:
            same = tu == tr_ and u.to_dict() == r.to_dict()
        except Exception as e:  # noqa
            same = False
        if not same:
            ctx.fail_input(ep, case_input(case, column=j, experiment='unnamed-columns'),
                           {'fitted': tu, 'under_default_configuration': tr_,
                            'fitted_params': {k_: v_ for k_, v_ in (getattr(u, '_params', None) or {}).items() if k_ != 'dataset'}},
                           'a column the per-column dict does not name is modelled exactly as under the default '
                           'configuration (same selected family, same parameters)',
                           ep + ':unnamed-column-not-default-selected')


def columns_in_table_order(ctx, case, model, n=None):
    """`model.columns` (hence univariates / correlation labels / sample columns) must be the table's column order; the
    index-based oracles below are only meaningful then.  -> bool"""
    want = [enc_label(x) for x in case['labels']]
    got = [enc_label(x) for x in (model.columns or [])]
    if got == want:
        return True
    ctx.fail_input('GaussianMultivariate.fit', case_input(case, **({} if n is None else {'n': n})),
                   {'model_columns': [repr(x) for x in (model.columns or [])],
                    'training_columns': [repr(x) for x in case['labels']]},
                   'model.columns (and univariates, correlation labels, sample columns) follow the training table\'s '
                   'column order', 'GaussianMultivariate.fit:columns-not-in-table-order')
    return False


def raise_class(e, unis):
    """class suffix for an exception raised by sample(): `kde-bracket-misses-quantile` when it is chandrupatla's
    bracket assertion and some GaussianKDE-backed marginal has cdf(max + 5 std) visibly below 1 (bandwidth large
    relative to the data spread: few effective observations, large bw_method); `raises` otherwise."""
    if isinstance(e, AssertionError):
        for u in unis:
            if kde_backed(u):
                kde = u if type(u).__name__ == 'GaussianKDE' else u._instance
                try:
                    lo, hi = kde._get_bounds()
                    if float(np.asarray(kde.cdf(np.array([hi])))[0]) < 1 - 1e-6:
                        return 'kde-bracket-misses-quantile'
                except Exception:  # noqa
                    pass
    return 'raises'


def oracle_case(ctx, case, stats, schema_ns, big, only=None, hunt=0, light=False):
    """C01 on the real code for one fitted model.  `only` restricts to one failure class (replay)."""
    ep = 'GaussianMultivariate.sample'
    try:
        model, X = fit_model(case)
    except Exception as e:  # noqa
        ctx.fail_input('GaussianMultivariate.fit', case_input(case), 'raised ' + repr(e)[:300],
                       'fit succeeds on a numeric table', 'GaussianMultivariate.fit:raises')
        return
    stats['tables'] += 1
    d = len(case['labels'])
    unis = list(model.univariates)
    if [enc_label(c) for c in (model.columns or [])] == [enc_label(x) for x in case['labels']]:
        for what, j, obs, req in fit_state_problems(case, model):
            ctx.fail_input('GaussianMultivariate.fit', case_input(case, column=j, n=(schema_ns[0] if schema_ns else N_BIG)),
                           obs, req, 'GaussianMultivariate.fit:' + what)
        stats['fallback_columns'] = stats.get('fallback_columns', 0) + sum(
            1 for rq, u in zip(requested_classes(case), unis) if rq is not None and type(u).__name__ != rq)
    first = True
    for n in schema_ns:
        try:
            out, calls = real_sample(model, case, n, first)
        except Exception as e:  # noqa
            ctx.fail_input(ep, case_input(case, n=n), 'raised ' + repr(e)[:300], 'sample(n) returns a frame',
                           ep + ':' + raise_class(e, unis))
            return
        first = False
        stats['schema_checks'] += 1
        if not (len(calls) == 1 and calls[0]['size'] == n and not np.asarray(calls[0]['mean']).any()
                and bits_equal(calls[0]['cov'], model.correlation.to_numpy())):
            ctx.fail_input(ep, case_input(case, n=n), {'recorded_multivariate_normal_calls': len(calls),
                                                       'model_correlation': model.correlation.to_numpy().tolist()},
                           'the normal draws come from ONE call multivariate_normal(zeros(d), model.correlation, size=n)',
                           f'{ep}:draw-request')
        for what, obs in schema_problems(model, case, out, n, calls[0]['out'] if len(calls) == 1 else None):
            ctx.fail_input(ep, case_input(case, n=n), obs,
                           'exactly n rows, the training labels in training order, finite float columns (no NaN / inf), '
                           'constant training columns reproduced exactly', f'{ep}:schema-{what}')
        if len(calls) == 1 and [enc_label(c) for c in (model.columns or [])] == [enc_label(x) for x in case['labels']] \
                and isinstance(out, pd.DataFrame) and out.shape == (n, d):
            marg_ = []
            for j, obs in kde_inversion_problems(case, unis, out, calls[0]['out'], probs_marginal=marg_):
                stats['kde_inversion_failures'] = stats.get('kde_inversion_failures', 0) + 1
                ctx.fail_input(ep, case_input(case, n=n, column=j), obs, KDE_INV_REQ, f'{ep}:kde-column-quantised')
            for j, obs in marg_:
                ctx.fail_input(ep, case_input(case, n=n, column=j), obs, KDE_MARG_REQ,
                               f'{ep}:kde-column-not-fitted-marginal')
            stats['kde_inversion_checks'] = stats.get('kde_inversion_checks', 0) + sum(1 for u_ in unis if kde_backed(u_))
    if not columns_in_table_order(ctx, case, model, N_BIG if big else None):
        return
    if hunt:
        tail_hunt(ctx, case, model, stats, hunt)
        model, X = fit_model(case)          # fresh model: the hunt re-seeded the other one
        unis = list(model.univariates)
        first = True
    if not big:
        return
    # GaussianKDE.percent_point costs ~0.12 ms per cell: in the shallow (quick-tier) search a model with several
    # KDE-backed columns is sampled 8000 / 3000 times (one / several KDE columns) instead of 20000 (the bands below scale with n)
    nk_ = sum(1 for u in unis if kde_backed(u))
    n = N_BIG if (not light or nk_ == 0) else (8000 if nk_ == 1 else 3000)
    try:
        out, calls = real_sample(model, case, n, first)
    except Exception as e:  # noqa
        ctx.fail_input(ep, case_input(case, n=n), 'raised ' + repr(e)[:300], 'sample(n) returns a frame', ep + ':raises')
        return
    probs = schema_problems(model, case, out, n, calls[0]['out'] if len(calls) == 1 else None)
    stats['schema_checks'] += 1
    for what, obs in probs:
        ctx.fail_input(ep, case_input(case, n=n), obs, 'schema: finite float cells, n rows, training labels in order',
                       f'{ep}:schema-{what}')
    if any(w in ('type', 'labels', 'rows', 'dtype') for w, _ in probs):
        return
    status = [col_status(unis[j], case['cols'][j]) for j in range(d)]
    stats['degenerate_fitted_marginals'] = stats.get('degenerate_fitted_marginals', 0) + status.count('degenerate')
    nonconst = [j for j in range(d) if status[j] == 'regular']
    eps = dkw_eps(n) + 1e-4
    cols = {j: out.iloc[:, j].to_numpy() for j in range(d)}
    # against the training data: no non-constant column collapses, the sample looks like the column
    stats['empirical_law_checks'] = stats.get('empirical_law_checks', 0) + 1
    for what, j, obs, req in empirical_law_problems(case, unis, cols):
        if what.startswith('fit:'):
            ctx.fail_input('GaussianMultivariate.fit', case_input(case, n=n, column=j), obs, req,
                           'GaussianMultivariate.' + what)
        else:
            ctx.fail_input(ep, case_input(case, n=n, column=j), obs, req, f'{ep}:{what}')
    dr_ = calls[0]['out'] if len(calls) == 1 and calls[0]['out'].shape == (n, d) else None
    marg_ = []
    for j, obs in kde_inversion_problems(case, unis, out, dr_, probs_marginal=marg_):
        stats['kde_inversion_failures'] = stats.get('kde_inversion_failures', 0) + 1
        ctx.fail_input(ep, case_input(case, n=n, column=j), obs, KDE_INV_REQ, f'{ep}:kde-column-quantised')
    for j, obs in marg_:
        ctx.fail_input(ep, case_input(case, n=n, column=j), obs, KDE_MARG_REQ, f'{ep}:kde-column-not-fitted-marginal')
    stats['kde_inversion_checks'] = stats.get('kde_inversion_checks', 0) + sum(1 for u_ in unis if kde_backed(u_))
    stats['correlation_entry_checks'] = stats.get('correlation_entry_checks', 0) + 1
    for pair, obs in correlation_entry_problems(case, model, unis, nonconst):
        ctx.fail_input('GaussianMultivariate.fit', case_input(case, n=N_BIG, columns=pair), obs,
                       'model.correlation[j, k] = Pearson correlation of the training normal scores (1e-6)',
                       'GaussianMultivariate.fit:dependence-not-recovered')
    # marginals: KS distance to the FITTED marginal
    for j in nonconst:
        if not np.all(np.isfinite(cols[j])):
            continue
        D = ks_distance(cols[j], unis[j].cdf)
        stats['ks_tests'] += 1
        stats['max_ks'] = max(stats['max_ks'], D)
        eps = dkw_eps(n) + numeric_slack(case['cols'][j])[1]
        if not D <= eps:
            ctx.fail_input(ep, case_input(case, n=n, column=j), {'ks_distance': D, 'band': eps,
                                                                  'univariate': type(unis[j]).__name__},
                           f'sup|F_n - F_fitted| <= {eps:.4f} (DKW, false-alarm probability {DELTA:g})',
                           f'{ep}:marginal-ks')
    draws = calls[0]['out'] if len(calls) == 1 and calls[0]['out'].shape == (n, d) else None
    if draws is None:
        ctx.fail_input(ep, case_input(case, n=n), {'recorded_calls': len(calls)},
                       'one call multivariate_normal(zeros(d), correlation, size=n)', f'{ep}:draw-request')
        return
    cov = model.correlation.to_numpy()
    teps = hoeffding_tau_eps(n) + 2e-3
    # dependence
    noisy = {}            # KDE-backed column -> number of pairs inverted within the root finder's stopping tolerance
    for j in nonconst:
        order = np.argsort(draws[:, j], kind='stable')
        stats['rank_preservation'] += 1
        steps = np.diff(cols[j][order])
        if not np.all(steps >= 0):
            # precise class for ONE situation: a GaussianKDE-backed column whose every backward step is within the root
            # finder's own stopping tolerance (|dx| <= 2 eps |x| + 2 eps, absolute — not scaled to the column): at a
            # tiny absolute spread (farad-sized values) that tolerance exceeds the gap between neighbouring quantiles,
            # so the sampled column is a NOISY, not a monotone, function of its draw.  Anything larger is the generic class.
            eps_ = float(np.finfo(float).eps)
            xs = cols[j][order]
            bound = 8.0 * (2 * eps_ * np.maximum(np.abs(xs[1:]), np.abs(xs[:-1])) + 2 * eps_)
            backward = steps < 0
            within = bool(np.all(-steps[backward] <= bound[backward]))
            if kde_backed(unis[j]) and within:
                # NOT a failure of C01 (its dependence clause is distributional): tolerated, counted, one sample kept.
                tot_ = n * (n - 1) // 2
                tau_self = float(st.kendalltau(draws[:, j], cols[j]).statistic)
                inv = int(round(tot_ * (1.0 - tau_self) / 2.0)) if tau_self == tau_self else int(backward.sum())
                noisy[j] = max(inv, int(backward.sum()))
                ctx.count('kde-rank-noise-within-solver-tolerance')
                stats['kde_rank_noise_tolerated'] = stats.get('kde_rank_noise_tolerated', 0) + 1
                ctx.sample({'kde-rank-noise-within-solver-tolerance': {
                    'kinds': case['kinds'], 'column': j, 'n': n, 'backward_steps': int(backward.sum()),
                    'inverted_pairs': noisy[j], 'largest_backward_step': float((-steps[backward]).max()),
                    'solver_stopping_tolerance': float(bound[backward].max() / 8.0),
                    'training_std': float(np.std(np.asarray(case['cols'][j], dtype=float)))}}, cap=8)
            else:
                ctx.fail_input(ep, case_input(case, n=n, column=j), 'sampled column is not a non-decreasing function of '
                               'its normal draw', 'column j = percent_point_j(Phi(draw_j)), non-decreasing in the draw',
                               f'{ep}:rank-preservation')
    for a in range(len(nonconst)):
        for b in range(a + 1, len(nonconst)):
            j, k = nonconst[a], nonconst[b]
            if not (np.all(np.isfinite(cols[j])) and np.all(np.isfinite(cols[k]))):
                continue
            tau_out = float(st.kendalltau(cols[j], cols[k]).statistic)
            tau_z = float(st.kendalltau(draws[:, j], draws[:, k]).statistic)
            noties = len(np.unique(cols[j])) == n and len(np.unique(cols[k])) == n and \
                len(np.unique(draws[:, j])) == n and len(np.unique(draws[:, k])) == n
            if noties:
                stats['kendall_exact'] += 1
                # exact equality; a pair inverted inside a tolerated KDE column moves C - D by at most 2
                slack = 0.0
                if j in noisy or k in noisy:
                    slack = 2.0 * (noisy.get(j, 0) + noisy.get(k, 0)) / (n * (n - 1) / 2.0) + 1e-12
                if abs(tau_out - tau_z) > slack:
                    ctx.fail_input(ep, case_input(case, n=n, columns=[j, k]), {'tau_sampled': tau_out, 'tau_draws': tau_z},
                                   'Kendall tau of the sampled pair == Kendall tau of the normal draws (exactly)',
                                   f'{ep}:kendall-exact')
            rho = cov[j, k] / math.sqrt(cov[j, j] * cov[k, k])
            want = 2.0 / math.pi * math.asin(max(-1.0, min(1.0, rho)))
            stats['kendall_value'] += 1
            stats['max_tau_dev'] = max(stats['max_tau_dev'], abs(tau_out - want))
            if not abs(tau_out - want) <= teps:
                ctx.fail_input(ep, case_input(case, n=n, columns=[j, k]),
                               {'tau_sampled': tau_out, 'implied': want, 'rho': float(rho), 'band': teps},
                               f'|tau - (2/pi) asin(rho)| <= {teps:.4f} (Hoeffding bound for the U-statistic, '
                               f'false-alarm probability {DELTA:g})', f'{ep}:kendall-value')


def recovery_experiment(ctx, rng, nr, stats, use_default=False):
    """training table FROM a Gaussian copula with known marginals and correlation; N = 3000 rows.
    Bands are heuristic (>= 5x the largest deviation seen in calibration runs; the standard error of a correlation
    at N = 3000 is <= 0.02, the DKW radius at 1e-13 is 0.072): this clause is `recovery_partial`."""
    from copulas.multivariate import GaussianMultivariate  # noqa
    N = 3000
    k = rng.choice([2, 3, 4])
    R, L = random_correlation(rng, nr, k)
    Z = nr.randn(N, k) @ L.T
    fams = []
    cols = []
    for j in range(k):
        kind = rng.choice(['gaussian', 'gamma', 'uniform', 'student_t', 'gaussian'])
        scale = 10.0 ** rng.choice([-1, 0, 1])
        loc = rng.choice([0.0, 2.0, -5.0]) * scale
        if kind == 'gaussian':
            dist = st.norm(loc, scale)
        elif kind == 'gamma':
            dist = st.gamma(rng.choice([2.0, 5.0]), loc=loc, scale=scale)
        elif kind == 'uniform':
            dist = st.uniform(loc, scale)
        else:
            dist = st.t(rng.choice([4, 8]), loc=loc, scale=scale)
        fams.append((kind, dist))
        cols.append(dist.ppf(st.norm.cdf(Z[:, j])))
    labels = rng.sample(['a', 'b', 'c', 'd', 'e'], k)
    spec = ['default'] if use_default else ['dict', [[enc_label(lab), [rng.choice(['class', 'str', 'inst']), KIND2CLASS[kd]]]
                                                      for lab, (kd, _) in zip(labels, fams)]]
    case = {'labels': labels, 'cols': [np.asarray(c, dtype=float).tolist() for c in cols],
            'kinds': [kd for kd, _ in fams], 'descr': [], 'config': spec, 'seed': ['int', rng.randrange(2 ** 31)]}
    ep = 'GaussianMultivariate.fit'
    stats['recovery_experiments'] += 1
    try:
        model, X = fit_model(case)
        out, rcalls = real_sample(model, case, N_BIG, True)
    except Exception as e:  # noqa
        ctx.fail_input(ep, {'kinds': case['kinds'], 'config': spec, 'seed': case['seed']}, 'raised ' + repr(e)[:300],
                       'fit + sample succeed', ep + ':recovery-raises')
        return
    small = {'kinds': case['kinds'], 'config': spec, 'seed': case['seed'], 'true_corr': R.tolist(), 'N': N}
    if not columns_in_table_order(ctx, case, model, N_BIG):
        return
    for what, obs in schema_problems(model, case, out, N_BIG, rcalls[0]['out'] if len(rcalls) == 1 else None):
        ctx.fail_input('GaussianMultivariate.sample', case_input(case, n=N_BIG), obs,
                       'schema: finite float cells, n rows, training labels in order',
                       f'GaussianMultivariate.sample:schema-{what}')
    C = model.correlation.to_numpy()
    dev = float(np.max(np.abs(C - R)))
    stats['max_recovery_corr_dev'] = max(stats.get('max_recovery_corr_dev', 0.0), dev)
    if not dev <= 0.15:
        ctx.fail_input(ep, small, {'fitted_corr': C.tolist(), 'max_dev': dev}, 'max|corr_fitted - corr_true| <= 0.15',
                       ep + ':recovery-correlation')
    misfit = set()
    for j, (kd, dist) in enumerate(fams):
        grid = dist.ppf(np.linspace(0.01, 0.99, 99))
        dj = float(np.max(np.abs(np.asarray(model.univariates[j].cdf(grid), dtype=float) - dist.cdf(grid))))
        stats['max_recovery_marginal_dev'] = max(stats.get('max_recovery_marginal_dev', 0.0), dj)
        if not dj <= 0.12:
            ctx.fail_input(ep, dict(small, column=j), {'sup_cdf_dev': dj, 'generating': kd},
                           'sup|F_fitted - F_true| <= 0.12 on a grid',
                           ep + ':marginal-not-recovered-' + type(model.univariates[j]).__name__)
            misfit.add(j)            # reported under the family class; its sample / dependence are not judged again
            continue
        if not np.all(np.isfinite(out.iloc[:, j].to_numpy())):
            continue
        ks = ks_distance(out.iloc[:, j].to_numpy(), dist.cdf)
        stats['max_recovery_sample_ks'] = max(stats.get('max_recovery_sample_ks', 0.0), ks)
        if not ks <= 0.12 + dkw_eps(N_BIG):
            ctx.fail_input(ep, dict(small, column=j), {'ks_vs_true': ks},
                           'synthetic column within 0.12 + DKW of the generating marginal', ep + ':recovery-sample-marginal')
    for a in range(k):
        for b in range(a + 1, k):
            if a in misfit or b in misfit:
                continue
            if not (np.all(np.isfinite(out.iloc[:, a].to_numpy())) and np.all(np.isfinite(out.iloc[:, b].to_numpy()))):
                continue
            tau = float(st.kendalltau(out.iloc[:, a].to_numpy(), out.iloc[:, b].to_numpy()).statistic)
            want = 2 / math.pi * math.asin(R[a, b])
            stats['max_recovery_tau_dev'] = max(stats.get('max_recovery_tau_dev', 0.0), abs(tau - want))
            if not abs(tau - want) <= 0.15 + hoeffding_tau_eps(N_BIG):
                ctx.fail_input(ep, dict(small, columns=[a, b]), {'tau_synthetic': tau, 'tau_true': want},
                               'synthetic rank dependence within 0.15 + Hoeffding band of the generating one',
                               ep + ':recovery-dependence')


def replay(ctx, payload):
    cls = payload.get('class', '')
    inp = payload.get('input', {})
    before = len(ctx.failing)
    stats = {'tables': 0, 'schema_checks': 0, 'ks_tests': 0, 'kendall_exact': 0, 'kendall_value': 0,
             'rank_preservation': 0, 'recovery_experiments': 0, 'max_ks': 0.0, 'max_tau_dev': 0.0}
    if inp.get('experiment') == 'dependence':
        dependence_oracle(ctx, case_from_input(inp), stats)
    elif inp.get('experiment') == 'selection':
        selection_oracle(ctx, case_from_input(inp), stats)
    elif inp.get('experiment') == 'unnamed-columns':
        unnamed_columns_oracle(ctx, case_from_input(inp), stats)
    elif inp.get('experiment') == 'equivalence':
        other = None
        if inp.get('other'):
            o = dict(inp['other'])
            o.setdefault('row_order', 'as-drawn')
            other = case_from_input(o)
        tag = inp.get('variant', '')
        equivalence_oracle(ctx, case_from_input(inp), other if 'same-width' in tag else None,
                           other if 'other-width' in tag else None, stats, n=int(inp.get('n', 37)))
    elif 'cols_hex' in inp:
        case = case_from_input(inp)
        n = int(inp.get('n', 1))
        oracle_case(ctx, case, stats, schema_ns=[n] if n not in (N_BIG, 8000, 4000, 3000) else [],
                    big=(n in (N_BIG, 8000, 4000, 3000)), light=(n != N_BIG))
    else:
        search(ctx, True)
    return any(f['class'] == cls for f in ctx.failing[before:])
