"""C07 — Copula density and conditional CDF are the derivatives of the CDF."""
import numpy as np

import vcommon as vc
from props import bivlib as B

GEN_TARGETS = ('Bivariate',)
DRIVER_MAIN = 'Main/Biv.lean'
DRIVER_TARGETS = ['CopVerif.Driver.Biv']
ALWAYS_SEARCH = True
RULE = ('translation validation of the generated pdf / partial_derivative definitions at Float vs the real methods: '
        'theta grid + random theta in the |tau|<=0.8 ranges; batches of 1..12 rows on the property domain '
        '[1e-4,1-1e-4]^2 (strict tolerance) and of 0..64 rows on the closed square with boundary values and '
        'shortcut-triggering compositions (same NaN/inf pattern required); invalid thetas; distinct by '
        '(family, method, theta, rows), non-trivial when the batch is non-empty')
PARTIAL = ['pdf integrates over rectangles to the C-volume: proved for Frank as the single-integral identity '
           '(frank_h_integrates_to_cdf + frank_pdf_is_dh_du); for Clayton/Gumbel only the two HasDerivAt steps',
           'limits h->0 at u->0: Clayton proved as a limit, Frank as an identity, Gumbel not proved',
           'base-class finite-difference fallback: not used by any family; not modelled']
ASSUMPTIONS = ['real-number semantics of binary64 formulas (DESIGN 3.1); clayton_no_overflow bounds the float-only branch']


def run(ctx, lean):
    n = 5 * ctx.scale
    for fam in B.FAMS:
        for meth in ('pdf', 'h'):
            B.tv_method(ctx, lean, fam, meth, 'open', n, rtol=1e-9, atol=1e-12)
            B.tv_method(ctx, lean, fam, meth, 'closed', max(2, n // 2), rtol=1e-7, atol=1e-10, invalid=False)
    # log_probability_density is literally log(pdf) (base class; no family overrides it)
    rng = ctx.rng('logpdf')
    bad = None
    for fam in B.FAMS:
        for _ in range(4 * ctx.scale):
            th = B.theta_random(fam, rng)
            if fam == 'gumbel' and th == 1.0:
                th = 1.5
            rows = B.batch(rng, 'open')
            c = B.make(fam, th)
            X = np.array(rows, dtype=float)
            with np.errstate(all='ignore'):
                a = c.log_probability_density(X)
                b = np.log(c.probability_density(X))
            ctx.case((fam, 'logpdf', th, tuple(rows)))
            if not np.array_equal(a, b, equal_nan=True) and bad is None:
                bad = {'family': fam, 'theta': th, 'rows': rows}
    ctx.ob('corr:log_probability_density=log(pdf)', bad is None, 'tie', bad or 'bit-identical')


def fd(f, x, hstep):
    """Richardson-extrapolated central difference."""
    d1 = (f(x + hstep) - f(x - hstep)) / (2 * hstep)
    d2 = (f(x + hstep / 2) - f(x - hstep / 2)) / hstep
    return (4 * d2 - d1) / 3


def search(ctx, deep):
    rng = ctx.rng('search')
    n_theta = 6 * (5 if deep else 1)
    checked = found = 0
    shape_seen = set()
    for fam in B.FAMS:
        for th in B.theta_all(fam) + [B.theta_random(fam, rng) for _ in range(n_theta)]:
            c = B.make(fam, th)
            tag = ':theta=1-shortcut' if (fam == 'gumbel' and th == 1.0) else ''

            def bad(meth, kind, inp, obs, req):
                nonlocal found
                found += 1
                ctx.fail_input(f'{fam}.{meth}', dict(inp, theta=th), obs, req, f'{fam}.{meth}:{kind}{tag}')

            def call1(meth, u, v):
                # a one-row batch is a batch: the answer has shape (1,), like every other batch size
                out = np.asarray(getattr(c, meth)(np.array([[u, v]])))
                if out.shape != (1,) and (fam, meth) not in shape_seen:
                    shape_seen.add((fam, meth))
                    bad(meth, 'one-row-batch-shape', {'rows': [[u, v]]}, {'shape': list(out.shape)}, 'a batch of n rows gives n values, also for n = 1')
                return float(out.ravel()[0])

            def C(u, v):
                return call1('cumulative_distribution', u, v)

            def H(u, v):
                return call1('partial_derivative', u, v)

            def P(u, v):
                return call1('probability_density', u, v)
            with np.errstate(all='ignore'):
                for _ in range(10):
                    u = rng.uniform(0.02, 0.98)
                    v = rng.uniform(0.02, 0.98)
                    hs = 1e-4 * min(u, v, 1 - u, 1 - v, 0.5) * 10
                    hv = H(u, v)
                    pv = P(u, v)
                    dC = fd(lambda t: C(u, t), v, hs)
                    dH = fd(lambda t: H(t, v), u, hs)
                    checked += 4
                    if not abs(hv - dC) <= 2e-5 * max(1.0, abs(hv)):
                        bad('partial_derivative', 'not-dC/dv', {'u': u, 'v': v}, [hv, dC], 'partial_derivative = dC/dv')
                    if not abs(pv - dH) <= 2e-4 * max(1.0, abs(pv)):
                        bad('probability_density', 'not-d2C/dudv', {'u': u, 'v': v}, [pv, dH], 'pdf = d/du partial_derivative')
                    if not (-1e-12 <= hv <= 1 + 1e-9):
                        bad('partial_derivative', 'range', {'u': u, 'v': v}, hv, '0 <= h <= 1')
                    if not pv >= 0:
                        bad('probability_density', 'negative', {'u': u, 'v': v}, pv, 'pdf >= 0')
                    if not abs(pv - P(v, u)) <= 1e-9 * max(1.0, abs(pv)):
                        bad('probability_density', 'symmetry', {'u': u, 'v': v}, [pv, P(v, u)], 'pdf(u,v)=pdf(v,u)')
                # corner probes: the property's domain reaches 1e-4 from every edge
                for a in (1e-4, 1e-3, 1e-2, 3e-2):
                    for b in (1e-4, 1e-2, 3e-2):
                        for (u, v) in ((1 - a, 1 - b), (a, b), (1 - a, b), (a, 1 - b)):
                            hs = 0.05 * min(u, v, 1 - u, 1 - v)
                            hv, pv = H(u, v), P(u, v)
                            dC = fd(lambda t: C(u, t), v, hs)
                            dH = fd(lambda t: H(t, v), u, hs)
                            checked += 2
                            if not (hv == hv and abs(hv - dC) <= 1e-4 * max(1.0, abs(hv))):
                                bad('partial_derivative', 'not-dC/dv', {'u': u, 'v': v}, [hv, dC], 'partial_derivative = dC/dv (corner probe)')
                            if not (pv == pv and abs(pv - dH) <= 2e-3 * max(abs(pv), abs(dH), 1e-6) + 1e-9):
                                bad('probability_density', 'not-d2C/dudv', {'u': u, 'v': v}, [pv, dH], 'pdf = d/du partial_derivative (corner probe)')
                # log density: the logarithm of the density, row by row, in any batch
                rows = B.batch(rng, 'open') + [(rng.choice([1e-4, 1e-3, 5e-3]), rng.uniform(0.2, 0.999))]
                X = np.array(rows, dtype=float)
                lp = np.asarray(c.log_probability_density(X), dtype=float)
                pd_ = np.asarray(c.probability_density(X), dtype=float)
                solo = np.array([float(np.asarray(c.log_probability_density(X[i:i + 1])).ravel()[0]) for i in range(len(rows))])
                checked += 1
                ok_log = all((a == b) or abs(a - b) <= 1e-9 * max(1.0, abs(a)) or (a != a and b != b)
                             for a, b in zip(lp, np.log(pd_)))
                ok_rows = all((a == b) or (a != a and b != b) for a, b in zip(lp, solo))
                if not ok_log:
                    bad('log_probability_density', 'not-log-of-pdf', {'rows': rows}, {'logpdf': lp.tolist(), 'log(pdf)': np.log(pd_).tolist()},
                        'log_probability_density = log(probability_density)')
                if not ok_rows:
                    bad('log_probability_density', 'row-independence', {'rows': rows}, {'batch': lp.tolist(), 'solo': solo.tolist()},
                        'row i of a batch = the row alone')
                # the `pdf` alias is probability_density
                Xa = np.array(B.batch(rng, 'open') + [(1e-4, 1 - 1e-4), (0.5, 0.5)], dtype=float)
                p1 = np.asarray(c.probability_density(Xa.copy()), dtype=float)
                p2 = np.asarray(c.pdf(Xa.copy()), dtype=float)
                checked += 1
                if not np.array_equal(p1, p2, equal_nan=True):
                    bad('pdf', 'alias-differs-from-probability_density', {'rows': Xa.tolist()},
                        {'probability_density': p1.tolist(), 'pdf': p2.tolist()}, 'pdf is a shortcut to probability_density')
                # monotone in u, endpoints on the property's domain
                v = rng.uniform(1e-4, 1 - 1e-4)
                us = sorted(rng.uniform(1e-4, 1 - 1e-4) for _ in range(10))
                hs_ = [H(u, v) for u in us]
                checked += 1
                if any(b < a - 1e-10 for a, b in zip(hs_, hs_[1:])):
                    bad('partial_derivative', 'not-monotone-in-u', {'v': v, 'us': us}, hs_, 'non-decreasing in u')
                # row independence on the domain
                rows = B.batch(rng, 'open')
                X = np.array(rows, dtype=float)
                for meth, name in (('probability_density', 'pdf'), ('partial_derivative', 'h')):
                    whole = np.asarray(getattr(c, meth)(X), dtype=float)
                    solo = np.array([float(np.asarray(getattr(c, meth)(X[i:i + 1])).ravel()[0]) for i in range(len(rows))])
                    checked += 1
                    if not np.array_equal(whole, solo, equal_nan=True):
                        bad(meth, 'row-independence', {'rows': rows}, {'batch': whole.tolist(), 'solo': solo.tolist()},
                            'row i of a batch = the row alone')
                # rectangle integral of the pdf vs C-volume (Gauss-Legendre 24x24)
                if deep or rng.random() < 0.3:
                    u1, u2 = sorted((rng.uniform(0.05, 0.95), rng.uniform(0.05, 0.95)))
                    v1, v2 = sorted((rng.uniform(0.05, 0.95), rng.uniform(0.05, 0.95)))
                    if u2 - u1 > 0.02 and v2 - v1 > 0.02:
                        xs, ws = np.polynomial.legendre.leggauss(24)
                        uu = 0.5 * (u2 - u1) * xs + 0.5 * (u2 + u1)
                        vv = 0.5 * (v2 - v1) * xs + 0.5 * (v2 + v1)
                        G = np.array([[a, b] for a in uu for b in vv])
                        pd = np.asarray(c.probability_density(G)).reshape(24, 24)
                        integ = float(ws @ pd @ ws) * 0.25 * (u2 - u1) * (v2 - v1)
                        vol = C(u2, v2) - C(u1, v2) - C(u2, v1) + C(u1, v1)
                        checked += 1
                        if not abs(integ - vol) <= 1e-6 + 1e-5 * abs(vol):
                            bad('probability_density', 'integral!=volume', {'rect': [u1, u2, v1, v2]}, [integ, vol],
                                'integral of pdf over a rectangle = C-volume')
    # the base-class finite-difference fallback `Bivariate.partial_derivative` (a listed mechanism: reachable as
    # Bivariate.partial_derivative(copula, X) / super().partial_derivative(X)): approximates dC/dv row by row, in the
    # order of the rows given, whatever the batch composition (unsorted rows, repeated rows, one row)
    from copulas.bivariate.base import Bivariate
    for fam in B.FAMS:
        for th in B.theta_grid(fam)[1:-1:2]:
            c = B.make(fam, th)
            base = [(rng.uniform(0.1, 0.9), rng.uniform(0.1, 0.9)) for _ in range(5)]
            batches = {'scattered': base, 'reversed-sorted': sorted(base, reverse=True), 'sorted': sorted(base),
                       'repeated': base[:2] + base[:2] + [base[0]], 'two-descending': sorted(base, reverse=True)[:2],
                       'single': base[:1]}
            for name, rows in batches.items():
                X = np.array(rows, dtype=float)
                checked += 1
                try:
                    with np.errstate(all='ignore'):
                        got = np.asarray(Bivariate.partial_derivative(c, X.copy()), dtype=float)
                        closed = np.asarray(c.partial_derivative(X.copy()), dtype=float)
                        solo = np.array([float(np.asarray(Bivariate.partial_derivative(c, X[i:i + 1].copy())).ravel()[0])
                                         for i in range(len(rows))])
                except Exception as e:  # noqa
                    found += 1
                    ctx.fail_input(f'{fam}.partial_derivative', {'theta': th, 'rows': rows, 'batch': name, 'via': 'Bivariate.partial_derivative'},
                                   f'{vc.exc_kind(e)}: {e}'[:200], 'the fallback serves every batch', 'Bivariate.partial_derivative:fallback-raises')
                    break
                ok = got.shape == closed.shape and np.allclose(got, closed, rtol=0, atol=5e-3) \
                    and np.array_equal(got, solo, equal_nan=True)
                if not ok:
                    found += 1
                    ctx.fail_input(f'{fam}.partial_derivative', {'theta': th, 'rows': rows, 'batch': name, 'via': 'Bivariate.partial_derivative'},
                                   {'fallback': got.tolist(), 'closed_form': closed.tolist(), 'row_alone': solo.tolist()},
                                   'the finite-difference fallback approximates dC/dv for each row, in row order (5e-3), and equals '
                                   'the row evaluated alone', 'Bivariate.partial_derivative:fallback-not-rowwise-dC/dv')
                    break
    # refusal: an unfitted model (theta None) or an inadmissible theta is refused by every entry point exactly as
    # check_fit() refuses it — same exception type — whatever the batch looks like (interior rows, a column that is
    # all zero, a single boundary row, an empty batch)
    from copulas.bivariate import Bivariate
    batches = {'interior': np.array([[0.3, 0.6], [0.7, 0.2]]), 'zero-column': np.array([[0.0, 0.4], [0.0, 0.9]]),
               'zero-v-column': np.array([[0.4, 0.0], [0.2, 0.0]]), 'single-boundary-row': np.array([[0.0, 0.5]]),
               'ones': np.array([[1.0, 1.0]]), 'empty': np.zeros((0, 2))}
    for fam in B.FAMS:
        makers = {'constructor': lambda: B.cls_of(fam)(), 'factory': lambda: Bivariate(copula_type=fam),
                  'from_dict-unfitted': lambda: Bivariate.from_dict(B.cls_of(fam)().to_dict())}
        states = [(name, None) for name in makers] + [('constructor', th) for th in B.theta_invalid(fam) + [float('-inf')]]
        for route, th in states:
            obj = makers[route]()
            if th is not None:
                obj.theta = th
            try:
                obj.check_fit()
                continue            # admissible after all: nothing to refuse
            except Exception as e:  # noqa
                want = vc.exc_kind(e)
            for bname, Xb in batches.items():
                for m in ('probability_density', 'pdf', 'log_probability_density', 'partial_derivative'):
                    checked += 1
                    try:
                        with np.errstate(all='ignore'):
                            out = getattr(obj, m)(Xb.copy())
                        got = 'returned ' + repr(np.asarray(out).tolist())[:80]
                    except Exception as e:  # noqa
                        got = vc.exc_kind(e)
                    if got != want:
                        found += 1
                        ctx.fail_input(f'{fam}.{m}', {'theta': None if th is None else (th if th == th else 'nan'), 'route': route, 'batch': bname,
                                                         'rows': Xb.tolist()}, got,
                                       f'refused like check_fit() ({want}) for every batch', f'{fam}.{m}:refusal-differs-from-check_fit')
                        break
                else:
                    continue
                break
    # batch size: a long batch (longer than any internal block; lengths just above powers of two) gives row i the value
    # the same row gets in a short batch (to 1e-12 relative: a vectorised implementation may round the last bit differently
    # in differently shaped batches)
    for fam in B.FAMS:
        th = B.theta_grid(fam)[len(B.theta_grid(fam)) // 2] if fam != 'gumbel' else 2.5
        c = B.make(fam, th)
        for n in (257, 4097, 5000, 8193):
            X = np.random.RandomState(n).uniform(1e-3, 1 - 1e-3, size=(n, 2))
            for m in ('probability_density', 'log_probability_density', 'partial_derivative'):
                checked += 1
                with np.errstate(all='ignore'):
                    whole = np.asarray(getattr(c, m)(X.copy()), dtype=float)
                    pieces = np.concatenate([np.asarray(getattr(c, m)(X[i:i + 61].copy()), dtype=float).ravel() for i in range(0, n, 61)])
                if whole.shape != (n,) or not (whole.shape == pieces.shape and np.allclose(whole, pieces, rtol=1e-12, atol=1e-300, equal_nan=True)):
                    i = int(np.argmax(~np.isclose(whole, pieces, rtol=1e-12, atol=1e-300, equal_nan=True))) if whole.shape == pieces.shape else -1
                    found += 1
                    ctx.fail_input(f'{fam}.{m}', {'theta': th, 'n': n, 'generator': 'RandomState(n).uniform(1e-3, 1-1e-3, (n,2))', 'row': i,
                                                 'row_values': X[i].tolist() if i >= 0 else None},
                                   {'whole_batch': float(whole[i]) if i >= 0 else list(whole.shape), 'in_pieces_of_61': float(pieces[i]) if i >= 0 else list(pieces.shape)},
                                   'the value of row i does not depend on the batch it is evaluated in', f'{fam}.{m}:batch-size-dependent')
                    break
    # purity: a call leaves the caller's array as it was, returns memory of its own, and an earlier result does not
    # change when the same or another object of the family is called again on an equally shaped batch
    for fam in B.FAMS:
        for th in B.theta_all(fam)[:6] + ([1.0] if fam == 'gumbel' else []):
            Xa = np.array([[B.point(rng, 'open'), B.point(rng, 'open')] for _ in range(5)])
            Xb = np.array([[B.point(rng, 'open'), B.point(rng, 'open')] for _ in range(5)])
            for m in ('probability_density', 'log_probability_density', 'partial_derivative'):
                for label, other in (('same-object', None), ('other-object', lambda: B.make(fam, th))):
                    checked += 1
                    try:
                        probs = B.purity_problems(lambda: B.make(fam, th), m, [Xa], [Xb], other)
                    except Exception as e:  # noqa
                        probs = [('raises', f'{vc.exc_kind(e)}: {e}')]
                    # that the caller's array is untouched and not handed back as a view is C20's subject (its check
                    # reports those); here: the VALUES a caller holds or gets do not depend on other calls
                    probs = [(k, d) for k, d in probs if k not in ('input-mutated', 'result-aliases-input')]
                    for kind, detail in probs:
                        found += 1
                        ctx.fail_input(f'{fam}.{m}', {'theta': th, 'first_batch': Xa.tolist(), 'second_batch': Xb.tolist(),
                                                         'second_call_on': label}, detail,
                                       'an earlier result keeps its values and a repeated call gives the same values, whatever was called in between', f'{fam}.{m}:{kind}')
                    if probs:
                        break
    # parameter forms: an integer-typed theta (Python int, np.int64, np.int32, 0-d array) is the same parameter as the
    # equal float
    for fam in B.FAMS:
        ints = {'clayton': [1, 2, 5], 'gumbel': [1, 2, 3, 5], 'frank': [-3, 1, 4]}[fam]
        pts_f = np.array([(0.2, 0.7), (0.55, 0.4), (0.9, 0.95), (0.05, 0.3)])
        for k in ints:
            forms = {'int': int(k), 'np.int64': np.int64(k), 'np.int32': np.int32(k),
                     '0-d array': np.array(float(k))}
            with np.errstate(all='ignore'):
                ref = {m: np.asarray(getattr(B.make(fam, float(k)), m)(pts_f.copy() if m != 'generator' else np.array([0.2, 0.6, 0.9])),
                                     dtype=float) for m in ('probability_density', 'partial_derivative', 'log_probability_density')}
            for name, val in forms.items():
                checked += 1
                for m in ('probability_density', 'partial_derivative', 'log_probability_density'):
                    try:
                        with np.errstate(all='ignore'):
                            got = np.asarray(getattr(B.make(fam, val), m)(pts_f.copy() if m != 'generator' else np.array([0.2, 0.6, 0.9])),
                                             dtype=float)
                    except Exception as e:  # noqa
                        got = None
                        obs = f'{vc.exc_kind(e)}: {e}'[:160]
                    tol = 1e-6 if name == 'np.float32' else 1e-12
                    if got is None or got.shape != ref[m].shape or not np.all(np.abs(got - ref[m]) <= tol * np.maximum(1.0, np.abs(ref[m]))):
                        found += 1
                        ctx.fail_input(f'{fam}.{m}', {'theta': float(k), 'theta_given_as': name},
                                       obs if got is None else {'with_this_form': got.tolist(), 'with_float': ref[m].tolist()},
                                       'the result depends on the VALUE of theta, not on the numeric type it is stored in',
                                       f'{fam}.{m}:depends-on-theta-type[{name}]')
                        break
    # history: one object re-parameterised several times must behave like a fresh object
    for fam in B.FAMS:
        obj = B.cls_of(fam)()
        pts = np.array([(rng.uniform(0.05, 0.95), rng.uniform(0.05, 0.95)) for _ in range(6)])
        for step in range(6 if not deep else 20):
            th = B.theta_random(fam, rng)
            obj.theta = th
            fresh = B.make(fam, th)
            checked += 1
            with np.errstate(all='ignore'):
                same = all(np.array_equal(np.asarray(getattr(obj, m)(pts), dtype=float),
                                          np.asarray(getattr(fresh, m)(pts), dtype=float), equal_nan=True)
                           for m in ('probability_density', 'partial_derivative', 'log_probability_density'))
            if not same:
                found += 1
                ctx.fail_input(f'{fam}.probability_density', {'history_step': step, 'theta': th, 'points': pts.tolist()},
                               'reused object differs from a fresh object with the same theta',
                               'pdf / partial_derivative depend only on (theta, u, v)', f'{fam}.pdf:history-dependence')
                break
    # buffer reuse: the same ndarray object overwritten in place between calls = a fresh array with those rows
    for fam in B.FAMS:
        th = B.theta_grid(fam)[-3]
        obj = B.make(fam, th)
        buf = np.array([(rng.uniform(0.05, 0.95), rng.uniform(0.05, 0.95)) for _ in range(5)])
        for step in range(4):
            with np.errstate(all='ignore'):
                for m in ('probability_density', 'partial_derivative', 'cumulative_distribution'):
                    a = np.asarray(getattr(obj, m)(buf), dtype=float)
                    b = np.asarray(getattr(B.make(fam, th), m)(buf.copy()), dtype=float)
                    checked += 1
                    if not np.array_equal(a, b, equal_nan=True):
                        found += 1
                        ctx.fail_input(f'{fam}.{m}', {'theta': th, 'step': step, 'rows_now_in_buffer': buf.tolist(),
                                                      'note': 'same ndarray object refilled in place between calls'},
                                       {'reused_buffer': a.tolist(), 'fresh_array': b.tolist()},
                                       'the result depends only on the values passed', f'{fam}.{m}:depends-on-buffer-identity')
                        break
            buf[:] = np.array([(rng.uniform(0.05, 0.95), rng.uniform(0.05, 0.95)) for _ in range(5)])
    ctx.support = {'oracle_checks': checked, 'failures': found, 'deep': deep}


def replay(ctx, payload):
    before = len(ctx.failing)
    search(ctx, True)
    return any(f['class'] == payload.get('class') for f in ctx.failing[before:])
