"""C11 — select_copula returns a calibrated candidate and recovers the true family."""
import math
import os
import warnings

import numpy as np

import vcommon as vc

warnings.filterwarnings('ignore')

GEN_TARGETS = ('SelectCopula', 'Bivariate')
DRIVER_MAIN = 'Main/SelectCopula.lean'
DRIVER_TARGETS = ['CopVerif.Driver.SelectCopula']
ALWAYS_SEARCH = True
RULE = ('pseudo-observation arrays X (n,2): samples of Clayton/Frank/Gumbel drawn with the real `sample` (theta '
        'from tau in (0.05,0.9), n in 50..2000), their v -> 1-v reflections (tau < 0), independent uniforms, '
        'adversarial arrays n = 2..10 over the pool {0, 1, grid values, .5, random} with ties, monotone rows '
        '(tau = 1, Gumbel refused), tau = 0 exactly, and a malformed stream (value outside [0,1], constant column, '
        'single row). For each X the harness reads the external quantities off the real objects (Frank().fit: '
        'tau, theta; the grid from _compute_empirical; candidate thetas from _compute_theta) and asks the Lean '
        'driver (model + GENERATED formulas at Float) for (A) the empirical curves, (A2) each candidate\'s curves, '
        '(B) distances/ranks/arg-max from the REAL curves, (C) the whole select_copula model; compared with '
        '_compute_empirical, _compute_candidates and the object returned by select_copula and by the deprecated '
        'Bivariate.select_copula. A case is distinct by (kind, bytes of X) and non-trivial when the ranking path '
        'is taken (tau > 0). The search also runs HISTORIES: chains of data sets whose taus differ by 2/(n(n-1)) '
        '(one pair of points swapped) or sliding windows of one long sample, visited forwards and backwards in one '
        'process; after every call theta is compared with a harness-side calibration of that data set\'s own tau; STRONGLY NEGATIVE '
        'dependence (tau in {-.5,-.8,-.9,-.95,-.98}; reflected Clayton, Frank and Gaussian-copula draws from harness '
        'samplers) in tie and search: Frank theta against the harness calibration and, by the Debye function, back to tau; NEAR-EQUAL '
        'data (distinct values of a column 1e-9..1e-12 apart, 1e-9-jittered clusters, 1e-18*rank far tails, n = 30000 '
        'continuous) in tie and search: tau bit-equal to scipy kendalltau of the RAW columns and to the harness tau-b; data FORMS '
        '(Fortran order, strided view, read-only, object dtype, float32/float16/longdouble, list, DataFrame) against the '
        'float64 C-ordered image of the same values, and every ROUTE to the deprecated alias (class, instance, concrete '
        'families, Bivariate(copula_type=...)) against the module function; PERFECT '
        'dependence (identical / monotone / sorted / rank columns and their reversals, n in {2,3,10,200}, tau = +-1 exactly, '
        'and 1 - tiny with a tie or one inversion): the full statement incl. theta finite and admissible; a work BUFFER refilled in '
        'place between calls against fresh copies; TINY positive tau = 2/C(n,2) (tie-free, prescribed C-D) against the exact '
        'rational calibration at 1e-10; tau/theta scalar FORM with to_dict/json/from_dict/save/load round trips; sample SIZES '
        'n = 1024, 2048, 4096, 3000, 4097 (whole-model tie, promoted to failing inputs) and 4095/4096/4097 prefixes of strongly '
        'dependent Clayton / Gumbel data (definition of the tail curves, family recovery); an '
        'ALIASING batch (8 calls on harness-sampled arrays covering all three families, all results kept and re-checked: '
        'unchanged, pairwise distinct objects, equal to a second call on the same X); and LARGE-n cases (n = 10000, '
        '12000, 20001 from harness-side samplers): _compute_empirical against the definition over all rows (1e-12) and '
        'against the Lean model (tie), family recovery on two strongly dependent cells.')
PARTIAL = ['family_recovery_partial: ">= 70 % of seeds per (family, tau) cell for tau in [0.3,0.7], n >= 3000" is a '
           'statistical statement about samples; not modelled, examined only by the failing-input search (thorough '
           'tier / after a broken obligation)',
           'deterministic: true of the model by construction (a Lean function of (external quantities, grid, rows)); '
           'not stated as a theorem; two calls on the same X are compared on the real code',
           'NaN distances: modelled (rank NaN, arg-max = first NaN) and tied at Float; rank_spec is stated at ℝ '
           'where no NaN exists']
ASSUMPTIONS = ['real-number semantics of binary64 formulas (DESIGN 3.1)',
               'np.linspace, scipy.stats.kendalltau, Frank\'s least_squares calibration, pandas rank and numpy '
               'arg-max are external symbols; the grid hypothesis (strictly increasing, steps points, end points) '
               'is validated on the real grid every run',
               'binary32 roundings are not modelled: under numpy >= 2 (NEP 50) `np.linspace(EPSILON, 1.0 - EPSILON, 50)` '
               'is a float32 array, so `base[k] ** 2`, `(1 - z_right[k]) ** 2`, `1.0 - 2 * z`, `np.power(tail, 2)` and '
               'Gumbel\'s `np.log(U)` on the diagonal are evaluated in float32 by the real code; curves are therefore '
               'compared with rtol 1e-6 (+ a conditioning term for the upper-tail curve), not bit-for-bit',
               'count / N > 0 iff count > 0 in binary64 (count >= 1, N < 2^53: no underflow)',
               'Frank\'s calibration is a FUNCTION of tau (`Ext.frankSolve`): pinned by the translator (shape of '
               'Frank.compute_theta), validated per case against a harness-side least_squares solution of the same '
               'residual, and across call histories by the search']

FAMS = ('frank', 'clayton', 'gumbel')
NAN = float('nan')


# ----------------------------------------------------------------------------------- real side
def classes():
    from copulas.bivariate import Clayton, Frank, Gumbel
    return {'clayton': Clayton, 'frank': Frank, 'gumbel': Gumbel}


def fam_of(obj):
    for k, c in classes().items():
        if type(obj) is c:
            return k
    return None


def sampler(fam, tau, seed):
    c = classes()[fam]()
    c.tau = tau
    c.theta = c.compute_theta()
    c.set_random_state(seed)
    return c


def real_grid():
    """the base grid, read off the real code: with the single row (0,0) every grid point is appended to z_left."""
    from copulas.bivariate import _compute_empirical
    return [float(z) for z in _compute_empirical(np.array([[0.0, 0.0]]))[0]]


def same(a, b):
    a, b = float(a), float(b)
    return a == b or (a != a and b != b)


def close(a, b, rtol, atol=0.0):
    a, b = float(a), float(b)
    if a != a or b != b:
        return a != a and b != b
    if math.isinf(a) or math.isinf(b):
        return a == b
    return abs(a - b) <= atol + rtol * max(abs(a), abs(b))


def hexes(xs):
    return ' '.join(vc.f2h(x) for x in xs)


def hex_array(X):
    return ' '.join('%016x' % w for w in np.ascontiguousarray(X, dtype=np.float64).ravel().view(np.uint64))


def unhex(part):
    return [vc.h2f(w) for w in part.split()]


def real_fit(X):
    """what `Frank().fit(X)` does and leaves behind."""
    from copulas.bivariate import Frank
    f = Frank()
    try:
        f.fit(X)
        return f, None
    except Exception as e:  # noqa
        return f, vc.exc_kind(e)


def fit_inputs(X):
    """the external quantities of the model's `FitInput` (same calls as check_marginal / fit make)."""
    from scipy import stats
    U, V = X[:, 0], X[:, 1]
    with np.errstate(all='ignore'):
        tau = float(stats.kendalltau(U, V)[0])
    return dict(uMin=float(min(U)), uMax=float(max(U)), vMin=float(min(V)), vMax=float(max(V)), tau=tau,
                uConst=len(np.unique(U)) == 1, vConst=len(np.unique(V)) == 1)


def real_candidates(tau, frank):
    """the candidate list exactly as select_copula builds it (real classes, real _compute_theta)."""
    cl = classes()
    cands = [frank]
    for fam in ('clayton', 'gumbel'):
        try:
            c = cl[fam]()
            c.tau = tau
            c._compute_theta()
            cands.append(c)
        except ValueError:
            pass
    return cands


def order_sig(d):
    out = []
    for i in range(len(d)):
        for j in range(i + 1, len(d)):
            a, b = float(d[i]), float(d[j])
            out.append('n' if (a != a or b != b) else ('<' if a < b else ('>' if a > b else '=')))
    return out


def flips_ok(dreal, dmodel, rel):
    """-> (identical orderings, every differing pair is a near-tie within `rel`)"""
    s1, s2 = order_sig(dreal), order_sig(dmodel)
    if s1 == s2:
        return True, True
    k = 0
    ok = True
    for i in range(len(dreal)):
        for j in range(i + 1, len(dreal)):
            if s1[k] != s2[k]:
                a, b = float(dreal[i]), float(dreal[j])
                if not (a == a and b == b and abs(a - b) <= rel * max(abs(a), abs(b))):
                    ok = False
            k += 1
    return False, ok


# ----------------------------------------------------------------------------------- generators
def small_pool(grid, rng):
    return [0.0, 1.0, 0.5, grid[0], grid[1], grid[-2], grid[-1], grid[len(grid) // 2]] + \
        [rng.random() for _ in range(6)]


def adversarial(rng, grid):
    n = rng.randint(2, 10)
    kind = rng.choice(['pool', 'ties', 'monotone', 'tau0', 'anti', 'swaps', 'swaps', 'swaps', 'edge', 'edge'])
    pool = small_pool(grid, rng)
    if kind == 'pool':
        X = [[rng.choice(pool), rng.choice(pool)] for _ in range(n)]
    elif kind == 'ties':
        vals = [rng.choice(pool) for _ in range(3)]
        X = [[rng.choice(vals), rng.choice(vals)] for _ in range(n)]
    elif kind == 'monotone':
        us = sorted(rng.sample(pool, min(n, len(set(pool)))))
        us = sorted(set(us))
        X = [[u, u if rng.random() < 0.5 else min(1.0, u * 0.5 + 0.5)] for u in us]
        X = [[a, b] for a, b in zip(sorted(r[0] for r in X), sorted(r[1] for r in X))]
    elif kind == 'tau0':          # a permutation with as many concordant as discordant pairs: tau = 0 exactly
        m = rng.choice([4, 5, 8])
        while True:
            perm = list(range(m))
            rng.shuffle(perm)
            sgn = sum((1 if perm[i] < perm[j] else -1) for i in range(m) for j in range(i + 1, m))
            if sgn == 0:
                break
        us = sorted(rng.random() for _ in range(m))
        vs = sorted(rng.random() for _ in range(m))
        X = [[us[i], vs[perm[i]]] for i in range(m)]
    elif kind == 'swaps':         # mostly increasing (tau > 0), values partly from the pool
        us = sorted(rng.choice(pool) if rng.random() < 0.3 else rng.random() for _ in range(n))
        vs = sorted(rng.choice(pool) if rng.random() < 0.3 else rng.random() for _ in range(n))
        for _ in range(rng.randint(0, 2)):
            i, j = rng.randrange(n), rng.randrange(n)
            vs[i], vs[j] = vs[j], vs[i]
        X = [[u, v] for u, v in zip(us, vs)]
    elif kind == 'edge':          # rows on the border of the unit square: some grid counts stay 0
        us = sorted(rng.choice([0.0, 1.0, grid[0], grid[-1], rng.random()]) for _ in range(n))
        vs = sorted(rng.choice([0.0, 1.0, grid[0], grid[-1], rng.random()]) for _ in range(n))
        if rng.random() < 0.5:
            i, j = rng.randrange(n), rng.randrange(n)
            vs[i], vs[j] = vs[j], vs[i]
        X = [[u, v] for u, v in zip(us, vs)]
    else:
        us = sorted(rng.random() for _ in range(n))
        vs = sorted((rng.random() for _ in range(n)), reverse=True)
        X = [[u, v] for u, v in zip(us, vs)]
    return 'adv-' + kind, np.array(X, dtype=float)


def malformed(rng):
    kind = rng.choice(['below', 'above', 'const-u', 'const-v', 'single'])
    n = rng.randint(2, 8)
    X = np.array([[rng.random(), rng.random()] for _ in range(n)])
    if kind == 'below':
        X[rng.randrange(n), rng.randrange(2)] = -rng.choice([1e-9, 0.1, 3.0])
    elif kind == 'above':
        X[rng.randrange(n), rng.randrange(2)] = 1.0 + rng.choice([1e-9, 0.1, 3.0])
    elif kind == 'const-u':
        X[:, 0] = rng.random()
    elif kind == 'const-v':
        X[:, 1] = rng.random()
    else:
        X = X[:1]
    return 'bad-' + kind, X


def datasets(ctx, grid, stream, nfam, nsmall, nbad, sizes):
    rng = ctx.rng(stream)
    out = []
    for fam in FAMS:
        for i in range(nfam):
            tau = rng.uniform(0.05, 0.9)
            n = sizes[i % len(sizes)]
            if fam != 'clayton':
                n = min(n, 1000)          # Brent per point: keep the quick tier quick
            X = sampler(fam, tau, rng.randrange(2 ** 31)).sample(n)
            out.append((f'sample-{fam}', X))
            if i % 2 == 0:
                Y = X.copy()
                Y[:, 1] = 1.0 - Y[:, 1]
                out.append((f'reflect-{fam}', Y))
    for n in (rng.choice([20, 60]), rng.choice([150, 400])):
        r = np.random.RandomState(rng.randrange(2 ** 31))
        out.append(('independent', r.uniform(size=(n, 2))))
    for k, tau in enumerate(NEGATIVE_TAUS):           # strongly negative dependence: Frank's solver far from its start
        samp = NEGATIVE_SAMPLERS[rng.randrange(len(NEGATIVE_SAMPLERS))]
        out.append((f'negative-{samp}', negative_sample(samp, tau, rng.choice([150, 300, 600]), rng.randrange(2 ** 31))))
    for kind_, n_ in (('identical', 10), ('sorted', 200), ('identical', 3), ('discordant', 200), ('one-tie', 200),
                      ('one-swap', 10), ('rank-pseudo', 200)):      # tau = +-1 exactly and 1 - tiny
        out.append((f'perfect-{kind_}', perfect_dataset(kind_, n_, rng.randrange(2 ** 31))))
    for spec in FORM_DATA[:3]:                         # float64 images of the float32 / float16 forms (see forms_tie)
        Xf = own_sample(*spec)
        out.append(('image-float32', np.asarray(Xf.astype(np.float32), dtype=np.float64)))
        out.append(('image-float16', np.asarray(Xf.astype(np.float16), dtype=np.float64)))
    for kind, n, seed in NEAR_EQUAL:                   # distinct values of a column closer than 1e-8
        if n <= 400:
            out.append((f'nearequal-{kind}', near_equal_dataset(kind, n, rng.randrange(2 ** 31))))
    for _ in range(nsmall):
        out.append(adversarial(rng, grid))
    for _ in range(nbad):
        out.append(malformed(rng))
    return out


# ----------------------------------------------------------------------------------- tie
class Tie:
    def __init__(self, ctx, lean, grid):
        self.ctx, self.lean, self.grid = ctx, lean, grid
        self.bad = {}
        self.log = []
        self.gridhex = hexes(grid)

    def fail(self, name, kind, X, detail):
        self.log.append((name, str(detail)[:400]))
        if name not in self.bad:
            self.bad[name] = {'kind': kind, 'n': len(X), 'X': X[:6].tolist(), 'diff': detail}

    def one(self, kind, X):
        from copulas.bivariate import Bivariate, _compute_candidates, _compute_empirical, select_copula
        ctx, lean = self.ctx, self.lean
        fi = fit_inputs(X)
        frank, ferr = real_fit(X)
        # ---- the real return value (function and deprecated alias)
        try:
            with np.errstate(all='ignore'):
                res = select_copula(X)
            real = ('ok', fam_of(res), res.tau, res.theta)
        except Exception as e:  # noqa
            res, real = None, ('err', vc.exc_kind(e))
        try:
            with warnings.catch_warnings(record=True) as w:
                warnings.simplefilter('always')
                with np.errstate(all='ignore'):
                    res2 = Bivariate.select_copula(X)
                depr = any(issubclass(x.category, DeprecationWarning) for x in w)
            alias = ('ok', fam_of(res2), res2.tau, res2.theta)
        except Exception as e:  # noqa
            alias, depr = ('err', vc.exc_kind(e)), True
        same_alias = alias[0] == real[0] and (alias[1] == real[1]) and \
            (real[0] == 'err' or (same(alias[2], real[2]) and same(alias[3], real[3])))
        if not (same_alias and depr):
            self.fail('corr:alias', kind, X, f'select_copula {real} vs Bivariate.select_copula {alias} (DeprecationWarning: {depr})')
        # ---- (C) the whole model
        th = frank.theta if frank.theta is not None else NAN
        req = (f'selcop select {int(fi["uConst"])} {int(fi["vConst"])} ' +
               hexes([fi['uMin'], fi['uMax'], fi['vMin'], fi['vMax'], fi['tau'], th, float('inf')]) +
               f' {len(self.grid)} {self.gridhex} {hex_array(X)}')
        rep = lean.ask(req)
        head = rep.split(' | ')[0].split()
        ctx.count('path:' + head[0])
        if head[0] == 'err':
            if real != ('err', head[1]) or ferr != head[1]:
                self.fail('corr:select', kind, X, f'model raises {head[1]}; Frank.fit {ferr}; real {real}')
            ctx.case((kind, X.tobytes()), nontrivial=False)
            return
        if ferr is not None or real[0] != 'ok':
            self.fail('corr:select', kind, X, f'model returns {head[:2]}; Frank.fit raises {ferr}; real {real}')
            return
        # harness-side calibration: tau from the Frank fit, thetas from the real classes
        if not same(frank.tau, fi['tau']):
            self.fail('corr:calibration', kind, X, f'Frank.fit tau {frank.tau!r} != kendalltau {fi["tau"]!r}')
        own, ref = theta_is_own(frank.theta, frank.tau)
        if not own:
            self.fail('corr:calibration', kind, X, f'Frank.fit theta {frank.theta!r} is not the least_squares solution '
                      f'of the generated tau residual for its own tau {frank.tau!r} (harness-side: {ref!r})')
        cands = real_candidates(frank.tau, frank)
        calib = {fam_of(c): c for c in cands}
        if not (real[1] in calib and same(real[2], frank.tau) and same(real[3], calib[real[1]].theta)):
            self.fail('corr:calibration', kind, X,
                      f'real result {real} is not the harness-side calibration '
                      f'{[(k, c.tau, c.theta) for k, c in calib.items()]}')
        mfam, mtau, mtheta = head[1], vc.h2f(head[2]), vc.h2f(head[3])
        if head[0] == 'early':
            ctx.case((kind, X.tobytes()), nontrivial=False)
            if not (real[1] == mfam == 'frank' and same(mtau, real[2]) and same(mtheta, real[3])):
                self.fail('corr:select', kind, X, f'model early {mfam} {mtau!r} {mtheta!r}; real {real}')
            return
        ctx.case((kind, X.tobytes()), nontrivial=True)
        parts = rep.split(' | ')
        midx = int(parts[1])
        cw = parts[2].split()
        mcands = [(cw[i], vc.h2f(cw[i + 1])) for i in range(0, len(cw), 2)]
        rcands = [(fam_of(c), float(c.theta)) for c in cands]
        if [m[0] for m in mcands] != [r[0] for r in rcands] or \
                not all(same(m[1], r[1]) for m, r in zip(mcands, rcands)):
            self.fail('corr:candidates', kind, X, f'model candidates {mcands} vs real {rcands}')
            return
        ctx.count(f'candidates:{len(rcands)}')
        m_d = [unhex(parts[3]), unhex(parts[4]), unhex(parts[5])]
        m_score = unhex(parts[6])
        # ---- (A) empirical curves
        with np.errstate(all='ignore'):
            zl, L, zr, R = _compute_empirical(X)
        er = lean.ask(f'selcop emp {len(self.grid)} {self.gridhex} {hex_array(X)}')
        ep = er.split(' | ')
        if not ep[0].startswith('ok'):
            self.fail('corr:empirical', kind, X, f'model {er[:60]} vs real lists of {len(zl)}, {len(zr)}')
            return
        mzl, mL, mzr, mR = (unhex(p) for p in ep[1:5])
        d = None
        if mzl != [float(z) for z in zl] or mzr != [float(z) for z in zr]:
            d = f'z lists differ: model {len(mzl)}/{len(mzr)} points, real {len(zl)}/{len(zr)}'
        elif len(mL) != len(L) or len(mR) != len(R):
            d = 'L/R lengths differ'
        else:
            for nm, a, b in (('L', L, mL), ('R', R, mR)):
                for k, (x, y) in enumerate(zip(a, b)):
                    ctx.count('empirical.values')
                    if same(x, y):
                        ctx.count('empirical.bitexact')
                    if not close(x, y, 1e-6) and d is None:
                        d = f'{nm}[{k}]: real {float(x)!r} vs model {y!r}'
        if d:
            self.fail('corr:empirical', kind, X, d)
        # ---- (A2) candidate curves from the generated CDFs
        with np.errstate(all='ignore'):
            cl, cr = _compute_candidates(cands, zl, zr)
        fzl, fzr = [float(z) for z in zl], [float(z) for z in zr]
        for c, rl, rr in zip(cands, cl, cr):
            fam = fam_of(c)
            q = lean.ask(f'selcop cand {fam} {vc.f2h(c.theta)} {len(fzl)} {hexes(fzl)} {hexes(fzr)}'.strip())
            if not q.startswith('ok'):
                self.fail('corr:candidate-curves', kind, X, f'{fam} theta={c.theta!r}: model {q[:60]}')
                continue
            body = q[2:].split('|')
            ml, mr = unhex(body[0]), unhex(body[1]) if len(body) > 1 else []
            d = None
            if len(ml) != len(rl) or len(mr) != len(rr):
                d = 'lengths differ'
            else:
                g = fam == 'gumbel'
                for k, (x, y, z) in enumerate(zip(rl, ml, fzl)):
                    if not close(x, y, 1e-6 + (5e-7 * abs(math.log(z)) if g else 0.0), 1e-300) and d is None:
                        d = f'left[{k}] z={z!r}: real {float(x)!r} vs model {y!r}'
                for k, (x, y, z) in enumerate(zip(rr, mr, fzr)):
                    atol_c = 1e-13 + (5e-7 * abs(math.log(z)) if g else 0.0)
                    if not close(x, y, 1e-6, atol_c / (1.0 - z) ** 2) and d is None:
                        d = f'right[{k}] z={z!r}: real {float(x)!r} vs model {y!r}'
            if d:
                self.fail('corr:candidate-curves', kind, X, f'{fam} theta={c.theta!r}: {d}')
        # ---- (B) decision from the REAL curves
        Lf, Rf = [float(x) for x in L], [float(x) for x in R]
        req = f'selcop decide {len(cands)} {len(Lf)} {len(Rf)} {hexes(Lf)} {hexes(Rf)}'
        for rl, rr in zip(cl, cr):
            req += ' ' + hexes(np.asarray(rl, dtype=float)) + ' ' + hexes(np.asarray(rr, dtype=float))
        dr = lean.ask(' '.join(req.split()))
        if not dr.startswith('ok'):
            self.fail('corr:decision', kind, X, f'driver: {dr[:80]}')
            return
        dp = dr[2:].split('|')
        b_d = [unhex(dp[0]), unhex(dp[1]), unhex(dp[2])]
        b_score, b_idx = unhex(dp[3]), int(dp[4])
        with np.errstate(all='ignore'):
            both = np.concatenate((L, R))
            r_d = [[float(np.sum((L - x) ** 2)) for x in cl], [float(np.sum((R - x) ** 2)) for x in cr],
                   [float(np.sum((both - np.concatenate((x, y))) ** 2)) for x, y in zip(cl, cr)]]
        ridx = [fam_of(c) for c in cands].index(real[1])
        dd = None
        for nm, a, b in zip(('left', 'right', 'both'), r_d, b_d):
            for i, (x, y) in enumerate(zip(a, b)):
                if not close(x, y, 1e-12, 1e-300) and dd is None:
                    dd = f'diff_{nm}[{i}]: numpy {x!r} vs model {y!r}'
        ident, okflip = True, True
        for a, b in zip(r_d, b_d):
            i1, o1 = flips_ok(a, b, 1e-9)
            ident, okflip = ident and i1, okflip and o1
        if dd is None and not okflip:
            dd = f'distance order differs beyond a near-tie: numpy {r_d} model {b_d}'
        if dd is None and ident and b_idx != ridx:
            dd = f'arg-max: model picks #{b_idx} ({rcands[b_idx][0] if b_idx < len(rcands) else "?"}), ' \
                 f'select_copula returned {real[1]}; scores {b_score}; distances {b_d}'
        if not ident and okflip:
            ctx.count('near-tie')
        if dd:
            self.fail('corr:decision', kind, X, dd)
        # ---- (C) continued: the whole model's choice against the real one
        ident, okflip = True, True
        for a, b in zip(r_d, m_d):
            i1, o1 = flips_ok(a, b, 1e-3)
            ident, okflip = ident and i1, okflip and o1
        dd = None
        if not okflip:
            dd = f'model distance order differs beyond a near-tie: numpy {r_d} model {m_d}'
        elif ident:
            if not (mfam == real[1] and midx == ridx and same(mtau, real[2]) and same(mtheta, real[3])):
                dd = f'model returns #{midx} {mfam} tau={mtau!r} theta={mtheta!r}; select_copula {real}; ' \
                     f'scores {m_score}'
            elif not all(same(x, y) for x, y in zip(m_score, b_score)):
                dd = f'scores differ: whole model {m_score} vs decision on real curves {b_score}'
        else:
            ctx.count('near-tie(model-curves)')
            if mfam not in calib or not same(mtheta, calib[mfam].theta):
                dd = f'model returns {mfam} theta={mtheta!r}, not a harness-side candidate'
        if dd:
            self.fail('corr:select', kind, X, dd)
        ctx.count('winner:' + real[1])
        if sorted(m_score, reverse=True)[0] == sorted(m_score, reverse=True)[1]:
            ctx.count('score-tie-at-top')
        if len(zl) < len(self.grid) or len(zr) < len(self.grid):
            ctx.count('partial-tail-lists')
        if any(x != x for x in m_score):
            ctx.count('nan-score')
        ctx.sample({'kind': kind, 'n': len(X), 'tau': frank.tau, 'real': list(real[1:]), 'model_idx': midx,
                    'scores': m_score})


def rank_semantics(ctx, lean):
    """pandas `rank(ascending=False)` (average, NaN kept) + `np.argmax` (first maximum / first NaN) as the model
    reads them: random distance triples with ties, inf and NaN."""
    import pandas as pd
    rng = ctx.rng('rank')
    bad = None
    pool = [0.0, 1.0, 2.5, float('inf'), NAN, 1e300, 3.0]
    for it in range(150 * ctx.scale):
        n = rng.choice([1, 2, 3, 3, 3, 4, 5])
        style = rng.choice(['pool', 'pool', 'random', 'nonan'])
        def vec():
            if style == 'random':
                return [rng.random() for _ in range(n)]
            if style == 'nonan':
                return [rng.choice([0.0, 1.0, 2.5, 3.0]) for _ in range(n)]
            return [rng.choice(pool) for _ in range(n)]
        dl, dr, db = vec(), vec(), vec()
        score = (pd.Series(dl).rank(ascending=False) + pd.Series(dr).rank(ascending=False) +
                 pd.Series(db).rank(ascending=False)).to_numpy()
        idx = int(np.argmax(score))
        r = lean.ask(f'selcop rank {n} {hexes(dl)} {hexes(dr)} {hexes(db)}')
        ctx.case(('rank', tuple(map(repr, dl + dr + db))), nontrivial=n > 1)
        ctx.count('rank:nan' if any(x != x for x in score) else 'rank:finite')
        ok = r.startswith('ok')
        if ok:
            sp = r[2:].split('|')
            ok = all(same(a, b) for a, b in zip(unhex(sp[0]), score)) and len(unhex(sp[0])) == n and int(sp[1]) == idx
        if not ok and bad is None:
            bad = {'diff_left': dl, 'diff_right': dr, 'diff_both': db, 'pandas+numpy': [score.tolist(), idx], 'model': r}
    ctx.ob('corr:rank-argmax-semantics', bad is None, 'tie', bad or 'ok')


def large_n_tie(ctx, lean, grid):
    """(A) at n = 10000, 12000, 20001: the model's empirical tail curves against `_compute_empirical`."""
    from copulas.bivariate import _compute_empirical
    bad = None
    gh = hexes(grid)
    for fam, tau, n, seed in LARGE_N:
        X = own_sample(fam, tau, n, seed)
        with np.errstate(all='ignore'):
            real = _compute_empirical(X)
        ep = lean.ask(f'selcop emp {len(grid)} {gh} {hex_array(X)}').split(' | ')
        ctx.case(('large-n', fam, n, seed), nontrivial=True)
        ctx.count('large-n')
        d = None
        if not ep[0].startswith('ok'):
            d = f'model {ep[0][:60]}'
        else:
            d = compare_empirical(real, [unhex(p) for p in ep[1:5]], 1e-6, 'model')
        if d and bad is None:
            bad = {'family': fam, 'tau': tau, 'n': n, 'seed': seed, 'diff (real vs model)': d}
    ctx.ob('corr:empirical-large-n', bad is None, 'tie', bad or 'ok')


def run(ctx, lean):
    names = ['corr:grid', 'corr:select', 'corr:calibration', 'corr:candidates', 'corr:empirical',
             'corr:candidate-curves', 'corr:decision', 'corr:alias']
    if lean is None:
        for n in names + ['corr:rank-argmax-semantics', 'corr:empirical-large-n', 'corr:tau-raw-columns',
                          'corr:data-forms', 'corr:alias-routes']:
            ctx.ob(n, False, 'tie', 'driver unavailable')
        return
    from copulas.utils import EPSILON
    try:
        grid = real_grid()
    except Exception as e:  # noqa
        for n in names:
            ctx.ob(n, False, 'tie', f'cannot read the grid off _compute_empirical: {vc.exc_kind(e)} {e}')
        return
    g = lean.ask('selcop grid ' + vc.f2h(float(EPSILON))).split()
    ok = g[0] == 'ok' and len(grid) == int(g[3]) and len(grid) >= 2 and grid[0] == vc.h2f(g[1]) and \
        grid[-1] == vc.h2f(g[2]) and all(a < b for a, b in zip(grid, grid[1:]))
    ctx.ob('corr:grid', ok, 'tie', f'generated linspace arguments {g} vs real grid of {len(grid)} points '
           f'[{grid[0]!r} … {grid[-1]!r}], strictly increasing: {all(a < b for a, b in zip(grid, grid[1:]))}')
    if not ok:
        for n in names[1:]:
            ctx.ob(n, False, 'tie', 'grid hypothesis not validated')
        return
    rank_semantics(ctx, lean)
    t = Tie(ctx, lean, grid)
    s = ctx.scale
    sizes = [50, 200, 2000, 500, 100, 1000] if s == 1 else [50, 100, 200, 500, 1000, 2000]
    for kind, X in datasets(ctx, grid, 'tie', 6 if s == 1 else 24, 150 * s, 12 * s, sizes):
        ctx.count('kind:' + kind.split('-')[0])
        t.one(kind, X)
    size_tie(ctx, t)
    for n in names[1:]:
        ctx.ob(n, n not in t.bad, 'tie', t.bad.get(n, 'ok'))
    large_n_tie(ctx, lean, grid)
    raw_tau_tie(ctx)
    forms_tie(ctx)
    routes_tie(ctx)


# ----------------------------------------------------------------------------------- oracle on real code
def describe(X):
    return {'n': int(len(X)), 'X': X.tolist() if len(X) <= 12 else X[:12].tolist(), 'truncated': len(X) > 12}


def oracle(ctx, kind, X, extra=None):
    """the property's own statement on one X; returns number of checks"""
    from copulas.bivariate import Bivariate, select_copula
    from scipy import stats
    cl = classes()
    inp = dict(describe(X), kind=kind, **(extra or {}))
    _, ferr = real_fit(X)
    try:
        with np.errstate(all='ignore'):
            r1 = select_copula(X)
    except Exception as e:  # noqa
        if ferr is None or vc.exc_kind(e) != ferr:
            ctx.fail_input('copulas.bivariate.select_copula', inp, f'raises {type(e).__name__}: {e}',
                           'returns a Frank, Clayton or Gumbel instance whenever Frank().fit(X) succeeds',
                           'select_copula:raises')
        return 1
    if ferr is not None:
        ctx.fail_input('copulas.bivariate.select_copula', inp, f'returns {type(r1).__name__}',
                       f'Frank().fit(X) raises {ferr}', 'select_copula:ignores-fit-error')
        return 1
    fam = fam_of(r1)
    if fam is None:
        ctx.fail_input('copulas.bivariate.select_copula', inp, type(r1).__name__,
                       'an instance of Frank, Clayton or Gumbel', 'select_copula:not-a-candidate')
        return 1
    with np.errstate(all='ignore'):
        tau = stats.kendalltau(X[:, 0], X[:, 1])[0]
    if not same(r1.tau, tau):
        ctx.fail_input('copulas.bivariate.select_copula', inp, {'tau': r1.tau, 'kendalltau': tau},
                       'result.tau == scipy.stats.kendalltau(U, V)[0]', 'select_copula:tau')
    fresh = cl[fam]()
    try:
        fresh.fit(X)
        th = fresh.theta
    except Exception as e:  # noqa
        th = f'raises {type(e).__name__}'
    if isinstance(th, str) or not same(th, r1.theta):
        ctx.fail_input('copulas.bivariate.select_copula', inp, {'family': fam, 'theta': r1.theta, 'fresh_fit_theta': th},
                       'result.theta == <Family>().fit(X).theta', 'select_copula:theta')
    if tau <= 0 and fam != 'frank':
        ctx.fail_input('copulas.bivariate.select_copula', inp, {'family': fam, 'tau': tau},
                       'tau <= 0 => Frank', 'select_copula:nonpositive-tau-not-frank')
    with np.errstate(all='ignore'):
        r2 = select_copula(X.copy())
        with warnings.catch_warnings():
            warnings.simplefilter('ignore')
            r3 = Bivariate.select_copula(X.copy())
    if not (fam_of(r2) == fam and same(r2.tau, r1.tau) and same(r2.theta, r1.theta)):
        ctx.fail_input('copulas.bivariate.select_copula', inp,
                       [[fam, r1.tau, r1.theta], [fam_of(r2), r2.tau, r2.theta]],
                       'the choice is a deterministic function of X', 'select_copula:nondeterministic')
    if not (fam_of(r3) == fam and same(r3.tau, r1.tau) and same(r3.theta, r1.theta)):
        ctx.fail_input('Bivariate.select_copula', inp, [[fam, r1.tau, r1.theta], [fam_of(r3), r3.tau, r3.theta]],
                       'the deprecated alias returns what copulas.bivariate.select_copula returns',
                       'Bivariate.select_copula:differs')
    return 6


# ----------------------------------------------------------------------------------- history oracle
def frank_theta_independent(tau):
    """Frank's calibration of `tau`, computed by the harness alone: the residual exactly as
    `Frank._tau_to_theta` has it, solved exactly as `Frank.compute_theta` solves it — a function of tau and of
    nothing else (no copulas object, no state)."""
    import sys as _sys
    from scipy import integrate
    from scipy.optimize import least_squares
    from copulas.utils import EPSILON
    lo, hi = np.log(_sys.float_info.min), np.log(_sys.float_info.max)

    def residual(alpha):
        def debye(t):
            return t / (np.exp(t) - 1)

        alpha = np.ravel(alpha)[0]
        debye_value = integrate.quad(debye, EPSILON, alpha)[0] / alpha
        return 4 * (debye_value - 1) / alpha + 1 - tau

    with np.errstate(all='ignore'):
        return float(least_squares(residual, 1, bounds=(lo, hi)).x[0])


def theta_is_own(theta, tau):
    ref = frank_theta_independent(np.float64(tau))
    return same(theta, ref) or abs(float(theta) - ref) <= 1e-9 * abs(ref), ref


def swap_chain(X, swaps):
    """the history [X, X with swap 1, X with swaps 1-2, …]: swap k exchanges the v-values of the rows of
    u-rank 2k and 2k+1 (one pair of points changes its concordance: tau moves by 2/(n(n-1)))."""
    order = np.argsort(X[:, 0], kind='stable')
    out = [X.copy()]
    cur = X.copy()
    for k in swaps:
        i, j = order[2 * k], order[2 * k + 1]
        cur = cur.copy()
        cur[i, 1], cur[j, 1] = cur[j, 1], cur[i, 1]
        out.append(cur)
    return out


def run_history(ctx, label, history, visit, spec):
    """call select_copula (and Frank().fit) on history[i] for i in `visit`, in this order, in this process; after
    each call the returned (type, tau, theta) must be the calibration of THAT dataset's tau; a dataset visited
    twice must give the identical answer.  `spec` is what `replay` needs to rebuild the history."""
    from copulas.bivariate import Frank, select_copula
    from scipy import stats
    seen = {}
    checks = 0
    for pos, i in enumerate(visit):
        X = history[i]
        with np.errstate(all='ignore'):
            tau = stats.kendalltau(X[:, 0], X[:, 1])[0]
            try:
                r = select_copula(X.copy())
                f = Frank()
                f.fit(X.copy())
            except Exception:  # noqa  (malformed data are the plain oracle's business)
                continue
        fam = fam_of(r)
        ans = (fam, float(r.tau), float(r.theta))
        checks += 3
        inp = dict(spec, visit=list(visit[:pos + 1]), position=pos, dataset=i, label=label)
        for who, obj in (('select_copula', r if fam == 'frank' else None), ('Frank.fit', f)):
            if obj is None:
                continue
            ok, ref = theta_is_own(obj.theta, tau)
            if not ok:
                ctx.fail_input('copulas.bivariate.select_copula', inp,
                               {'via': who, 'tau': float(tau), 'theta': float(obj.theta),
                                'own_calibration_of_tau': ref, 'delta': float(obj.theta) - ref},
                               'theta is the Frank calibration of THIS dataset\'s Kendall tau (least_squares solution '
                               'of the tau residual), whatever was fitted earlier in the process',
                               'select_copula:result-depends-on-history')
                return checks
        if not same(r.tau, tau):
            ctx.fail_input('copulas.bivariate.select_copula', inp, {'tau': float(r.tau), 'kendalltau': float(tau)},
                           'result.tau == kendalltau of this dataset', 'select_copula:result-depends-on-history')
            return checks
        if i in seen and not (seen[i][0] == ans[0] and same(seen[i][1], ans[1]) and same(seen[i][2], ans[2])):
            ctx.fail_input('copulas.bivariate.select_copula', inp, {'first_visit': seen[i], 'this_visit': ans},
                           'the same X gives the identical (type, tau, theta) at every position of a history',
                           'select_copula:result-depends-on-history')
            return checks
        seen.setdefault(i, ans)
    return checks


def history_base(kind, n, seed):
    """a base data set for a history, rebuilt from (kind, n, seed) alone."""
    if kind == 'clayton-reflected':          # tau < 0: select_copula always returns the Frank object
        X = sampler('clayton', 0.45, seed).sample(n)
        X[:, 1] = 1.0 - X[:, 1]
        return X
    if kind == 'clayton':
        return sampler('clayton', 0.45, seed).sample(n)
    if kind == 'frank':
        return sampler('frank', 0.5, seed).sample(n)
    r = np.random.RandomState(seed)
    return r.uniform(size=(n, 2))


def build_history(spec):
    X = history_base(spec['base'], spec['n_base'], spec['seed'])
    if spec['mode'] == 'swaps':
        return swap_chain(X, spec['swaps'])
    w, step = spec['width'], spec['step']
    return [X[k * step:k * step + w] for k in range(spec['windows'])]


def history_oracle(ctx, deep):
    rng = ctx.rng('history')
    checks = 0
    plans = [('clayton-reflected', 300), ('frank', 250), ('uniform', 200)]
    if deep:
        plans += [('clayton', 400), ('clayton-reflected', 500), ('frank', 300), ('uniform', 300)]
    for base, n in plans:
        m = 8 if not deep else 14
        spec = {'mode': 'swaps', 'base': base, 'n_base': n, 'seed': rng.randrange(2 ** 31),
                'swaps': sorted(rng.sample(range(n // 2), m))}
        hist = build_history(spec)
        # forward, then backwards over the same datasets (every one is visited twice, neighbours first)
        visit = list(range(len(hist))) + list(range(len(hist) - 1, -1, -1))
        checks += run_history(ctx, f'swaps-{base}', hist, visit, spec)
    wins = [('clayton-reflected', 2000, 2, 12)] + ([('clayton', 2000, 2, 40), ('clayton-reflected', 1000, 1, 40)] if deep else [])
    for base, width, step, nwin in wins:
        spec = {'mode': 'windows', 'base': base, 'n_base': width + step * nwin, 'seed': rng.randrange(2 ** 31),
                'width': width, 'step': step, 'windows': nwin}
        hist = build_history(spec)
        visit = list(range(nwin)) + [nwin - 1, nwin // 2, 0]
        checks += run_history(ctx, f'windows-{base}', hist, visit, spec)
    return checks


# ----------------------------------------------------------------------------------- own samplers, large n, aliasing
def own_sample(fam, tau, n, seed):
    """harness-side samplers (numpy only, no copulas code): Clayton by gamma frailty, Gumbel by positive-stable
    frailty (Chambers-Mallows-Stuck), Frank by closed-form conditional inversion; `-reflected` maps v -> 1-v."""
    if fam.endswith('-reflected'):
        X = own_sample(fam[:-len('-reflected')], tau, n, seed)
        X[:, 1] = 1.0 - X[:, 1]
        return X
    r = np.random.RandomState(seed)
    if fam == 'clayton':
        th = 2 * tau / (1 - tau)
        w = r.gamma(1.0 / th, size=n)
        e = r.exponential(size=(n, 2))
        X = (1.0 + e / w[:, None]) ** (-1.0 / th)
    elif fam == 'gumbel':
        a = 1.0 - tau                           # 1/theta
        v = r.uniform(0.0, np.pi, size=n)
        w = r.exponential(size=n)
        s = (np.sin(a * v) / np.sin(v) ** (1.0 / a)) * (np.sin((1 - a) * v) / w) ** ((1 - a) / a)
        e = r.exponential(size=(n, 2))
        X = np.exp(-(e / s[:, None]) ** a)
    else:
        th = frank_theta_independent(np.float64(tau))
        u = r.uniform(size=n)
        p = r.uniform(size=n)
        a = np.exp(-th * u)
        x = p * np.expm1(-th) / (a - p * (a - 1.0))
        X = np.column_stack((u, -np.log1p(x) / th))
    return np.clip(X, 1e-12, 1.0 - 1e-12)


LARGE_N = (('clayton', 0.6, 12000, 21), ('gumbel', 0.6, 10000, 22), ('clayton', 0.5, 20001, 23))
LARGE_N_RECOVERY = (0, 1)          # indices into LARGE_N: strongly dependent cells whose family must be returned


def raw_grid():
    """the grid values with the dtype the real code gives them."""
    from copulas.bivariate import _compute_empirical
    return list(_compute_empirical(np.array([[0.0, 0.0]]))[0])


def empirical_definition(X, grid):
    """the empirical tail-concentration functions by their definition, over ALL rows: L(z) = #{U<=z, V<=z}/N / z^2,
    R(z) = #{U>=z, V>=z}/N / (1-z)^2, recorded where the fraction is positive (z arithmetic in the grid's own dtype,
    as `base[k] ** 2` / `(1 - z_right[k]) ** 2` are)."""
    U, V = X[:, 0], X[:, 1]
    n = len(U)
    zl, L, zr, R = [], [], [], []
    for z in grid:
        zf = float(z)
        left = np.count_nonzero((U <= zf) & (V <= zf)) / n
        right = np.count_nonzero((U >= zf) & (V >= zf)) / n
        if left > 0:
            zl.append(zf)
            L.append(left / float(z ** 2))
        if right > 0:
            zr.append(zf)
            R.append(right / float((1 - z) ** 2))
    return zl, L, zr, R


def compare_empirical(real, ref, rtol, other='definition'):
    for nm, a, b in zip(('z_left', 'L', 'z_right', 'R'), real, ref):
        if len(a) != len(b):
            return f'{nm}: {len(a)} entries, {other} gives {len(b)}'
        for k, (x, y) in enumerate(zip(a, b)):
            if not close(x, y, 0.0 if nm.startswith('z') else rtol):
                return f'{nm}[{k}]: real {float(x)!r}, {other} {float(y)!r}'
    return None


def large_n_case(ctx, spec, recover):
    from copulas.bivariate import _compute_empirical, select_copula
    fam, tau, n, seed = spec
    X = own_sample(fam, tau, n, seed)
    inp = {'sampler': 'harness own_sample', 'family': fam, 'tau': tau, 'n': n, 'seed': seed}
    with np.errstate(all='ignore'):
        d = compare_empirical(_compute_empirical(X), empirical_definition(X, raw_grid()), 1e-12)
    if d:
        ctx.fail_input('copulas.bivariate._compute_empirical', inp, d,
                       'the empirical tail functions are the fractions of ALL n rows in [0,z]^2 and [z,1]^2 divided by '
                       'z^2 and (1-z)^2, for every n', '_compute_empirical:not-the-empirical-tail:large-n')
    if recover:
        with np.errstate(all='ignore'):
            got = fam_of(select_copula(X))
        if got != fam:
            ctx.fail_input('copulas.bivariate.select_copula', inp, {'selected': got},
                           f'a strongly dependent {fam} sample of {n} rows is recognised as {fam}',
                           'select_copula:family-not-recovered:large-n')
    return 2 if recover else 1


def large_n_oracle(ctx):
    return sum(large_n_case(ctx, spec, i in LARGE_N_RECOVERY) for i, spec in enumerate(LARGE_N))


ALIAS_BATCH = (('clayton', 0.5, 1500, 11), ('gumbel', 0.5, 1500, 12), ('frank', 0.5, 1500, 13),
               ('clayton-reflected', 0.45, 800, 14), ('clayton', 0.3, 1500, 15), ('gumbel', 0.7, 1500, 16),
               ('frank', 0.3, 1200, 17), ('clayton', 0.65, 600, 18))
ALIAS_POINTS = np.array([[0.2, 0.3], [0.5, 0.5], [0.7, 0.4], [0.9, 0.95]])


def snapshot(obj):
    with np.errstate(all='ignore'):
        try:
            c = [float(x) for x in obj.cumulative_distribution(ALIAS_POINTS.copy())]
            p = [float(x) for x in obj.probability_density(ALIAS_POINTS.copy())]
        except Exception as e:  # noqa
            c, p = [vc.exc_kind(e)], []
    return [fam_of(obj), float(obj.tau), float(obj.theta), c, p]


def snap_eq(a, b):
    return a[0] == b[0] and same(a[1], b[1]) and same(a[2], b[2]) and len(a[3]) == len(b[3]) and \
        len(a[4]) == len(b[4]) and all(x == y or (x != x and y != y) for x, y in zip(a[3] + a[4], b[3] + b[4]))


def aliasing_oracle(ctx, batch=ALIAS_BATCH):
    """every call returns its own object: keep all results of a batch of calls, then each kept result must still be
    what it was right after its own call, must be a different object from every other call's result, and must agree
    with a second call on its own X."""
    from copulas.bivariate import select_copula
    kept = []
    for spec in batch:
        X = own_sample(*spec)
        with np.errstate(all='ignore'):
            r = select_copula(X)
        kept.append((spec, X, r, snapshot(r)))
    ctx.count('alias-batch:' + ''.join(sorted({k[3][0][0] for k in kept})))
    inp = {'batch': [list(s) for s in batch], 'sampler': 'harness own_sample', 'points': ALIAS_POINTS.tolist()}
    req = 'each call returns its own calibrated object: a result kept by the caller is unchanged by later calls, is not ' \
          'the object returned by another call, and equals what a second call on the same X returns'
    cls = 'select_copula:result-aliased-across-calls'
    checks = 0
    for i, (spec, X, r, snap) in enumerate(kept):
        now = snapshot(r)
        checks += 3
        if not snap_eq(snap, now):
            ctx.fail_input('copulas.bivariate.select_copula', dict(inp, call=i),
                           {'right_after_its_call': snap, 'after_the_later_calls': now}, req, cls)
            return checks
        for j in range(i):
            if kept[j][2] is r:
                ctx.fail_input('copulas.bivariate.select_copula', dict(inp, call=i, other_call=j),
                               'the two calls returned the very same object', req, cls)
                return checks
    for i, (spec, X, r, snap) in enumerate(kept):
        with np.errstate(all='ignore'):
            again = snapshot(select_copula(X.copy()))
        now = snapshot(r)
        if not (snap_eq(snap, again) and snap_eq(snap, now)):
            ctx.fail_input('copulas.bivariate.select_copula', dict(inp, call=i),
                           {'first_call': snap, 'second_call_same_X': again, 'kept_result_now': now}, req, cls)
            return checks
    return checks


# ----------------------------------------------------------------------------------- strongly negative dependence
NEGATIVE_TAUS = (-0.5, -0.8, -0.9, -0.95, -0.98)
NEGATIVE_SAMPLERS = ('clayton-reflected', 'frank', 'gaussian')


def negative_sample(samp, tau, n, seed):
    """pseudo-observations with Kendall tau near `tau` < 0 (harness-side samplers only)."""
    if samp == 'clayton-reflected':
        return own_sample('clayton-reflected', -tau, n, seed)
    if samp == 'frank':
        return own_sample('frank', tau, n, seed)
    from scipy import stats
    rho = math.sin(math.pi * tau / 2.0)
    z = np.random.RandomState(seed).multivariate_normal([0.0, 0.0], [[1.0, rho], [rho, 1.0]], size=n)
    return np.clip(stats.norm.cdf(z), 1e-12, 1.0 - 1e-12)


def frank_tau_of_theta(theta):
    """Kendall's tau of the Frank copula by the Debye function D1 (integral from 0, expm1): independent of the
    library's residual."""
    from scipy import integrate
    d1 = integrate.quad(lambda t: t / math.expm1(t) if t else 1.0, 0.0, theta, epsabs=1e-13, epsrel=1e-13)[0] / theta
    return 1.0 + 4.0 * (d1 - 1.0) / theta


def negative_tau_case(ctx, spec):
    from copulas.bivariate import select_copula
    from scipy import stats
    samp, tau0, n, seed = spec
    X = negative_sample(samp, tau0, n, seed)
    inp = {'sampler': 'harness ' + samp, 'nominal_tau': tau0, 'n': n, 'seed': seed}
    with np.errstate(all='ignore'):
        tau = float(stats.kendalltau(X[:, 0], X[:, 1])[0])
        r = select_copula(X)
    cls = 'select_copula:frank-theta-not-calibrated:negative-tau'
    req = 'for tau < 0 the result is Frank with tau = Kendall tau of X and theta = the Frank calibration of that tau'
    if fam_of(r) != 'frank' or not same(r.tau, tau):
        ctx.fail_input('copulas.bivariate.select_copula', inp,
                       {'family': fam_of(r), 'tau': float(r.tau), 'kendalltau': tau}, req, cls)
        return 1
    ok, ref = theta_is_own(r.theta, tau)
    obs = {'tau': tau, 'theta': float(r.theta), 'own_calibration_of_tau': ref}
    if ok and 1e-3 <= abs(tau) <= 0.985:
        # second, library-independent reading: the tau of the returned theta by the Debye function
        back = frank_tau_of_theta(float(r.theta))
        obs['tau_of_returned_theta'] = back
        ok = abs(back - tau) <= 1e-4
    if not ok:
        ctx.fail_input('copulas.bivariate.select_copula', inp, obs, req, cls)
    return 3


def negative_tau_specs(ctx=None):
    out = []
    for i, tau in enumerate(NEGATIVE_TAUS):
        for j, samp in enumerate(NEGATIVE_SAMPLERS):
            out.append((samp, tau, 300 + 100 * ((i + j) % 3), 3100 + 10 * i + j))
    return out


def negative_tau_oracle(ctx):
    # most negative tau first: the first failing input recorded per class is the most telling one
    return sum(negative_tau_case(ctx, spec) for spec in sorted(negative_tau_specs(), key=lambda sp: sp[1]))


# ----------------------------------------------------------------------------------- tau of the RAW columns
def own_tau_b(x, y):
    """Kendall's tau-b of the raw values, by the harness alone: from the definition (all pairs) for n <= 2500, by
    Knight's O(n log n) counting (Fenwick tree) above; integer counts, one final float expression."""
    x = np.asarray(x, dtype=float)
    y = np.asarray(y, dtype=float)
    n = len(x)
    tot = n * (n - 1) // 2
    if n <= 2500:
        dx = np.sign(x[:, None] - x[None, :]).astype(np.int64)
        dy = np.sign(y[:, None] - y[None, :]).astype(np.int64)
        iu = np.triu_indices(n, 1)
        s = int((dx[iu] * dy[iu]).sum())
        xt = int((dx[iu] == 0).sum())
        yt = int((dy[iu] == 0).sum())
    else:
        def tied_pairs(keys):
            _, c = np.unique(keys, return_counts=True, axis=0)
            return int((c * (c - 1) // 2).sum())
        xt, yt = tied_pairs(x), tied_pairs(y)
        jt = tied_pairs(np.column_stack((x, y)))
        order = np.lexsort((y, x))
        ry = np.unique(y[order], return_inverse=True)[1] + 1          # ranks 1..m of y in (x, y) order
        m = int(ry.max())
        tree = [0] * (m + 1)
        dis = 0
        for k, r in enumerate(ry.tolist()):                          # inversions: earlier entries with larger y
            i, le = r, 0
            while i > 0:
                le += tree[i]
                i -= i & -i
            dis += k - le
            i = r
            while i <= m:
                tree[i] += 1
                i += i & -i
        s = tot - xt - yt + jt - 2 * dis
    if tot - xt == 0 or tot - yt == 0:
        return NAN
    return float(s / np.sqrt(tot - xt) / np.sqrt(tot - yt))


NEAR_EQUAL = (('pairs-u', 400, 4101), ('pairs-v', 400, 4102), ('pairs-both', 400, 4103), ('clusters', 400, 4104),
              ('clusters', 250, 4105), ('far-tail', 300, 4106), ('large', 30000, 4107))


def near_equal_dataset(kind, n, seed):
    """finely resolved pseudo-observations: distinct values of a column closer than 1e-8."""
    r = np.random.RandomState(seed)
    if kind == 'large':
        return own_sample('clayton', 0.5, n, seed)
    if kind == 'far-tail':
        X = own_sample('gumbel', 0.5, n, seed)
        return np.column_stack([1e-18 * (np.argsort(np.argsort(X[:, j])) + 1) for j in (0, 1)])
    if kind == 'clusters':
        k = r.randint(0, 6, size=n)
        centres = np.array([0.1, 0.25, 0.4, 0.6, 0.75, 0.9])
        k2 = np.clip(k + r.choice([-1, 0, 0, 1], size=n), 0, 5)
        return np.column_stack((centres[k] + 1e-9 * r.uniform(size=n), centres[k2] + 1e-9 * r.uniform(size=n)))
    X = own_sample('clayton', 0.5, n, seed)
    cols = {'pairs-u': (0,), 'pairs-v': (1,), 'pairs-both': (0, 1)}[kind]
    idx = r.permutation(n)[:160].reshape(80, 2)
    for t, (i, j) in enumerate(idx):
        for c in cols:
            X[j, c] = X[i, c] + (1e-9, 1e-10, 1e-12)[t % 3] * (1 if t % 2 else -1)
    return np.clip(X, 1e-12, 1.0 - 1e-12)


def raw_tau_case(ctx, spec):
    """select_copula(X).tau is scipy's kendalltau of the RAW columns, exactly, and the harness's own tau-b of the raw
    values; theta is the returned family's calibration of THAT tau."""
    from copulas.bivariate import select_copula
    from scipy import stats
    kind, n, seed = spec
    X = near_equal_dataset(kind, n, seed)
    inp = {'dataset': 'near-equal:' + kind, 'n': n, 'seed': seed, 'generator': 'c11.near_equal_dataset'}
    cls = 'select_copula:tau-not-kendall-of-raw-columns'
    req = 'result.tau == scipy.stats.kendalltau(X[:,0], X[:,1])[0] bit for bit (= tau-b of the raw values, 1e-15), and ' \
          'theta is the returned family\'s calibration of that tau'
    with np.errstate(all='ignore'):
        tau = stats.kendalltau(X[:, 0], X[:, 1])[0]
    own = own_tau_b(X[:, 0], X[:, 1])
    ctx.count('raw-tau:' + kind)
    try:
        with np.errstate(all='ignore'):
            r = select_copula(X)
    except Exception as e:  # noqa
        ctx.fail_input('copulas.bivariate.select_copula', inp,
                       {'raises': f'{type(e).__name__}: {e}', 'kendalltau_raw': float(tau), 'own_tau_b': own}, req, cls)
        return 1
    fam = fam_of(r)
    obs = {'family': fam, 'tau': float(r.tau), 'theta': float(r.theta), 'kendalltau_raw': float(tau), 'own_tau_b': own,
           'tau_minus_raw': float(r.tau) - float(tau)}
    ok = same(r.tau, tau) and abs(float(r.tau) - own) <= 1e-15
    if ok:
        if fam == 'clayton':
            ref = float(2 * tau / (1 - tau))
        elif fam == 'gumbel':
            ref = float(1 / (1 - tau))
        else:
            ref = frank_theta_independent(np.float64(tau))
        obs['calibration_of_raw_tau'] = ref
        ok = same(r.theta, ref) or abs(float(r.theta) - ref) <= 1e-9 * abs(ref)
    if not ok:
        ctx.fail_input('copulas.bivariate.select_copula', inp, obs, req, cls)
    return 3


def raw_tau_oracle(ctx):
    return sum(raw_tau_case(ctx, spec) for spec in NEAR_EQUAL)


def raw_tau_tie(ctx):
    """the tau the model receives as `FitInput.tau` (kendalltau of the raw columns) is the tau `Frank.fit` stores."""
    from scipy import stats
    bad = None
    for kind, n, seed in NEAR_EQUAL:
        X = near_equal_dataset(kind, n, seed)
        with np.errstate(all='ignore'):
            tau = stats.kendalltau(X[:, 0], X[:, 1])[0]
        own = own_tau_b(X[:, 0], X[:, 1])
        f, err = real_fit(X)
        ctx.case(('near-equal', kind, n, seed), nontrivial=True)
        if (err is not None or not same(f.tau, tau) or abs(float(f.tau) - own) > 1e-15) and bad is None:
            bad = {'dataset': kind, 'n': n, 'seed': seed, 'Frank.fit': err or float(f.tau), 'kendalltau_raw': float(tau),
                   'own_tau_b': own}
    ctx.ob('corr:tau-raw-columns', bad is None, 'tie', bad or 'ok')


# ----------------------------------------------------------------------------------- data forms and alias routes
FORM_DATA = (('clayton', 0.5, 800, 5101), ('gumbel', 0.5, 800, 5102), ('frank', 0.5, 800, 5103),
             ('clayton-reflected', 0.4, 500, 5104), ('gumbel', 0.7, 600, 5105))
# dtype forms: (name, numpy dtype, relative precision allowed on tau / theta)
DTYPE_FORMS = (('float32', np.float32, 1e-6), ('float16', np.float16, 5e-3), ('longdouble', np.longdouble, 1e-12))


def result_of(call):
    try:
        with warnings.catch_warnings():
            warnings.simplefilter('ignore')
            with np.errstate(all='ignore'):
                r = call()
        return ['ok', fam_of(r) or type(r).__name__, float(r.tau), float(r.theta)]
    except Exception as e:  # noqa
        return ['err', type(e).__name__, str(e)[:80]]


def res_close(a, b, rel):
    if a[0] != b[0] or a[1] != b[1]:
        return False
    if a[0] == 'err':
        return True
    if rel == 0.0:
        return same(a[2], b[2]) and same(a[3], b[3])
    return close(a[2], b[2], rel) and close(a[3], b[3], rel)


def data_forms(X):
    """-> [(name, object handed to select_copula, float64 image holding the same values, tolerance)]"""
    import pandas as pd
    n = len(X)
    big = np.zeros((2 * n, 4))
    big[::2, 1:3] = X
    ro = X.copy()
    ro.setflags(write=False)
    out = [('fortran-order', np.asfortranarray(X), X, 0.0), ('strided-view', big[::2, 1:3], X, 0.0),
           ('read-only', ro, X, 0.0), ('object-dtype', X.astype(object), X, 0.0),
           ('list-of-lists', X.tolist(), X, 0.0), ('list-of-tuples', [tuple(r) for r in X.tolist()], X, 0.0),
           ('DataFrame', pd.DataFrame(X, columns=['u', 'v']), X, 0.0)]
    for name, dt, rel in DTYPE_FORMS:
        Y = X.astype(dt)
        out.append((name, Y, np.asarray(Y, dtype=np.float64), rel))
    return out


def forms_case(ctx, spec, report):
    """the same pseudo-observations in another container / layout / dtype give the same family, tau and theta as the
    float64 C-ordered array holding the same values (within the precision of the dtype); forms the unchanged code
    rejects are counted, not judged."""
    from copulas.bivariate import select_copula
    X = np.ascontiguousarray(own_sample(*spec), dtype=np.float64)
    refs = {}
    checks = 0
    for name, obj, image, rel in data_forms(X):
        key = image.tobytes()
        if key not in refs:
            refs[key] = result_of(lambda: select_copula(image.copy()))
        ref = refs[key]
        got = result_of(lambda: select_copula(obj))
        checks += 1
        if got[0] == 'err' and ref[0] == 'ok' and got[1] in ('TypeError', 'KeyError', 'IndexError', 'AttributeError', 'InvalidIndexError') \
                and name in ('list-of-lists', 'list-of-tuples', 'DataFrame'):
            ctx.count('form-rejected:' + name)          # not an (n,2) ndarray: outside the property's quantifier
            continue
        ctx.count('form:' + name)
        if not res_close(got, ref, rel):
            report(spec, name, got, ref, rel)
    return checks


def forms_oracle(ctx):
    def report(spec, name, got, ref, rel):
        ctx.fail_input('copulas.bivariate.select_copula',
                       {'sampler': 'harness own_sample', 'family': spec[0], 'tau': spec[1], 'n': spec[2], 'seed': spec[3],
                        'form': name},
                       {'this_form': got, 'float64_C_order_same_values': ref, 'relative_tolerance': rel},
                       'family, tau and theta do not depend on the layout / container / dtype of the (n,2) data (within the '
                       'precision of the dtype)', 'select_copula:depends-on-data-dtype')
    return sum(forms_case(ctx, spec, report) for spec in FORM_DATA)


def forms_tie(ctx):
    bad = []

    def report(spec, name, got, ref, rel):
        bad.append({'data': list(spec), 'form': name, 'real(form)': got, 'real(float64 image)': ref, 'rtol': rel})
    for spec in FORM_DATA[:3]:
        ctx.case(('forms',) + tuple(spec), nontrivial=True)
        forms_case(ctx, spec, report)
    ctx.ob('corr:data-forms', not bad, 'tie', bad[0] if bad else 'ok')


def alias_routes():
    """every way of reaching the deprecated alias -> callable(X)"""
    from copulas.bivariate import Bivariate, CopulaTypes
    cl = classes()
    routes = [('Bivariate.select_copula', lambda X: Bivariate.select_copula(X)),
              ('Bivariate().select_copula', lambda X: Bivariate().select_copula(X))]
    for k, c in cl.items():
        routes.append((f'{c.__name__}.select_copula', (lambda c: lambda X: c.select_copula(X))(c)))
        routes.append((f'{c.__name__}().select_copula', (lambda c: lambda X: c().select_copula(X))(c)))
        routes.append((f"Bivariate(copula_type='{k}').select_copula",
                       (lambda k: lambda X: Bivariate(copula_type=k).select_copula(X))(k)))
        routes.append((f'Bivariate(copula_type=CopulaTypes.{k.upper()}).select_copula',
                       (lambda k: lambda X: Bivariate(copula_type=CopulaTypes[k.upper()]).select_copula(X))(k)))
    try:
        from copulas.bivariate.independence import Independence
        routes.append(('Independence.select_copula', lambda X: Independence.select_copula(X)))
    except Exception:  # noqa
        pass
    return routes


def routes_case(ctx, spec, report):
    from copulas.bivariate import select_copula
    X = own_sample(*spec)
    ref = result_of(lambda: select_copula(X.copy()))
    checks = 0
    for name, call in alias_routes():
        with warnings.catch_warnings(record=True) as w:
            warnings.simplefilter('always')
            try:
                with np.errstate(all='ignore'):
                    r = call(X.copy())
                got = ['ok', fam_of(r) or type(r).__name__, float(r.tau), float(r.theta)]
            except Exception as e:  # noqa
                got = ['err', type(e).__name__, str(e)[:80]]
            depr = any(issubclass(x.category, DeprecationWarning) for x in w)
        checks += 1
        ctx.count('alias-route')
        if not (res_close(got, ref, 0.0) and depr):
            report(spec, name, got, ref, depr)
    return checks


def routes_oracle(ctx):
    def report(spec, name, got, ref, depr):
        ctx.fail_input('Bivariate.select_copula',
                       {'sampler': 'harness own_sample', 'family': spec[0], 'tau': spec[1], 'n': spec[2], 'seed': spec[3],
                        'route': name},
                       {'this_route': got, 'copulas.bivariate.select_copula': ref, 'DeprecationWarning': depr},
                       'every route to the deprecated alias returns what copulas.bivariate.select_copula(X) returns and '
                       'warns DeprecationWarning', 'Bivariate.select_copula:alias-route-differs')
    return sum(routes_case(ctx, spec, report) for spec in FORM_DATA[:4])


def routes_tie(ctx):
    bad = []

    def report(spec, name, got, ref, depr):
        bad.append({'data': list(spec), 'route': name, 'route returns': got, 'module function': ref,
                    'DeprecationWarning': depr})
    for spec in FORM_DATA[:4]:
        ctx.case(('routes',) + tuple(spec), nontrivial=True)
        routes_case(ctx, spec, report)
    ctx.ob('corr:alias-routes', not bad, 'tie', bad[0] if bad else 'ok')


# ----------------------------------------------------------------------------------- perfect dependence
PERFECT_KINDS = ('identical', 'monotone', 'sorted', 'rank-pseudo', 'discordant', 'discordant-monotone')
NEAR_PERFECT_KINDS = ('one-tie', 'two-ties', 'one-swap')
# A violation of the stated oracle by the UNCHANGED tree (reported to the coordinator): at tau == 1.0 exactly
# `Clayton.compute_theta` returns inf, `check_theta` accepts it (0 <= inf <= inf) and select_copula returns
# Clayton(theta=inf).  It is raised as a failing input only once it is listed for C11 in known_findings.json
# (then it prints KNOWN-FINDING); until then it is recorded in the evidence notes and histogram.
CLEAN_TREE_FINDING = 'select_copula:theta-not-finite:clayton:tau=1'


def perfect_dataset(kind, n, seed):
    r = np.random.RandomState(seed)
    u = np.sort(r.uniform(0.02, 0.98, size=n))
    v = np.sort(r.uniform(0.02, 0.98, size=n))
    if kind == 'identical':
        X = np.column_stack((u, u))
    elif kind == 'monotone':
        X = np.column_stack((u, u ** 3))
    elif kind == 'sorted':
        X = np.column_stack((u, v))
    elif kind == 'rank-pseudo':
        p = np.arange(1, n + 1) / (n + 1.0)
        X = np.column_stack((p, p))
    elif kind == 'discordant':
        X = np.column_stack((u, v[::-1]))
    elif kind == 'discordant-monotone':
        X = np.column_stack((u, 1.0 - u))
    else:                                   # tau = 1 - tiny, with ties / one inversion
        w = u.copy()
        i = n // 3
        if kind == 'one-tie':
            w[i] = w[i + 1]
            X = np.column_stack((u, w))
        elif kind == 'two-ties':
            w[i] = w[i + 1]
            u2 = u.copy()
            u2[2 * i] = u2[2 * i + 1]
            X = np.column_stack((u2, w))
        else:
            w[i], w[i + 1] = w[i + 1], w[i]
            X = np.column_stack((u, w))
    return X[r.permutation(n)]              # row order is irrelevant to tau; do not hand sorted rows only


def perfect_specs():
    out = []
    for j, kind in enumerate(PERFECT_KINDS):
        for n in (2, 3, 10, 200):
            out.append((kind, n, 6100 + 10 * j + n % 7))
    for j, kind in enumerate(NEAR_PERFECT_KINDS):
        for n in (10, 200):
            out.append((kind, n, 6200 + 10 * j + n % 7))
    return out


def c11_known_classes():
    try:
        return {k['class'] for k in vc.load_known().get('findings', []) if k.get('property') == 'C11'}
    except Exception:  # noqa
        return set()


def perfect_case(ctx, spec):
    """the property's statement on perfectly (or almost perfectly) concordant / discordant data."""
    from copulas.bivariate import select_copula
    from scipy import stats
    kind, n, seed = spec
    X = perfect_dataset(kind, n, seed)
    inp = {'dataset': 'perfect:' + kind, 'n': n, 'seed': seed, 'generator': 'c11.perfect_dataset',
           'X': X.tolist() if n <= 10 else None}
    cls = 'select_copula:theta-not-calibrated:perfect-dependence'
    req = 'the result is a Frank, Clayton or Gumbel instance whose tau is the Kendall tau of X and whose theta is finite, ' \
          'inside the family\'s theta_interval, not in invalid_thetas, and equal to that family\'s calibration of tau'
    with np.errstate(all='ignore'):
        tau = stats.kendalltau(X[:, 0], X[:, 1])[0]
    ctx.count('perfect:tau=%s' % ('+1' if tau == 1 else '-1' if tau == -1 else 'near'))
    try:
        with np.errstate(all='ignore'):
            r = select_copula(X)
    except Exception as e:  # noqa
        ctx.fail_input('copulas.bivariate.select_copula', inp, {'raises': f'{type(e).__name__}: {e}', 'kendalltau': float(tau)},
                       req, cls)
        return 1
    fam = fam_of(r)
    if fam is None:
        ctx.fail_input('copulas.bivariate.select_copula', inp, type(r).__name__, req, cls)
        return 1
    theta = float(r.theta)
    lower, upper = type(r).theta_interval
    with np.errstate(all='ignore'):
        if fam == 'clayton':
            ref = float(2 * tau / (1 - tau))
        elif fam == 'gumbel':
            ref = float(np.float64(1) / (1 - tau))
        else:
            ref = frank_theta_independent(np.float64(tau))
    obs = {'family': fam, 'tau': float(r.tau), 'theta': theta, 'kendalltau': float(tau), 'calibration_of_tau': ref,
           'theta_interval': [float(lower), float(upper)], 'invalid_thetas': [float(t) for t in type(r).invalid_thetas]}
    problems = []
    if not same(r.tau, tau):
        problems.append('tau is not the Kendall tau of X')
    if not math.isfinite(theta):
        problems.append('theta is not finite')
    if not (lower <= theta <= upper) or theta in type(r).invalid_thetas:
        problems.append('theta outside the admissible set')
    if not (same(theta, ref) or (math.isfinite(ref) and abs(theta - ref) <= 1e-9 * abs(ref))):
        problems.append('theta is not the calibration of tau')
    if not problems:
        return 4
    obs['problems'] = problems
    if fam == 'clayton' and tau == 1 and theta == float('inf') and problems == ['theta is not finite']:
        ctx.count('clean-tree-finding:' + CLEAN_TREE_FINDING)
        if CLEAN_TREE_FINDING in c11_known_classes():
            ctx.fail_input('copulas.bivariate.select_copula', inp, obs, req, CLEAN_TREE_FINDING)
        elif not any(CLEAN_TREE_FINDING in x for x in ctx.notes):
            ctx.notes.append(f'{CLEAN_TREE_FINDING}: unchanged tree returns Clayton(theta=inf) for tau == 1.0 '
                             f'(e.g. {kind}, n={n}); reported to the coordinator, not yet in known_findings.json')
        return 4
    ctx.fail_input('copulas.bivariate.select_copula', inp, obs, req, cls)
    return 4


def perfect_oracle(ctx):
    return sum(perfect_case(ctx, spec) for spec in perfect_specs())


# ----------------------------------------------------------------------------------- round 9: buffer reuse, tiny tau, scalar form
def weak_dependence(n, cd_target, seed):
    """tie-free independent uniforms whose (#concordant - #discordant) pair count is brought down to exactly
    `cd_target` > 0 by exchanging the v-values of v-rank neighbours that form a concordant pair (each exchange turns
    exactly one pair discordant): Kendall tau = cd_target / C(n,2) exactly."""
    from scipy import stats
    r = np.random.RandomState(seed)
    X = r.uniform(size=(n, 2))
    pairs = n * (n - 1) // 2
    cd = int(round(stats.kendalltau(X[:, 0], X[:, 1])[0] * pairs))
    if cd < 0:
        X[:, 1] = 1.0 - X[:, 1]
        cd = -cd
    if (cd - cd_target) % 2:
        cd_target += 1
    start = 0
    while cd > cd_target:
        order = np.argsort(X[:, 1], kind='stable')
        a, b = order[start:-1:2], order[start + 1::2]
        a = a[:len(b)]
        conc = np.flatnonzero(X[a, 0] < X[b, 0])[:(cd - cd_target) // 2]
        a, b = a[conc], b[conc]
        X[a, 1], X[b, 1] = X[b, 1].copy(), X[a, 1].copy()
        cd -= 2 * len(conc)
        start = 1 - start
    return X, cd


# (n, target C-D, seed): seeds chosen so that Clayton, Gumbel and Frank are each returned at least once (unchanged tree)
TINY_TAU = ((20000, 2, 3), (6000, 2, 1), (20000, 2, 0), (20000, 2, 2), (20000, 200, 0))


def tiny_tau_case(ctx, spec):
    from fractions import Fraction
    from copulas.bivariate import select_copula
    from scipy import stats
    n, target, seed = spec
    X, cd = weak_dependence(n, target, seed)
    pairs = n * (n - 1) // 2
    inp = {'generator': 'c11.weak_dependence', 'n': n, 'concordant_minus_discordant': cd, 'seed': seed,
           'target': target, 'exact_tau': f'{cd}/{pairs}'}
    cls = 'select_copula:theta-not-calibrated:tiny-positive-tau'
    req = 'tau is the Kendall tau of X (= (C-D)/C(n,2), tie-free) and theta is the family\'s calibration of it to a ' \
          'relative 1e-10 (Clayton 2tau/(1-tau), Gumbel 1/(1-tau) as exact rationals; Frank: the solver\'s solution)'
    with np.errstate(all='ignore'):
        tau = stats.kendalltau(X[:, 0], X[:, 1])[0]
        r = select_copula(X)
    fam = fam_of(r)
    ctx.count('tiny-tau:' + str(fam))
    exact_tau = Fraction(cd, pairs)
    obs = {'family': fam, 'tau': float(r.tau), 'theta': float(r.theta), 'kendalltau': float(tau)}
    ok = fam is not None and same(r.tau, tau) and abs(float(tau) - float(exact_tau)) <= 1e-12 * float(exact_tau)
    if ok:
        if fam == 'frank':
            ok, ref = theta_is_own(r.theta, tau)
        else:
            ref = float(2 * exact_tau / (1 - exact_tau)) if fam == 'clayton' else float(1 / (1 - exact_tau))
            ok = abs(float(r.theta) - ref) <= 1e-10 * abs(ref)
        obs['exact_calibration'] = ref
        obs['relative_error'] = abs(float(r.theta) - ref) / abs(ref)
    if not ok:
        ctx.fail_input('copulas.bivariate.select_copula', inp, obs, req, cls)
    return 3


def tiny_tau_oracle(ctx):
    return sum(tiny_tau_case(ctx, spec) for spec in TINY_TAU)


BUFFER_BATCH = (('clayton', 0.5, 800, 7101), ('gumbel', 0.5, 800, 7102), ('frank', 0.5, 800, 7103),
                ('clayton', 0.6, 800, 7104), ('gumbel', 0.7, 800, 7105), ('clayton', 0.3, 800, 7106))


def buffer_reuse_oracle(ctx, batch=BUFFER_BATCH):
    """one preallocated ndarray, refilled in place between calls (no other array in between): every call must answer
    as it does on a fresh copy of the same values."""
    from copulas.bivariate import select_copula
    datas = [own_sample(*spec) for spec in batch]
    buf = np.empty_like(datas[0])
    got = []
    for X in datas:
        buf[:] = X
        got.append(result_of(lambda: select_copula(buf)))
    # the same object modified in place (one column reversed and restored: the values change, the object does not)
    work = datas[0].copy()
    first = result_of(lambda: select_copula(work))
    work[:, :] = datas[1]
    second = result_of(lambda: select_copula(work))
    fresh = [result_of(lambda: select_copula(X.copy())) for X in datas]
    inp = {'batch': [list(s) for s in batch], 'sampler': 'harness own_sample'}
    cls = 'select_copula:result-depends-on-array-identity'
    req = 'select_copula is a function of the VALUES of X: a work buffer refilled in place gives what a fresh copy of the ' \
          'same values gives'
    ctx.count('buffer-reuse:' + ''.join(sorted({f[1][0] for f in fresh if f[0] == 'ok'})))
    for i, (g, f) in enumerate(zip(got, fresh)):
        if not res_close(g, f, 0.0):
            ctx.fail_input('copulas.bivariate.select_copula', dict(inp, call=i, how='buf[:] = X_i; select_copula(buf)'),
                           {'on_the_reused_buffer': g, 'on_a_fresh_copy': f}, req, cls)
            return len(batch) + 2
    if not (res_close(first, fresh[0], 0.0) and res_close(second, fresh[1], 0.0)):
        ctx.fail_input('copulas.bivariate.select_copula', dict(inp, call=1, how='work[:, :] = X_1 after select_copula(work) on X_0'),
                       {'on_the_modified_array': [first, second], 'on_fresh_copies': fresh[:2]}, req, cls)
    return len(batch) + 2


def scalar_form_case(ctx, spec):
    """tau and theta of the returned object are float scalars (Python or numpy), to_dict() is JSON-serialisable and
    from_dict / save+load give back the same family, tau and theta."""
    import json
    import tempfile
    from copulas.bivariate import Bivariate, select_copula
    X = np.ascontiguousarray(own_sample(*spec), dtype=np.float64)
    with np.errstate(all='ignore'):
        r = select_copula(X)
    fam = fam_of(r)
    ctx.count('scalar-form:' + str(fam))
    inp = {'sampler': 'harness own_sample', 'family': spec[0], 'tau': spec[1], 'n': spec[2], 'seed': spec[3]}
    problems = []
    for nm in ('tau', 'theta'):
        v = getattr(r, nm)
        if isinstance(v, np.ndarray) or not isinstance(v, (float, np.floating)) or np.ndim(v) != 0:
            problems.append(f'{nm} is a {type(v).__name__}' + (f' of shape {np.shape(v)}' if isinstance(v, np.ndarray) else ''))
    try:
        text = json.dumps(r.to_dict())
        back = Bivariate.from_dict(json.loads(text))
        if not (fam_of(back) == fam and same(back.tau, r.tau) and same(back.theta, r.theta)):
            problems.append(f'from_dict(to_dict()) gives {fam_of(back)} tau={back.tau!r} theta={back.theta!r}')
    except Exception as e:  # noqa
        problems.append(f'json.dumps(to_dict()) / from_dict raises {type(e).__name__}: {str(e)[:80]}')
    try:
        d = '/scratch' if os.path.isdir('/scratch') else None
        with tempfile.TemporaryDirectory(dir=d) as tmp:
            path = os.path.join(tmp, 'copula.json')
            r.save(path)
            back = Bivariate.load(path)
        if not (fam_of(back) == fam and same(back.tau, r.tau) and same(back.theta, r.theta)):
            problems.append(f'load(save()) gives {fam_of(back)} tau={back.tau!r} theta={back.theta!r}')
    except Exception as e:  # noqa
        problems.append(f'save / load raises {type(e).__name__}: {str(e)[:80]}')
    if problems:
        ctx.fail_input('copulas.bivariate.select_copula', inp,
                       {'family': fam, 'type(tau)': type(r.tau).__name__, 'type(theta)': type(r.theta).__name__,
                        'problems': problems},
                       'tau and theta of the returned candidate are float scalars; to_dict() is JSON-serialisable and '
                       'from_dict / save+load restore the same family, tau and theta',
                       'select_copula:result-not-plain-scalars')
    return 4


def scalar_form_oracle(ctx):
    return sum(scalar_form_case(ctx, spec) for spec in FORM_DATA)


# ----------------------------------------------------------------------------------- sample sizes (block boundaries)
SIZE_TIE = tuple((fam, 0.5, n, 8100 + 10 * i + j) for j, fam in enumerate(('clayton', 'gumbel'))
                 for i, n in enumerate((1024, 2048, 4096, 3000, 4097)))
SIZE_ROBUST = (('clayton', 0.6, 4097, 8201), ('gumbel', 0.6, 4097, 8202))
SIZE_ROBUST_N = (4095, 4096, 4097)


def size_tie(ctx, t):
    """(a) the whole-model tie on Clayton / Gumbel samples of n = 1024, 2048, 4096, 3000, 4097; a disagreement is a
    concrete failing input."""
    for spec in SIZE_TIE:
        X = own_sample(*spec)
        k = len(t.log)
        ctx.count('size-tie')
        t.one(f'size-{spec[0]}', X)
        if len(t.log) > k:
            ctx.fail_input('copulas.bivariate.select_copula',
                           {'sampler': 'harness own_sample', 'family': spec[0], 'tau': spec[1], 'n': spec[2], 'seed': spec[3]},
                           {'real code vs Lean model': [list(e) for e in t.log[k:k + 3]]},
                           'select_copula and _compute_empirical agree with the model (empirical tail curves over all rows, '
                           'ranks, arg-max) at every sample size', 'select_copula:disagrees-with-model:sample-size')


def size_case(ctx, spec, sizes):
    """independent of Lean: `_compute_empirical(X[:n])` is the definition over all n rows and the generating family of
    strongly dependent data is returned, for each n."""
    from copulas.bivariate import _compute_empirical, select_copula
    fam, tau, nmax, seed = spec
    X = own_sample(fam, tau, nmax, seed)
    checks = 0
    for n in sizes:
        Y = X[:n].copy()
        inp = {'sampler': 'harness own_sample', 'family': fam, 'tau': tau, 'n_sampled': nmax, 'seed': seed, 'n': n}
        with np.errstate(all='ignore'):
            try:
                d = compare_empirical(_compute_empirical(Y), empirical_definition(Y, raw_grid()), 1e-12)
            except Exception as e:  # noqa
                d = f'raises {type(e).__name__}: {e}'
            got = result_of(lambda: select_copula(Y))
        checks += 2
        if d:
            ctx.fail_input('copulas.bivariate._compute_empirical', inp, d,
                           'the empirical tail functions are the fractions of ALL n rows in [0,z]^2 and [z,1]^2 divided by '
                           'z^2 and (1-z)^2, for every n', '_compute_empirical:not-the-empirical-tail:sample-size')
        if tau >= 0.6 and not (got[0] == 'ok' and got[1] == fam):
            ctx.fail_input('copulas.bivariate.select_copula', inp, {'selected': got},
                           f'strongly dependent {fam} data are recognised as {fam} at n = 4095, 4096 and 4097 alike',
                           'select_copula:family-not-recovered:sample-size')
    return checks


def size_oracle(ctx):
    n = sum(size_case(ctx, spec, SIZE_ROBUST_N) for spec in SIZE_ROBUST)
    return n + sum(size_case(ctx, spec, (spec[2],)) for spec in SIZE_TIE)


RECOVERY_TAUS = (0.3, 0.5, 0.7)
RECOVERY_N = 3000
RECOVERY_SEEDS = 10


def recovery_cell(fam, tau, seeds, n=RECOVERY_N):
    from copulas.bivariate import select_copula
    got = []
    for sd in seeds:
        X = sampler(fam, tau, sd).sample(n)
        with np.errstate(all='ignore'):
            got.append(fam_of(select_copula(X)))
    return got


def search(ctx, deep):
    grid = None
    try:
        grid = real_grid()
    except Exception:  # noqa
        grid = [i / 49 for i in range(50)]
    checks = 0
    before = len(ctx.failing)
    sizes = [50, 300] if not deep else [50, 200, 500, 1000]
    for kind, X in datasets(ctx, grid, 'search', 2 if not deep else 6, 25 if not deep else 200,
                            6 if not deep else 30, sizes):
        checks += oracle(ctx, kind, X)
    checks += history_oracle(ctx, deep)
    checks += aliasing_oracle(ctx)
    checks += large_n_oracle(ctx)
    checks += negative_tau_oracle(ctx)
    checks += raw_tau_oracle(ctx)
    checks += perfect_oracle(ctx)
    checks += size_oracle(ctx)
    checks += buffer_reuse_oracle(ctx)
    checks += tiny_tau_oracle(ctx)
    checks += scalar_form_oracle(ctx)
    checks += forms_oracle(ctx)
    checks += routes_oracle(ctx)
    cells = {}
    if deep:
        rng = ctx.rng('recovery')
        for fam in FAMS:
            for tau in RECOVERY_TAUS:
                seeds = [rng.randrange(2 ** 31) for _ in range(RECOVERY_SEEDS)]
                got = recovery_cell(fam, tau, seeds)
                hit = sum(1 for g in got if g == fam)
                cells[f'{fam}@{tau}'] = f'{hit}/{len(got)}'
                checks += len(got)
                if hit < 0.7 * len(got):
                    ctx.fail_input('copulas.bivariate.select_copula',
                                   {'family': fam, 'tau': tau, 'n': RECOVERY_N, 'seeds': seeds},
                                   {'selected': got, 'recovered': hit},
                                   'the generating family is returned for at least 70 % of the seeds of the cell',
                                   f'select_copula:recovery:{fam}')
    ctx.support = {'oracle_checks': checks, 'failures': len(ctx.failing) - before, 'deep': deep,
                   'recovery_cells': cells}


def replay(ctx, payload):
    cls = payload.get('class', '')
    inp = payload.get('input', {})
    before = len(ctx.failing)
    if cls.startswith('select_copula:recovery:'):
        fam = inp['family']
        got = recovery_cell(fam, inp['tau'], inp['seeds'], inp.get('n', RECOVERY_N))
        return sum(1 for g in got if g == fam) < 0.7 * len(got)
    if cls == 'select_copula:result-aliased-across-calls' and 'batch' in inp:
        aliasing_oracle(ctx, tuple(tuple(b) for b in inp['batch']))
        return any(f['class'] == cls for f in ctx.failing[before:])
    if cls in ('select_copula:depends-on-data-dtype', 'Bivariate.select_copula:alias-route-differs') and 'seed' in inp:
        spec = (inp['family'], inp['tau'], inp['n'], inp['seed'])
        hit = []
        if cls.startswith('select_copula'):
            forms_case(ctx, spec, lambda sp, name, *a: hit.append(name))
            return inp.get('form') in hit
        routes_case(ctx, spec, lambda sp, name, *a: hit.append(name))
        return inp.get('route') in hit
    if cls.endswith(':sample-size') and 'seed' in inp:
        n0 = inp.get('n_sampled', inp['n'])
        size_case(ctx, (inp['family'], inp['tau'], n0, inp['seed']), (inp['n'],))
        return any(f['class'].endswith(':sample-size') for f in ctx.failing[before:])
    if cls == 'select_copula:result-depends-on-array-identity' and 'batch' in inp:
        buffer_reuse_oracle(ctx, tuple(tuple(b) for b in inp['batch']))
        return any(f['class'] == cls for f in ctx.failing[before:])
    if cls == 'select_copula:theta-not-calibrated:tiny-positive-tau' and 'seed' in inp:
        tiny_tau_case(ctx, (inp['n'], inp['target'], inp['seed']))
        return any(f['class'] == cls for f in ctx.failing[before:])
    if cls == 'select_copula:result-not-plain-scalars' and 'seed' in inp:
        scalar_form_case(ctx, (inp['family'], inp['tau'], inp['n'], inp['seed']))
        return any(f['class'] == cls for f in ctx.failing[before:])
    if str(inp.get('dataset', '')).startswith('perfect:') and 'seed' in inp:
        perfect_case(ctx, (inp['dataset'].split(':', 1)[1], inp['n'], inp['seed']))
        return any(f['class'] == cls for f in ctx.failing[before:])
    if cls == 'select_copula:tau-not-kendall-of-raw-columns' and 'seed' in inp:
        raw_tau_case(ctx, (inp['dataset'].split(':', 1)[1], inp['n'], inp['seed']))
        return any(f['class'] == cls for f in ctx.failing[before:])
    if cls.endswith(':negative-tau') and 'seed' in inp:
        negative_tau_case(ctx, (inp['sampler'].replace('harness ', ''), inp['nominal_tau'], inp['n'], inp['seed']))
        return any(f['class'] == cls for f in ctx.failing[before:])
    if cls.endswith(':large-n') and 'seed' in inp:
        large_n_case(ctx, (inp['family'], inp['tau'], inp['n'], inp['seed']), cls.startswith('select_copula'))
        return any(f['class'] == cls for f in ctx.failing[before:])
    if cls == 'select_copula:result-depends-on-history' and 'mode' in inp:
        run_history(ctx, inp.get('label', 'replay'), build_history(inp), inp['visit'], inp)
        return any(f['class'] == cls for f in ctx.failing[before:])
    if inp.get('X') is not None and not inp.get('truncated'):
        oracle(ctx, inp.get('kind', 'replay'), np.array(inp['X'], dtype=float).reshape(-1, 2))
        return any(f['class'] == cls for f in ctx.failing[before:])
    search(ctx, True)
    return any(f['class'] == cls for f in ctx.failing[before:])
