"""C05 — Marginal model choice: best-KS candidate, filters, per-column config, fallback."""
import gc
import math
import warnings
from abc import ABC

import numpy as np
import pandas as pd
from scipy.stats import kstest, norm

import vcommon as vc

warnings.filterwarnings('ignore')

GEN_TARGETS = ('Select',)
DRIVER_MAIN = 'Main/Select.lean'
DRIVER_TARGETS = ['CopVerif.Driver.Select']
ALWAYS_SEARCH = True
RULE = ('selection: datasets (normal/uniform/exponential/beta/lognormal/bimodal/student-t/integer ties/constant/tiny n/'
        'huge+tiny scale/NaN-containing, n in 2..200) x candidate lists drawn from the 8 real families in the three '
        'reference forms (class, FQN string, instance prototype) and harness stubs (raise in __init__/fit/cdf, NaN and '
        '+inf statistics, rigged cdfs incl. two classes with bit-identical statistics and an unbeatable one; several '
        'prototypes of ONE class with different hyper-parameters in both orders: GaussianKDE bandwidths, TruncatedGaussian '
        'bounds, parametrised stub — the selected entry is identified by class AND the KS of the returned model; instance '
        'prototypes of parametrised families (TruncatedGaussian, GaussianKDE, stubs recorded by the real store_args) and of '
        'the selecting wrapper (candidates / parametric / bounded) built by keyword, positionally and mixed, incl. falsy '
        'but meaningful values (minimum=0, maximum=0.0, delta=0, fail=False) in the candidate-list, global and '
        'per-column-dict positions; expectations come from the recipe the prototype was built with, never from '
        'get_instance), '
        'lengths 1..10, duplicates allowed; each candidate\'s outcome is computed with the code\'s own calls '
        '(get_instance, fit, kstest(X, instance.cdf)) and sent as Option-KS list; distinct by (dataset, list), '
        'non-trivial when >= 2 candidates are fittable.  filters: generated table vs introspection, all 12 '
        '(parametric, bounded) pairs, Univariate.__init__ forms, random synthetic hierarchies (ABC mixins, tag '
        'inheritance, multiple inheritance) run through the real _select_candidates; user families registered temporarily '
        'BELOW CONCRETE library families (one / two levels, own tags, abstract intermediate) in the default-candidate path '
        'for all 12 filter pairs (search: minimality over the class tree the harness walks itself).  GaussianMultivariate: 2-4 column '
        'frames x config forms (class, FQN, prototype, dict full/partial/empty/extra keys, str and int column names) '
        'incl. distributions raising in fit; model composes per-column outcome into the fitted types')
PARTIAL = ['"the fit still succeeds" is proved for _fit_columns (fit_columns_total); the later _get_correlation step of '
           'GaussianMultivariate.fit is outside the model and only exercised by the search on the real code',
           'a distribution reference that cannot even be instantiated (unknown FQN, constructor raising) makes '
           'get_instance raise outside the try: modelled as the error branch of fitColumn (hypothesis hinst of '
           'fallback_total), not as a fallback case',
           'statistics equal to +inf (impossible for a genuine cdf, reachable with a rigged one): select_argmin leaves '
           'open whether such a candidate or none is selected when no candidate is below +inf (the acceptor takes both)',
           'select_first_min (first minimiser wins) is proved of the strict-< model only and not tied to the code']
ASSUMPTIONS = ['a candidate outcome (raised / KS value) is a deterministic function of (candidate, data): the harness '
               'recomputes it with the same calls as the code (re-checked on any disagreement)',
               'binary64 `<` on non-NaN values is a linear order with +inf on top (model runs on the same bit patterns)',
               '`selection_sample_size` is None (the selection sample is the data itself)',
               'the refit of the selected candidate on the full data (`self._instance.fit(X)`) behaves as its first fit',
               'GaussianUnivariate().fit never raises on a numeric NaN-free column (validated on every generated column)']

_P = _B = None


def _enums():
    from copulas.univariate import BoundedType, ParametricType
    return ParametricType, BoundedType


def fqn(obj):
    if isinstance(obj, str):
        return obj
    cls = obj if isinstance(obj, type) else obj.__class__
    return cls.__module__ + '.' + cls.__name__


# =============================================================================== stub families
# Plain classes (NOT subclasses of Univariate: `__subclasses__` of the real hierarchy stays untouched).
class _Stub:
    fitted = False

    def __init__(self):
        self._mu, self._sd, self._sorted = 0.0, 1.0, None

    def fit(self, X):
        X = np.asarray(X, dtype=float)
        self._mu = float(np.mean(X))
        sd = float(np.std(X))
        self._sd = sd if sd > 0 and math.isfinite(sd) else 1.0
        self._sorted = np.sort(X)
        self.fitted = True

    def _base(self, X):
        return norm.cdf((np.asarray(X, dtype=float) - self._mu) / self._sd)

    def cdf(self, X):
        return self._base(X)

    def cumulative_distribution(self, X):
        return self.cdf(X)

    def _get_params(self):
        return {}

    def to_dict(self):
        return {'type': fqn(self)}


class StubRaiseInit(_Stub):
    def __init__(self):
        raise TypeError('stub: cannot be instantiated')


class StubRaiseFit(_Stub):
    def fit(self, X):
        raise ValueError('stub: cannot be fitted')


class StubRaiseFitOther(_Stub):
    def fit(self, X):
        raise ZeroDivisionError('stub: cannot be fitted')


class StubRaiseCdf(_Stub):
    def cdf(self, X):
        raise RuntimeError('stub: no cdf')


class StubNaN(_Stub):
    def cdf(self, X):
        return np.full(len(np.asarray(X)), np.nan)


class StubInf(_Stub):
    def cdf(self, X):
        return np.full(len(np.asarray(X)), np.inf)


class StubShiftA(_Stub):
    DELTA = 0.03

    def cdf(self, X):
        return np.clip(self._base(X) + self.DELTA, 0.0, 1.0)


class StubShiftB(StubShiftA):
    DELTA = -0.11


class StubTwinA(StubShiftA):
    DELTA = 0.07


class StubTwinB(StubShiftA):      # bit-identical statistic to StubTwinA: an exact tie between two classes
    DELTA = 0.07


class StubEcdfMid(_Stub):
    """cdf = mid-rank empirical cdf of the fitted sample: KS = 1/(2n) on data without ties — unbeatable."""

    def cdf(self, X):
        X = np.asarray(X, dtype=float)
        n = len(self._sorted)
        return (np.searchsorted(self._sorted, X, 'left') + np.searchsorted(self._sorted, X, 'right')) / (2.0 * n)


class StubParam(_Stub):
    """instance prototype carrying constructor arguments (get_instance re-creates it from __args__/__kwargs__)."""

    def __init__(self, delta=0.0, fail=False):
        super().__init__()
        self.delta, self.fail = delta, fail
        self.__args__, self.__kwargs__ = (), {'delta': delta, 'fail': fail}

    def fit(self, X):
        if self.fail:
            raise ValueError('stub: configured to fail')
        super().fit(X)

    def cdf(self, X):
        return np.clip(self._base(X) + self.delta, 0.0, 1.0)


def _store_args():
    from copulas.utils import store_args
    return store_args


class StubParamArgs(_Stub):
    """like StubParam but its constructor arguments are recorded by the library's own `store_args` decorator."""

    def __init__(self, delta=0.0, fail=False):
        _Stub.__init__(self)
        self.delta, self.fail = delta, fail

    def fit(self, X):
        if self.fail:
            raise ValueError('stub: configured to fail')
        _Stub.fit(self, X)

    def cdf(self, X):
        return np.clip(self._base(X) + self.delta, 0.0, 1.0)


class StubDefaultsArgs(StubParamArgs):
    """defaults are NOT the falsy values (delta=0.25, fail=True): a prototype built with delta=0 / fail=False loses
    its meaning if falsy constructor arguments are dropped when it is re-created."""

    def __init__(self, delta=0.25, fail=True):
        _Stub.__init__(self)
        self.delta, self.fail = delta, fail


StubParamArgs.__init__ = _store_args()(StubParamArgs.__init__)
StubDefaultsArgs.__init__ = _store_args()(StubDefaultsArgs.__init__)

SELECT_STUBS = [StubRaiseInit, StubRaiseFit, StubRaiseFitOther, StubRaiseCdf, StubNaN, StubInf, StubShiftA, StubShiftB,
                StubTwinA, StubTwinB, StubEcdfMid]
BAD_STUBS = {StubRaiseInit, StubRaiseFit, StubRaiseFitOther, StubRaiseCdf, StubNaN, StubInf}


# =============================================================================== candidates / outcomes
class Entry:
    """one element of a `candidates` list (or one distribution reference): python object + stable key."""

    def __init__(self, key, obj, fresh=None, sel=None):
        self.key, self.obj = key, obj
        self.type = fqn(obj)
        # the configuration the USER expressed, independent of get_instance / store_args:
        self.fresh = fresh      # callable -> new unfitted instance configured as intended (built by keyword)
        self.sel = sel          # selecting wrapper: (explicit candidate Entries or None, parametric, bounded)

    def __repr__(self):
        return self.key


def intended_instance(entry):
    """a new instance configured the way the reference says (prototypes: from the recipe they were built with)."""
    from copulas.utils import get_instance
    return entry.fresh() if entry.fresh is not None else get_instance(entry.obj)


def filtered_families(p, b):
    return [c for c in real_families() if (p is None or c.PARAMETRIC == p) and (b is None or c.BOUNDED == b)]


def intended_candidates(entry):
    """candidate Entries a selecting reference (class Univariate, its FQN, a Univariate prototype) stands for."""
    cands, p, b = entry.sel if entry.sel is not None else (None, None, None)
    if cands:
        return cands
    return [Entry('cls:' + c.__name__, c) for c in filtered_families(p, b)]


STYLES = ('kw', 'pos', 'mixed')


def proto(cls, params, style):
    """instance prototype of a parametrised family built by keyword / positionally / first positional, rest keyword."""
    vals = [v for _, v in params]
    if style == 'kw':
        obj = cls(**dict(params))
    elif style == 'pos':
        obj = cls(*vals)
    else:
        obj = cls(vals[0], **dict(params[1:]))
    key = 'inst:%s[%s](%s)' % (cls.__name__, style, ','.join('%s=%r' % nv for nv in params))
    return Entry(key, obj, fresh=lambda: cls(**dict(params)))


def selector(style, cands=None, p=None, b=None):
    """prototype of the selecting wrapper `Univariate(candidates, parametric, bounded)` in the given style."""
    from copulas.univariate import Univariate
    objs = [e.obj for e in cands] if cands else None
    params = [('candidates', objs), ('parametric', p), ('bounded', b)]
    given = {n: v for n, v in params if v is not None}
    if style == 'kw':
        obj = Univariate(**given)
    elif style == 'pos':
        last = max([i for i, (_, v) in enumerate(params) if v is not None], default=-1)
        obj = Univariate(*[v for _, v in params[:last + 1]])
    else:
        obj = Univariate(objs, **{n: v for n, v in given.items() if n != 'candidates'})
    key = 'inst:Univariate[%s](%s%s%s)' % (style, '[' + ','.join(e.key for e in cands) + ']' if cands else 'None',
                                          ',p=' + p.name if p is not None else '', ',b=' + b.name if b is not None else '')

    def fresh():
        inner = [intended_instance(e) if e.fresh is not None else e.obj for e in cands] if cands else None
        return Univariate(candidates=inner, parametric=p, bounded=b)
    return Entry(key, obj, fresh=fresh, sel=(cands, p, b))


def prototype_entries():
    """parametrised families and the selecting wrapper, each built by keyword, positionally and mixed; incl. falsy but
    meaningful values (minimum=0, maximum=0.0, delta=0, fail=False)."""
    from copulas.univariate import GaussianKDE, GaussianUnivariate, TruncatedGaussian, UniformUnivariate
    P, B = _enums()
    out = {'family': [], 'selector': []}
    for st in STYLES:
        out['family'] += [proto(TruncatedGaussian, [('minimum', 0.0), ('maximum', 20.0)], st),
                          proto(TruncatedGaussian, [('minimum', -200.0), ('maximum', 200.0)], st),
                          proto(TruncatedGaussian, [('minimum', 0), ('maximum', 50.0)], st),
                          proto(TruncatedGaussian, [('minimum', -50.0), ('maximum', 0.0)], st),
                          proto(GaussianKDE, [('sample_size', None), ('random_state', None), ('bw_method', 0.3)], st),
                          proto(GaussianKDE, [('sample_size', None), ('random_state', None), ('bw_method', 2.0)], st),
                          proto(StubParamArgs, [('delta', 0.3), ('fail', False)], st),
                          proto(StubParamArgs, [('delta', -0.12), ('fail', False)], st),
                          proto(StubDefaultsArgs, [('delta', 0), ('fail', False)], st),
                          proto(StubDefaultsArgs, [('delta', 0.0), ('fail', False)], st)]
        U, G = Entry('cls:UniformUnivariate', UniformUnivariate), Entry('cls:GaussianUnivariate', GaussianUnivariate)
        out['selector'] += [selector(st, [U, G]), selector(st, [Entry('inst:GaussianUnivariate', GaussianUnivariate()),
                                                              Entry('fqn:UniformUnivariate', fqn(UniformUnivariate))]),
                            selector(st, None, P.PARAMETRIC, B.BOUNDED), selector(st, None, P.PARAMETRIC, B.UNBOUNDED),
                            selector(st, None, P.PARAMETRIC), selector(st, None, None, B.SEMI_BOUNDED),
                            selector(st, [G, U], P.NON_PARAMETRIC, B.UNBOUNDED),
                            selector(st, [proto(StubParamArgs, [('delta', 0.3), ('fail', False)], 'kw'), G])]
    return out


def descendants(c):
    out = []
    for sub in c.__subclasses__():
        out.append(sub)
        out.extend(descendants(sub))
    return out


def real_families():
    """the concrete shipped families, by introspection (independent of `_select_candidates`)."""
    from copulas.univariate import Univariate
    seen = []
    for c in descendants(Univariate):
        if ABC not in c.__bases__ and c not in seen:
            seen.append(c)
    return seen


def entry_forms(cls, rng=None):
    out = [Entry('cls:' + cls.__name__, cls), Entry('fqn:' + cls.__name__, fqn(cls))]
    if cls is not StubRaiseInit:
        out.append(Entry('inst:' + cls.__name__, cls()))
    return out


def all_entries():
    ents = []
    for c in real_families() + SELECT_STUBS:
        ents.extend(entry_forms(c))
    ents.append(Entry('inst:StubParam(0.05)', StubParam(delta=0.05)))
    ents.append(Entry('inst:StubParam(-0.02)', StubParam(delta=-0.02)))
    ents.append(Entry('inst:StubParam(fail)', StubParam(fail=True)))
    from copulas.univariate import GaussianKDE
    ents.append(Entry('inst:GaussianKDE(bw=0.3)', GaussianKDE(bw_method=0.3)))
    ents.append(Entry('fqn:missing-class', 'copulas.univariate.NoSuchFamily'))
    ents.append(Entry('fqn:no-dot', 'GaussianUnivariate'))
    ents.extend(e for fam in same_family_prototypes().values() for e in fam)
    protos = prototype_entries()
    ents.extend(protos['family'] + protos['selector'])
    return ents


def same_family_prototypes():
    """several prototypes of ONE class with different hyper-parameters (hence different KS statistics)."""
    from copulas.univariate import GaussianKDE, TruncatedGaussian
    return {
        'GaussianKDE': [Entry('inst:GaussianKDE(bw=%s)' % bw, GaussianKDE(bw_method=bw)) for bw in (3.0, 0.05, 1.0, 0.2)],
        'TruncatedGaussian': [Entry('inst:TruncatedGaussian(-200,200)', TruncatedGaussian(minimum=-200.0, maximum=200.0)),
                              Entry('inst:TruncatedGaussian(auto)', TruncatedGaussian()),
                              Entry('inst:TruncatedGaussian(-1e4,1e4)', TruncatedGaussian(minimum=-1e4, maximum=1e4))],
        'StubParam': [Entry('inst:StubParam(%s)' % d, StubParam(delta=d)) for d in (0.3, 0.0, -0.15, 0.08)]
        + [Entry('inst:StubParam(fail,2)', StubParam(fail=True))],
    }


def same_family_lists():
    """fixed lists: same-family prototypes in both orders, alone and around another family."""
    from copulas.univariate import GaussianUnivariate, StudentTUnivariate
    P = same_family_prototypes()
    kde, tg, sp = P['GaussianKDE'], P['TruncatedGaussian'], P['StubParam']
    student, gauss = Entry('cls:StudentTUnivariate', StudentTUnivariate), Entry('cls:GaussianUnivariate', GaussianUnivariate)
    return [('same-family', L) for L in (
        [kde[0], kde[1]], [kde[1], kde[0]], [gauss, kde[2], kde[3], kde[1]], [tg[0], student, tg[1]], [tg[1], student, tg[0]],
        [sp[0], sp[1]], [sp[1], sp[0]], [sp[4], sp[0], gauss, sp[2], sp[3]])]


class Outcomes:
    """cache of candidate outcomes: (dataset id, entry key) -> None (raised) | float KS (as the code sees it)."""

    def __init__(self):
        self.cache = {}

    @staticmethod
    def compute(entry, X):
        try:
            instance = intended_instance(entry)
            instance.fit(X)
            ks, _ = kstest(X, instance.cdf)
            return float(ks)
        except Exception:
            return None

    def get(self, did, entry, X):
        k = (did, entry.key)
        if k not in self.cache:
            self.cache[k] = self.compute(entry, X)
        return self.cache[k]


def tok(o):
    return 'x' if o is None else vc.f2h(o)


def same(a, b):
    return (a is None and b is None) or (a is not None and b is not None and (a == b or (a != a and b != b)))


# =============================================================================== datasets
DATA_KINDS = ['normal', 'uniform', 'exponential', 'beta', 'lognormal', 'bimodal', 'student', 'ints', 'constant', 'tiny',
              'huge', 'small-scale', 'negative', 'two-values', 'with-nan']


def make_data(kind, nr, n):
    if kind == 'normal':
        return nr.normal(nr.uniform(-5, 5), nr.uniform(0.1, 10), n)
    if kind == 'uniform':
        return nr.uniform(-1, 3, n)
    if kind == 'exponential':
        return nr.exponential(2.0, n)
    if kind == 'beta':
        return nr.beta(nr.uniform(0.5, 5), nr.uniform(0.5, 5), n)
    if kind == 'lognormal':
        return nr.lognormal(0.0, 1.0, n)
    if kind == 'bimodal':
        return np.where(nr.uniform(size=n) < 0.5, nr.normal(-3, 0.5, n), nr.normal(3, 0.8, n))
    if kind == 'student':
        return nr.standard_t(2.5, n)
    if kind == 'ints':
        return nr.randint(0, 6, n).astype(float)
    if kind == 'constant':
        return np.full(n, float(nr.randint(-3, 4)))
    if kind == 'tiny':
        return nr.normal(size=nr.randint(2, 6))
    if kind == 'huge':
        return nr.normal(1e9, 1e8, n)
    if kind == 'small-scale':
        return nr.normal(0, 1e-9, n)
    if kind == 'negative':
        return -nr.gamma(2.0, 1.5, n)
    if kind == 'two-values':
        return nr.choice([0.0, 1.0], n)
    if kind == 'with-nan':
        x = nr.normal(size=n)
        x[nr.randint(0, n)] = np.nan
        return x
    raise ValueError(kind)


def datasets(ctx, label, count, kinds=None):
    rng = ctx.rng(label, 'kinds')
    kinds = kinds or DATA_KINDS
    order = list(kinds)
    rng.shuffle(order)
    out = []
    for k in range(count):
        kind = order[k % len(order)]
        nr = ctx.nprng(label, k)
        n = int(nr.randint(20, 201)) if k % 3 else int(nr.randint(50, 81))
        out.append((f'{label}{k}:{kind}', kind, make_data(kind, nr, n)))
    return out


def large_cases(ctx, label, deep):
    """30000 integer-valued points x orderings of [Uniform, Gaussian, Gamma]: no family fits (all KS p-values are
    exactly 0.0) but the KS distances differ, and in most orderings the first candidate is not the minimiser."""
    from copulas.univariate import GammaUnivariate, GaussianUnivariate, UniformUnivariate
    U, G, Ga = (Entry('cls:' + c.__name__, c) for c in (UniformUnivariate, GaussianUnivariate, GammaUnivariate))
    nr = ctx.nprng(label)
    sets = [(f'{label}:ratings30000', nr.randint(0, 4, 30000).astype(float))]
    orders = [[U, G, Ga], [Ga, U, G], [G, Ga, U]]
    if deep:
        sets.append((f'{label}:counts30000', nr.poisson(1.5, 30000).astype(float)))
        orders += [[U, Ga, G], [Ga, G, U], [G, U, Ga], [U, G], [Ga, G]]
    return [(did, X, L) for did, X in sets for L in orders]


def prototype_lists():
    """fixed lists with prototypes in the candidate-list position: positional / mixed / keyword, parametrised families
    and the selecting wrapper, falsy-but-meaningful values."""
    from copulas.univariate import GaussianUnivariate
    pe = prototype_entries()
    fam = {e.key: e for e in pe['family']}
    sel = pe['selector']
    g = Entry('cls:GaussianUnivariate', GaussianUnivariate)
    pick = lambda cls, st, frag: next(e for e in pe['family'] if e.key.startswith(f'inst:{cls}[{st}]') and frag in e.key)  # noqa
    n = len(sel) // 3
    return [('prototypes', L) for L in (
        [pick('TruncatedGaussian', 'pos', '-200.0')], [g, pick('TruncatedGaussian', 'mixed', 'minimum=0.0,')],
        [pick('TruncatedGaussian', 'kw', 'minimum=0,'), pick('TruncatedGaussian', 'pos', 'maximum=0.0')],
        [pick('GaussianKDE', 'pos', '2.0'), pick('GaussianKDE', 'kw', '0.3')], [pick('GaussianKDE', 'mixed', '2.0'), g],
        [pick('StubParamArgs', 'pos', '0.3'), pick('StubParamArgs', 'kw', '-0.12')],
        [pick('StubParamArgs', 'mixed', '-0.12'), g, pick('StubParamArgs', 'pos', '-0.12')],
        [pick('StubDefaultsArgs', 'kw', 'delta=0,'), g], [pick('StubDefaultsArgs', 'pos', 'delta=0.0')],
        [sel[n + 0]], [sel[2 * n + 0], g], [sel[n + 2], pick('StubParamArgs', 'kw', '0.3')], [sel[2 * n + 3]], [sel[0], sel[n + 6]])]


def candidate_lists(rng, entries, count):
    real = [e for e in entries if e.type.startswith('copulas.') and 'missing' not in e.key and 'no-dot' not in e.key]
    fast = [e for e in real if 'StudentT' not in e.key and 'Beta' not in e.key]
    stubs = [e for e in entries if e not in real]
    good_stubs = [e for e in stubs if e.type.split('.')[-1] not in {c.__name__ for c in BAD_STUBS}
                  and '(fail' not in e.key and 'fail=True' not in e.key and 'missing' not in e.key and 'no-dot' not in e.key]
    bad_stubs = [e for e in stubs if e not in good_stubs]
    lists = []
    for k in range(count):
        mode = rng.choice(['real', 'real', 'mixed', 'mixed', 'mixed', 'stubs', 'bad-only', 'single', 'twins', 'dupes', 'same-family',
                           'same-family', 'prototypes', 'prototypes'])
        if mode == 'real':
            L = rng.sample(real, rng.randint(2, 6))
        elif mode == 'mixed':
            L = rng.sample(fast, rng.randint(1, 4)) + rng.sample(stubs, rng.randint(1, 4))
        elif mode == 'stubs':
            L = rng.sample(stubs, rng.randint(2, 6))
        elif mode == 'bad-only':
            L = rng.sample(bad_stubs, rng.randint(1, 4))
        elif mode == 'single':
            L = [rng.choice(entries)]
        elif mode == 'prototypes':
            protos = [e for e in entries if e.fresh is not None]
            L = rng.sample(protos, rng.randint(1, 3)) + rng.sample(fast + good_stubs, rng.randint(0, 2))
        elif mode == 'same-family':
            fam = rng.choice(sorted(same_family_prototypes()))
            protos = [e for e in entries if e.key.startswith('inst:' + fam + '(')]
            L = rng.sample(protos, rng.randint(2, min(4, len(protos)))) + rng.sample(fast, rng.randint(0, 2))
        elif mode == 'twins':
            tw = [e for e in stubs if 'Twin' in e.key]
            L = rng.sample(tw, rng.randint(2, 4)) + rng.sample(fast, rng.randint(0, 2)) + rng.sample(bad_stubs, rng.randint(0, 2))
        else:
            base = rng.sample(fast + good_stubs, rng.randint(1, 3))
            L = base + [rng.choice(base) for _ in range(rng.randint(1, 3))]
        rng.shuffle(L)
        lists.append((mode, L))
    return lists


# =============================================================================== real observations
def real_univariate_fit(objs, X, **kw):
    """-> ('ok', type, ks of the fitted model on X) | ('err', kind).
    `to_dict()['type']` cannot tell two prototypes of one class apart; the KS statistic of the fitted wrapper
    (same calls: kstest(X, model.cdf), the selected instance was re-fitted on the same X) can."""
    from copulas.univariate import Univariate
    try:
        u = Univariate(candidates=objs, **kw) if objs is not None else Univariate(**kw)
        u.fit(X)
        t = u.to_dict()['type']
    except Exception as e:  # noqa
        return ('err', vc.exc_kind(e))
    try:
        ks = float(kstest(X, u.cdf)[0])
    except Exception:
        ks = None
    return ('ok', t, ks)


def selected_positions(L, outcomes, real):
    """list positions the real result can stand for: same class and (when identifiable) bit-identical KS."""
    idxs = [i for i, e in enumerate(L) if e.type == real[1]]
    exact = [i for i in idxs if outcomes[i] is not None and real[2] is not None and ks_close(outcomes[i], real[2])]
    return exact


def ks_close(a, b):
    if a is None or b is None:
        return False
    return a == b or (a != a and b != b) or abs(a - b) <= 1e-12 * max(1.0, abs(a), abs(b))


# =============================================================================== tie
def run(ctx, lean):
    global _P, _B
    _P, _B = _enums()
    if lean is None:
        for n in ('corr:class-table', 'corr:select_candidates', 'corr:init_candidates', 'corr:select_candidates-random-hierarchies',
                  'corr:select_univariate', 'corr:gaussian_multivariate', 'corr:gaussian_multivariate-fit-history', 'corr:select_candidates-user-subclasses'):
            ctx.ob(n, False, 'tie', 'driver unavailable')
        return
    outs = Outcomes()
    for name, fn in (('class-table', lambda: tie_table(ctx, lean)), ('init_candidates', lambda: tie_init(ctx, lean)),
                     ('random-hierarchies', lambda: tie_hierarchies(ctx, lean)),
                     ('select_univariate', lambda: tie_select(ctx, lean, outs)),
                     ('gaussian_multivariate', lambda: tie_gm(ctx, lean, outs)),
                     ('gaussian_multivariate-fit-history', lambda: tie_gm_history(ctx, lean, outs)),
                     ('select_candidates-user-subclasses', lambda: tie_user_families(ctx, lean))):
        try:
            fn()
        except Exception:     # a crash of one correspondence must not hide the others nor skip the search
            import traceback
            ctx.ob('corr:' + name + ':harness-exception', False, 'tie', traceback.format_exc()[-500:])


# ------------------------------------------------------------------------------- user families below concrete families
class user_families:
    """Context manager: temporarily registers user-defined families the way the library discovers families — by
    subclassing — BELOW CONCRETE library families (one and two levels deep, own PARAMETRIC/BOUNDED tags, an abstract
    intermediate), and unregisters them again (`__subclasses__` holds weak references: dropping every reference and
    collecting removes them).  `.clean` tells whether the hierarchy is back to what it was."""

    def __enter__(self):
        from copulas.univariate import GammaUnivariate, GaussianUnivariate, Univariate
        from scipy import stats
        P, B = _enums()
        self.before = [c.__name__ for c in descendants(Univariate)]

        def ln_fit(self, X):
            X = np.asarray(X, dtype=float)
            if (X <= 0).any():
                raise ValueError('UserLogNormal needs strictly positive data')
            logs = np.log(X)
            self._params = {'s': float(np.std(logs)), 'loc': 0.0, 'scale': float(np.exp(np.mean(logs)))}

        def ln_fit_constant(self, X):
            self._params = {'s': 0.0, 'loc': 0.0, 'scale': float(np.unique(X)[0])}

        def lap_fit(self, X):
            X = np.asarray(X, dtype=float)
            loc = float(np.median(X))
            self._params = {'loc': loc, 'scale': float(np.mean(np.abs(X - loc)))}

        def mid_fit(self, X):
            X = np.asarray(X, dtype=float)
            self._sorted = np.sort(X)
            self._params = {'loc': float(np.mean(X)), 'scale': float(np.std(X))}

        def mid_cdf(self, X):
            self.check_fit()
            X = np.asarray(X, dtype=float)
            n = len(self._sorted)
            return (np.searchsorted(self._sorted, X, 'left') + np.searchsorted(self._sorted, X, 'right')) / (2.0 * n)

        # one level below a concrete family, own BOUNDED tag (log-normal: Gaussian on the log scale)
        LogN = type('UserLogNormal', (GaussianUnivariate,), {
            'PARAMETRIC': P.PARAMETRIC, 'BOUNDED': B.SEMI_BOUNDED, 'MODEL_CLASS': stats.lognorm, '_fit': ln_fit,
            '_fit_constant': ln_fit_constant, '_is_constant': lambda self: self._params['s'] == 0,
            '_extract_constant': lambda self: self._params['scale']})
        # one level below, tags inherited from the concrete parent
        Lap = type('UserLaplace', (GaussianUnivariate,), {'MODEL_CLASS': stats.laplace, '_fit': lap_fit})
        # two levels below, tagged for a filter pair no shipped family has; mid-rank ecdf: fits every dataset best
        Mid = type('UserMidRank', (Lap,), {'PARAMETRIC': P.NON_PARAMETRIC, 'BOUNDED': B.BOUNDED, '_fit': mid_fit,
                                          'cumulative_distribution': mid_cdf})
        # an abstract intermediate below a concrete family, and its concrete child
        Abs = type('UserAbstractGamma', (GammaUnivariate, ABC), {})
        GamC = type('UserGammaChild', (Abs,), {'BOUNDED': B.SEMI_BOUNDED})
        self.classes = [LogN, Lap, Mid, Abs, GamC]
        return self

    def __exit__(self, *a):
        from copulas.univariate import Univariate
        self.classes = None
        gc.collect()
        self.clean = [c.__name__ for c in descendants(Univariate)] == self.before
        return False


def expected_default_candidates(p, b):
    """what `Univariate(parametric=p, bounded=b)` must choose from: every non-abstract class below Univariate, found
    by walking `__subclasses__` here, whose tags match."""
    from copulas.univariate import Univariate
    out = []
    for c in descendants(Univariate):
        if c in out or ABC in c.__bases__:
            continue
        if (p is None or c.PARAMETRIC == p) and (b is None or c.BOUNDED == b):
            out.append(c)
    return out


def below_concrete(c):
    """has a non-abstract proper ancestor below Univariate (i.e. specialises a concrete family)."""
    from copulas.univariate import Univariate
    return any(a is not c and a is not Univariate and issubclass(a, Univariate) and ABC not in a.__bases__ for a in c.__mro__)


def tie_user_families(ctx, lean):
    from copulas.univariate import Univariate
    bad = None
    with user_families() as uf:
        toks = tree_tokens(Univariate)
        for p, b in filter_pairs():
            real = ['ok'] + [c.__name__ for c in Univariate._select_candidates(p, b)]
            model = ask(lean, f'cands {p_tok(p)} {b_tok(b)} ' + ' '.join(toks)).split()
            ctx.case(('user-families', p_tok(p), b_tok(b)))
            ctx.count('filter:with-user-subclasses-of-concrete-families')
            if real != model and bad is None:
                bad = {'tree': toks, 'parametric': str(p), 'bounded': str(b), 'real': real[1:], 'model': model}
    if not uf.clean:
        ctx.notes.append('user families could not be unregistered (still in __subclasses__)')
    ctx.ob('corr:select_candidates-user-subclasses', bad is None, 'tie', bad or 'ok')


def ask(lean, line):
    return lean.ask('select ' + line)


# ------------------------------------------------------------------------------- class table / filters
def p_tok(p):
    return '-' if p is None else str(list(_P).index(p))


def b_tok(b):
    return '-' if b is None else str(list(_B).index(b))


def filter_pairs():
    return [(p, b) for p in [None] + list(_P) for b in [None] + list(_B)]


def introspect_rows(root):
    """rows in the order `_select_candidates` tests them, by introspection of the imported classes."""
    rows = []
    for sub in root.__subclasses__():
        rows.extend(introspect_rows(sub))
        rows.append('|'.join([sub.__name__, '1' if ABC in sub.__bases__ else '0', p_tok(sub.PARAMETRIC), b_tok(sub.BOUNDED),
                              ','.join(b.__name__ for b in sub.__bases__)]))
    return rows


def tie_table(ctx, lean):
    from copulas.univariate import Univariate
    # the P/B numbering used on the wire must be the enum definition order the generator assumed
    order_ok = [m.name for m in _P] == ['NON_PARAMETRIC', 'PARAMETRIC'] and \
        [m.name for m in _B] == ['UNBOUNDED', 'SEMI_BOUNDED', 'BOUNDED']
    got = ask(lean, 'gentable').split()
    want = ['ok'] + introspect_rows(Univariate)
    ctx.case(('gentable',))
    ctx.ob('corr:class-table', order_ok and got == want, 'tie',
           'ok' if order_ok and got == want else {'generated': got, 'introspection': want, 'enum-order': order_ok})
    bad = None
    for p, b in filter_pairs():
        real = ['ok'] + [c.__name__ for c in Univariate._select_candidates(p, b)]
        model = ask(lean, f'gencands {p_tok(p)} {b_tok(b)}').split()
        ctx.case(('gencands', p_tok(p), b_tok(b)))
        ctx.count('filter:' + ('empty' if len(real) == 1 else 'non-empty'))
        if real != model and bad is None:
            bad = {'parametric': str(p), 'bounded': str(b), 'real': real[1:], 'model': model}
    ctx.ob('corr:select_candidates', bad is None, 'tie', bad or 'ok')


def tie_init(ctx, lean):
    from copulas.univariate import GaussianUnivariate, UniformUnivariate, Univariate
    rng = ctx.rng('init')
    fams = real_families()
    bad = None
    for k in range(12 + 6 * ctx.scale):
        p, b = rng.choice(filter_pairs())
        form = rng.choice(['none', 'empty', 'explicit', 'explicit'])
        if form == 'none':
            explicit = None
        elif form == 'empty':
            explicit = []
        else:
            explicit = rng.sample(fams + [StubShiftA, StubRaiseFit], rng.randint(1, 4))
        try:
            u = Univariate(candidates=explicit, parametric=p, bounded=b)
            real = ['ok'] + [c.__name__ for c in u.candidates]
        except Exception as e:  # noqa
            real = ['err', vc.exc_kind(e)]
        filtered = [c.__name__ for c in Univariate._select_candidates(p, b)]
        ex = '-' if explicit is None else ' '.join([str(len(explicit))] + [c.__name__ for c in explicit])
        model = ask(lean, f'initc {ex} ' + ' '.join(filtered)).split()
        ctx.case(('initc', form, p_tok(p), b_tok(b), ex))
        ctx.count('init:' + form)
        if real != model and bad is None:
            bad = {'candidates': ex, 'parametric': str(p), 'bounded': str(b), 'real': real, 'model': model}
    ctx.ob('corr:init_candidates', bad is None, 'tie', bad or 'ok')


def make_hierarchy(rng):
    """a random class hierarchy under a fresh root that borrows the REAL `_select_candidates` classmethod."""
    from copulas.univariate import Univariate
    body = {'_select_candidates': Univariate.__dict__['_select_candidates'],
            'PARAMETRIC': rng.choice(list(_P)), 'BOUNDED': rng.choice(list(_B))}
    root = type('Root', (object,), body)
    classes = [root]
    shape = rng.choice(['flat', 'deep', 'random', 'random', 'random'])
    for k in range(rng.randint(0, 11)):
        if shape == 'flat':
            parents = [root]
        elif shape == 'deep':
            parents = [classes[-1]]
        else:
            parents = rng.sample(classes, 2 if (len(classes) > 1 and rng.random() < 0.2) else 1)
        bases = tuple(parents) + ((ABC,) if rng.random() < 0.3 else ())
        cbody = {}
        if rng.random() < 0.5:
            cbody['PARAMETRIC'] = rng.choice(list(_P))
        if rng.random() < 0.5:
            cbody['BOUNDED'] = rng.choice(list(_B))
        try:
            classes.append(type(f'K{k}', bases, cbody))
        except TypeError:        # inconsistent MRO
            continue
    return root, classes


def tree_tokens(cls):
    subs = cls.__subclasses__()
    out = ['|'.join([cls.__name__, '1' if ABC in cls.__bases__ else '0', p_tok(cls.PARAMETRIC), b_tok(cls.BOUNDED),
                     str(len(subs))])]
    for s in subs:
        out.extend(tree_tokens(s))
    return out


def tie_hierarchies(ctx, lean):
    rng = ctx.rng('hier')
    bad = None
    for k in range(25 * ctx.scale):
        root, classes = make_hierarchy(rng)
        toks = tree_tokens(root)
        for p, b in rng.sample(filter_pairs(), 3):
            real = ['ok'] + [c.__name__ for c in root._select_candidates(p, b)]
            model = ask(lean, f'cands {p_tok(p)} {b_tok(b)} ' + ' '.join(toks)).split()
            ctx.case(('hier', tuple(toks), p_tok(p), b_tok(b)), nontrivial=len(classes) > 1)
            ctx.count('hier:classes=%s' % ('1' if len(classes) == 1 else '2-5' if len(classes) <= 5 else '6+'))
            if any(len(c.__bases__) - (ABC in c.__bases__) > 1 for c in classes):
                ctx.count('hier:multiple-inheritance')
            if real != model and bad is None:
                bad = {'tree': toks, 'parametric': str(p), 'bounded': str(b), 'real': real[1:], 'model': model}
        del root, classes
    gc.collect()
    ctx.ob('corr:select_candidates-random-hierarchies', bad is None, 'tie', bad or 'ok')


# ------------------------------------------------------------------------------- selection
def check_selection(lean, L, outcomes, real):
    """-> None if the real result is (a) accepted by the acceptor and (b) the model's choice; else a dict."""
    toks = ' '.join(tok(o) for o in outcomes)
    sel = ask(lean, 'sel ' + toks)
    fit = ask(lean, 'fit ' + toks)
    if real[0] == 'ok':
        idxs = selected_positions(L, outcomes, real)
        if not idxs:
            return {'why': 'the returned model is none of the configured candidates: no list entry of its class has its KS '
                           'statistic (a prototype re-created with another configuration?)', 'model': sel,
                    'ks of returned model': real[2]}
        accepted = any(ask(lean, f'acc {i} {toks}') == 'yes' for i in idxs)
        model_idx = int(sel.split()[1]) if sel.startswith('ok ') else None
        model_type = L[model_idx].type if model_idx is not None else None
        if not accepted:
            return {'why': 'selected candidate is not a minimiser among the fittable candidates', 'model': sel,
                    'real positions': idxs}
        if model_type != real[1] or not fit.startswith('ok '):
            return {'why': 'selected class differs from the model fold', 'model': sel, 'model_type': model_type}
        if model_idx not in idxs and not ks_close(outcomes[model_idx], real[2]):
            return {'why': 'selected candidate (same class, other hyper-parameters) differs from the model fold',
                    'model': sel, 'real positions': idxs}
        return None
    accepted = ask(lean, f'acc none {toks}') == 'yes'
    if not accepted:
        return {'why': 'fit raised although a candidate with a KS statistic below +inf exists', 'model': sel}
    if sel != 'none' or fit != 'err ' + real[1]:
        return {'why': 'error branch differs from the model', 'model': sel, 'model_fit': fit}
    return None


def tie_select(ctx, lean, outs):
    rng = ctx.rng('select')
    entries = all_entries()
    bad = None
    hyp_bad = None
    nondet = 0
    for dk, (did, kind, X) in enumerate(datasets(ctx, 'S', 10 + 4 * (ctx.scale - 1))):
        for mode, L in candidate_lists(rng, entries, 8 if ctx.scale == 1 else 10) + \
                (same_family_lists() if dk < 3 * ctx.scale else []) + (prototype_lists() if dk < 2 * ctx.scale else []):
            outcomes = [outs.get(did, e, X) for e in L]
            real = real_univariate_fit([e.obj for e in L], X)
            d = check_selection(lean, L, outcomes, real)
            if d is not None:
                fresh = [Outcomes.compute(e, X) for e in L]
                if not all(same(a, b) for a, b in zip(fresh, outcomes)):
                    nondet += 1
                    continue
            fittable = sum(1 for o in outcomes if o is not None and o == o and o < math.inf)
            ctx.case((did, tuple(e.key for e in L)), nontrivial=fittable >= 2)
            ctx.count(f'select:data={kind}')
            ctx.count(f'select:list={mode}')
            ctx.count('select:real=' + ('ok' if real[0] == 'ok' else 'error-branch'))
            ctx.count('select:fittable=%s' % ('0' if fittable == 0 else '1' if fittable == 1 else '2+'))
            vals = [o for o in outcomes if o is not None and o == o]
            if len(vals) != len(set(vals)):
                ctx.count('select:exact-tie-present')
                if real[0] == 'ok' and vals.count(min(vals)) > 1:
                    ctx.count('select:exact-tie-at-minimum')
                    if len({e.type for e, o in zip(L, outcomes) if o == min(vals)}) > 1:
                        ctx.count('select:exact-tie-at-minimum-between-classes')
            by_type = {}
            for e, o in zip(L, outcomes):
                if o is not None and o == o:
                    by_type.setdefault(e.type, set()).add(o)
            if any(len(v) > 1 for v in by_type.values()):
                ctx.count('select:same-class-prototypes-with-different-ks')
            if any(o is not None and o != o for o in outcomes):
                ctx.count('select:nan-present')
            if any(o is None for o in outcomes):
                ctx.count('select:raised-present')
            for e, o in zip(L, outcomes):    # hypothesis on kstest for genuine cdfs: statistic in [0,1] or NaN
                if e.type.startswith('copulas.') and o is not None and o == o and not (0.0 <= o <= 1.0) and hyp_bad is None:
                    hyp_bad = {'dataset': did, 'candidate': e.key, 'ks': o}
            ctx.sample({'dataset': did, 'n': len(X), 'candidates': [e.key for e in L],
                        'ks': ['raised' if o is None else o for o in outcomes], 'real': real})
            if d is not None and bad is None:
                bad = dict(d, dataset=did, data=X.tolist()[:8], candidates=[e.key for e in L],
                           ks=['raised' if o is None else o for o in outcomes], real=real)
    for did, X, L in large_cases(ctx, 'SL', ctx.scale > 1)[:2 if ctx.scale == 1 else None]:
        outcomes = [outs.get(did, e, X) for e in L]
        real = real_univariate_fit([e.obj for e in L], X)
        d = check_selection(lean, L, outcomes, real)
        ctx.case((did, tuple(e.key for e in L)), nontrivial=True)
        ctx.count('select:data=large-badly-fitting')
        if d is not None and bad is None:
            bad = dict(d, dataset=did, data=X.tolist()[:8], candidates=[e.key for e in L], ks=outcomes, real=real)
    if nondet:
        ctx.notes.append(f'{nondet} selection cases skipped: candidate outcomes were not reproducible')
    ctx.ob('corr:select_univariate', bad is None, 'tie', bad or 'ok')
    ctx.ob('hyp:kstest-statistic-in-unit-interval', hyp_bad is None, 'tie', hyp_bad or 'ok')


# ------------------------------------------------------------------------------- GaussianMultivariate
def col_tok(c):
    return ('i:%d' % c) if isinstance(c, (int, np.integer)) else 's:' + str(c)


class Refs:
    """distribution references <-> wire tokens."""

    def __init__(self):
        self.objs = {}

    def tok(self, entry):
        for t, e in self.objs.items():      # one token per python object: tokens are compared by identity afterwards
            if e.obj is entry.obj:
                return t
        t = 'd%d' % len(self.objs)
        self.objs[t] = entry
        return t

    def entry_of(self, obj):
        for e in self.objs.values():
            if e.obj is obj:
                return e
        return Entry('configured', obj)

    def resolve(self, t):
        from copulas.univariate import Univariate
        if t in self.objs:
            return self.objs[t]
        import copulas.univariate as cu
        if hasattr(cu, t):        # the model's default: the class named by the generated `defaultDistribution`
            return Entry('cls:' + t, getattr(cu, t))
        raise KeyError(t)


def gm_refs():
    """distribution references usable as a GaussianMultivariate configuration (well-behaved cdf when fittable)."""
    from copulas.univariate import (BetaUnivariate, GammaUnivariate, GaussianKDE, GaussianUnivariate, TruncatedGaussian,
                                    UniformUnivariate, Univariate)
    P, B = _P, _B
    refs = []
    for c in (GaussianUnivariate, UniformUnivariate, GammaUnivariate, GaussianKDE, TruncatedGaussian, BetaUnivariate,
              StubRaiseFit, StubRaiseFitOther, StubShiftA, StubEcdfMid):
        refs.extend(entry_forms(c))
    E = lambda c: Entry('cls:' + c.__name__, c)  # noqa: E731
    kde = lambda bw: Entry('inst:GaussianKDE(bw=%s)' % bw, GaussianKDE(bw_method=bw))  # noqa: E731
    sp = lambda d: Entry('inst:StubParam(%s)' % d, StubParam(delta=d))  # noqa: E731
    refs += [Entry('cls:Univariate', Univariate), Entry('fqn:Univariate', 'copulas.univariate.Univariate'),
             Entry('fqn:base.Univariate', 'copulas.univariate.base.Univariate'),
             selector('kw'), selector('kw', None, P.PARAMETRIC), selector('kw', None, None, B.BOUNDED),
             selector('kw', None, P.NON_PARAMETRIC, B.SEMI_BOUNDED),
             selector('kw', [E(UniformUnivariate), E(GaussianUnivariate)]),
             selector('kw', [kde(3.0), kde(0.05)]),
             selector('kw', [sp(0.3), E(GaussianUnivariate), sp(0.0)]),
             selector('kw', [E(StubRaiseFit), E(StubNaN), E(StubRaiseCdf)]),
             selector('kw', [E(StubTwinB), E(StubTwinA), E(StubRaiseFit)]),
             Entry('inst:StubParam(fail)', StubParam(fail=True)), Entry('inst:StubParam(0.04)', StubParam(delta=0.04)),
             Entry('inst:GaussianKDE(bw=0.5)', GaussianKDE(bw_method=0.5)),
             Entry('cls:StubRaiseInit', StubRaiseInit), Entry('fqn:missing-class', 'copulas.univariate.NoSuchFamily')]
    protos = prototype_entries()
    refs += protos['family'] + protos['selector']
    return refs


def is_selector(entry):
    from copulas.univariate import Univariate
    o = entry.obj
    if isinstance(o, str):
        return o in ('copulas.univariate.Univariate', 'copulas.univariate.base.Univariate')
    return o is Univariate or type(o) is Univariate


def kstok(ks):
    return 'x' if ks is None else 'nan' if ks != ks else vc.f2h(ks)


def model_ks(u, series):
    """KS statistic of a fitted column model on its column (same call as the code: kstest(X, model.cdf))."""
    try:
        return float(kstest(series, u.cdf)[0])
    except Exception:
        return None


def column_outcome(lean, outs, did, col, entry, series):
    """the outcome of reference `entry` — as the user configured it — on this column, as wire tokens (inst, fit)
    + selector info.  A fitted model is reported as `<type>@<KS on the column>`."""
    from copulas.utils import get_instance
    try:
        get_instance(entry.obj)                 # can the reference be instantiated at all (the error branch)
        inst = intended_instance(entry)
    except Exception as e:  # noqa
        return 'err:' + vc.exc_kind(e), 'err', None
    if is_selector(entry):
        cands = intended_candidates(entry)
        outcomes = [outs.get((did, col), c, series) for c in cands]
        r = ask(lean, 'fit ' + ' '.join(tok(o) for o in outcomes))
        if r.startswith('ok '):
            i = int(r.split()[1])
            return 'ok', 'ok:' + cands[i].type + '@' + kstok(outcomes[i]), (cands, outcomes)
        return 'ok', 'err', (cands, outcomes)
    try:
        inst.fit(series)
        return 'ok', 'ok:' + fqn(inst) + '@' + kstok(model_ks(inst, series)), None
    except Exception:
        return 'ok', 'err', None


def make_config(rng, refs, columns):
    """-> (kind, python config, wire tokens, Refs)"""
    R = Refs()
    kind = rng.choice(['class', 'fqn', 'instance', 'dict-full', 'dict-partial', 'dict-partial', 'dict-empty', 'dict-extra',
                       'default'])
    by_form = lambda f: [e for e in refs if e.key.startswith(f)]  # noqa: E731
    if kind in ('class', 'fqn', 'instance'):
        e = rng.choice(by_form({'class': 'cls:', 'fqn': 'fqn:', 'instance': 'inst:'}[kind]))
        return kind, e.obj, ['single', R.tok(e)], R
    if kind == 'default':
        return kind, None, None, R
    if kind == 'dict-full':
        keys = list(columns)
    elif kind == 'dict-empty':
        keys = []
    else:
        keys = [c for c in columns if rng.random() < 0.5]
        if len(keys) == len(columns):
            keys = keys[:-1]
    items = [(k, rng.choice(refs)) for k in keys]
    if kind == 'dict-extra':
        items.append(('not-a-column', rng.choice(refs)))
        items.insert(0, (99, rng.choice(refs)))
    rng.shuffle(items)
    toks = ['dict', str(len(items))]
    for k, e in items:
        toks += [col_tok(k), R.tok(e)]
    return kind, {k: e.obj for k, e in items}, toks, R


def real_gm_fit(gm, df):
    try:
        gm.fit(df)
        return 'ok ' + ' '.join(f'{col_tok(c)}={u.to_dict()["type"]}@{kstok(model_ks(u, df[c]))}'
                                for c, u in zip(gm.columns, gm.univariates))
    except Exception as e:  # noqa
        return 'err ' + vc.exc_kind(e)


def frame_oracles(lean, outs, toks, R, did, df):
    """per column of the frame: the reference the MODEL picks for it and the real outcome of that reference on the
    column -> (wire tokens `cols n …`, selector info per column, branch labels)"""
    from copulas.univariate import GaussianUnivariate
    columns = list(df.columns)
    req, selectors, branch = [], {}, []
    for c in columns:
        series = df[c]
        r = ask(lean, 'col ' + ' '.join(toks) + ' ' + col_tok(c))
        ref_tok = r.split()[1]
        entry = R.resolve(ref_tok)
        inst, fit, selinfo = column_outcome(lean, outs, did, col_tok(c), entry, series)
        if selinfo:
            selectors[col_tok(c)] = selinfo
        try:
            g = GaussianUnivariate()
            g.fit(series)
            gauss = 'ok:' + fqn(g) + '@' + kstok(model_ks(g, series))
        except Exception as e:  # noqa
            gauss = 'err:' + vc.exc_kind(e)
        req += [col_tok(c), ref_tok, inst, fit, gauss]
        branch.append('noinst' if inst != 'ok' else 'fallback' if fit == 'err' else 'selector' if selinfo else 'configured')
        if ref_tok not in R.objs and toks[0] == 'dict':
            branch.append('dict-default')
    return [f'cols {len(columns)}'] + req, selectors, branch


def split_fit(x):
    """`col=type@ks` -> (col, type, ks float or None)"""
    col, rest = x.split('=', 1)
    t, _, k = rest.partition('@')
    return col, t, (None if k in ('', 'x') else float('nan') if k == 'nan' else vc.h2f(k))


def same_fit(lean, real, model, selectors):
    """real and model fit results agree: per column the same class and the same KS of the fitted model (a different
    minimiser in a selector column is not a disagreement)."""
    if real == model:
        return True
    if not (real.startswith('ok ') and model.startswith('ok ')):
        return False
    rl, ml = real.split()[1:], model.split()[1:]
    if len(rl) != len(ml):
        return False
    for a, b in zip(rl, ml):
        if a == b:
            continue
        ca, ta, ka = split_fit(a)
        cb, tb, kb = split_fit(b)
        if ca != cb:
            return False
        if ta == tb and ks_close(ka, kb):
            continue
        cands, outcomes = selectors.get(ca, (None, None))
        if cands is None:
            return False
        t = ' '.join(tok(o) for o in outcomes)
        pos = [i for i, e in enumerate(cands) if e.type == ta and ks_close(outcomes[i], ka)]
        if not any(ask(lean, f'acc {i} {t}') == 'yes' for i in pos):
            return False
    return True


def config_tokens(dist, R):
    """the object's `distribution` attribute as wire tokens (values identified by identity with what was sent)."""
    def ref(v):
        for t, e in R.objs.items():
            if e.obj is v:
                return t
        return '?' + (v if isinstance(v, str) else fqn(v))
    if isinstance(dist, dict):
        out = ['dict', str(len(dist))]
        for k, v in dist.items():
            out += [col_tok(k), ref(v)]
        return out
    return ['single', ref(dist)]


def prototype_configs(columns, which):
    """fixed configurations with prototypes (positional / mixed / keyword; wrapper and parametrised families) in the
    global and in the per-column-dict position -> [(kind, cfg, toks, R)]"""
    pe = prototype_entries()
    n = len(pe['selector']) // 3
    nf = len(pe['family']) // 3
    sel = {st: pe['selector'][i * n:(i + 1) * n] for i, st in enumerate(STYLES)}
    fam = {st: pe['family'][i * nf:(i + 1) * nf] for i, st in enumerate(STYLES)}
    singles = [sel['pos'][0], sel['pos'][2], sel['mixed'][3], fam['pos'][1], fam['pos'][6], fam['kw'][8], sel['mixed'][0],
               fam['mixed'][5], sel['pos'][7], fam['pos'][9], sel['kw'][2], fam['mixed'][0]]
    out = []
    for e in singles[which::2]:
        R = Refs()
        out.append(('proto-global', e.obj, ['single', R.tok(e)], R))
    pairs = [(sel['pos'][0], fam['pos'][1]), (fam['mixed'][6], sel['mixed'][2]), (sel['pos'][3], fam['kw'][8]),
             (fam['pos'][5], sel['pos'][6])]
    for a, b in pairs[which::2]:
        R = Refs()
        items = [(columns[0], a), (columns[-1], b)]
        toks = ['dict', '2']
        for k, e in items:
            toks += [col_tok(k), R.tok(e)]
        out.append(('proto-dict', {k: e.obj for k, e in items}, toks, R))
    return out


def gm_case(ctx, lean, outs, rng, refs, did, df, preset=None):
    """-> (key, real, model, detail-or-None)"""
    from copulas.multivariate import GaussianMultivariate
    columns = list(df.columns)
    kind, cfg, toks, R = preset if preset is not None else make_config(rng, refs, columns)
    default = toks is None
    if default:       # GaussianMultivariate() — the constructor default must be the generated default too
        toks = ['single', 'Univariate']
    gm = GaussianMultivariate() if default else GaussianMultivariate(distribution=cfg)
    real = real_gm_fit(gm, df)
    req, selectors, branch = frame_oracles(lean, outs, toks, R, did, df)
    model = ask(lean, 'gm ' + ' '.join(toks) + ' ' + ' '.join(req))
    key = (did, kind, tuple(toks))
    detail = None
    if not same_fit(lean, real, model, selectors):
        detail = {'dataset': did, 'config': kind, 'wire': ' '.join(toks), 'columns': [col_tok(c) for c in columns],
                  'oracles': ' '.join(req), 'real': real, 'model': model}
    elif not default and config_tokens(gm.distribution, R) != toks:
        detail = {'dataset': did, 'config': kind, 'why': 'fit changed the distribution configuration of the object',
                  'configured': ' '.join(toks), 'after fit': ' '.join(config_tokens(gm.distribution, R))}
    return key, kind, branch, real, model, detail


# ------------------------------------------------------------------------------- fit histories
class StubPositive(_Stub):
    """can only be fitted to strictly positive data."""

    def fit(self, X):
        if np.min(np.asarray(X, dtype=float)) <= 0:
            raise ValueError('stub: needs strictly positive data')
        super().fit(X)


class StubSmallOnly(_Stub):
    """can only be fitted to at most 60 rows."""

    def fit(self, X):
        if len(X) > 60:
            raise RuntimeError('stub: too many rows')
        super().fit(X)


def history_refs():
    from copulas.univariate import GammaUnivariate, GaussianKDE, GaussianUnivariate, UniformUnivariate, Univariate
    refs = []
    for c in (StubPositive, StubSmallOnly, StubPositive, StubSmallOnly, GaussianUnivariate, UniformUnivariate, GammaUnivariate,
              GaussianKDE, StubRaiseFit, StubShiftA):
        refs.extend(entry_forms(c))
    refs += [Entry('cls:Univariate', Univariate),
             selector('kw', [Entry('cls:StubPositive', StubPositive), Entry('cls:UniformUnivariate', UniformUnivariate)]),
             selector('pos', [Entry('cls:StubSmallOnly', StubSmallOnly)]),
             selector('mixed', None, _P.PARAMETRIC, _B.UNBOUNDED)]
    refs += [e for e in prototype_entries()['family'] if 'Stub' in e.key][:6]
    return refs


def history_frames(ctx, label, k, rng):
    """2-4 frames with the same columns; 'a' is signed or positive, sizes 40 or 90 (the data-dependent stubs fail on
    signed / large frames)."""
    nr = ctx.nprng(label, k)
    names = rng.choice([['a', 'b', 'c'], [0, 1, 2], ['a', 'b']])
    frames = []
    for j in range(rng.randint(2, 4)):
        positive, n = rng.random() < 0.5, rng.choice([40, 90])
        cols = []
        for i, _ in enumerate(names):
            x = nr.gamma(2.0, 1.5, n) if positive else nr.normal(0.0, 2.0, n)
            cols.append(x if i != 1 else nr.beta(2.0, 3.0, n) - (0.0 if positive else 0.5))
        frames.append((f'{label}{k}.{j}:{"pos" if positive else "signed"}{n}', pd.DataFrame(dict(zip(names, cols)))))
    # make sure the interesting order (cannot fit, then can fit) occurs often
    if rng.random() < 0.6:
        frames.sort(key=lambda f: ('pos' in f[0], '40' in f[0]))
    return frames


def history_config(rng, refs, columns):
    R = Refs()
    if rng.random() < 0.2:
        e = rng.choice(refs)
        return 'single', e.obj, ['single', R.tok(e)], R
    keys = [c for c in columns if rng.random() < 0.75] or [columns[0]]
    items = [(k, rng.choice(refs)) for k in keys]
    toks = ['dict', str(len(items))]
    for k, e in items:
        toks += [col_tok(k), R.tok(e)]
    return 'dict', {k: e.obj for k, e in items}, toks, R


def history_steps(rng, nframes):
    """which object ('A', or 'B' = a second model constructed with the SAME configuration object) fits which frame."""
    steps = [('A', j) for j in range(nframes)]
    if rng.random() < 0.6:
        steps = [('A', 0)] + [(rng.choice('AB'), j) for j in range(1, nframes)]
        if not any(m == 'B' for m, _ in steps):
            steps.append(('B', nframes - 1))
    return steps


def tie_gm_history(ctx, lean, outs):
    from copulas.multivariate import GaussianMultivariate
    rng = ctx.rng('gmhist')
    refs = history_refs()
    bad = None
    for k in range(8 * ctx.scale):
        frames = history_frames(ctx, 'F', k, rng)
        columns = list(frames[0][1].columns)
        kind, cfg, toks, R = history_config(rng, refs, columns)
        steps = history_steps(rng, len(frames))
        objs = {m: GaussianMultivariate(distribution=cfg) for m in sorted({m for m, _ in steps})}
        real = {m: [] for m in objs}
        wire = {m: [] for m in objs}
        sels = {m: [] for m in objs}
        seen_fallback = False
        for m, j in steps:
            did, df = frames[j]
            real[m].append(real_gm_fit(objs[m], df))
            req, selectors, branch = frame_oracles(lean, outs, toks, R, did, df)
            wire[m].append(req)
            sels[m].append(selectors)
            if seen_fallback and 'configured' in branch:
                ctx.count('gmhist:configured-fit-after-an-earlier-fallback')
            seen_fallback = seen_fallback or 'fallback' in branch
        ctx.case((tuple(toks), tuple(steps), frames[0][0]), nontrivial=len(steps) > 1)
        ctx.count('gmhist:config=' + kind)
        ctx.count('gmhist:objects=%d' % len(objs))
        for m in objs:
            reply = ask(lean, 'gmhist ' + ' '.join(toks) + f' fits {len(wire[m])} ' + ' '.join(' '.join(r) for r in wire[m]))
            parts = [x.strip() for x in reply.split('|')]
            fits, final = parts[:-1], parts[-1]
            ok = len(fits) == len(real[m]) and all(same_fit(lean, r, f, s) for r, f, s in zip(real[m], fits, sels[m]))
            after = 'cfg ' + ' '.join(config_tokens(objs[m].distribution, R))
            if (not ok or after != final) and bad is None:
                bad = {'config': ' '.join(toks), 'steps': [(mm, frames[j][0]) for mm, j in steps], 'object': m,
                       'real fits': real[m], 'model fits': fits, 'real distribution after': after, 'model': final}
    ctx.ob('corr:gaussian_multivariate-fit-history', bad is None, 'tie', bad or 'ok')


def make_frame(ctx, label, k):
    nr = ctx.nprng(label, k)
    rng = ctx.rng(label, k)
    ncol = rng.randint(2, 4)
    n = rng.randint(40, 90)
    kinds = [rng.choice(['normal', 'uniform', 'exponential', 'beta', 'bimodal', 'ints', 'constant', 'negative', 'lognormal'])
             for _ in range(ncol)]
    cols = {}
    for j, kd in enumerate(kinds):
        x = make_data(kd, nr, n)
        cols[j] = x
    if rng.random() < 0.5:
        df = pd.DataFrame({('c%d_%s' % (j, kinds[j])): v for j, v in cols.items()})
    else:
        df = pd.DataFrame(np.column_stack([cols[j] for j in range(ncol)]))     # integer column names
    return f'{label}{k}:' + '+'.join(kinds), df


def tie_gm(ctx, lean, outs):
    rng = ctx.rng('gm')
    refs = gm_refs()
    bad = None
    for k in range(6 + 3 * (ctx.scale - 1)):
        did, df = make_frame(ctx, 'G', k)
        presets = prototype_configs(list(df.columns), k % 2) if k < 2 * ctx.scale else []
        for preset in [None] * (6 if ctx.scale == 1 else 8) + presets:
            key, kind, branch, real, model, detail = gm_case(ctx, lean, outs, rng, refs, did, df, preset)
            ctx.case(key, nontrivial=True)
            ctx.count('gm:config=' + kind)
            for b in set(branch):
                ctx.count('gm:column=' + b)
            ctx.count('gm:real=' + real.split()[0] + (':' + real.split()[1] if real.startswith('err') else ''))
            ctx.sample({'dataset': did, 'config': kind, 'real': real, 'model': model}, cap=10)
            if detail is not None and bad is None:
                bad = detail
    ctx.ob('corr:gaussian_multivariate', bad is None, 'tie', bad or 'ok')


# =============================================================================== failing-input search (real code only)
def lt(a, b):
    return a is not None and b is not None and a < b      # IEEE: false on NaN


def optimality_violation(L, X, outcomes, retry=True):
    """the property's optimality clause on the real `Univariate(candidates=L).fit(X)`:
    -> None | (observed, required, class key)"""
    v = _optimality_violation(L, X, outcomes)
    if v is not None and retry and v[2].endswith('not-a-configured-candidate'):
        # KS equality presumes reproducible fits: confirm with freshly computed outcomes before reporting
        v = _optimality_violation(L, X, [Outcomes.compute(e, X) for e in L])
    return v


def _optimality_violation(L, X, outcomes, real=None):
    real = real if real is not None else real_univariate_fit([e.obj for e in L], X)
    ks = ['raised' if o is None else o for o in outcomes]
    finite = [o for o in outcomes if o is not None and o < math.inf]
    if real[0] == 'ok':
        mine = [o for e, o in zip(L, outcomes) if e.type == real[1] and o is not None and o == o]
        if not mine:
            return ({'selected': real[1], 'ks': ks}, 'the selected family is one that could be fitted to the data',
                    'Univariate.fit:selected-unfittable')
        # the entry actually selected is identified by the KS of the returned model (two prototypes of one class
        # differ only there); a returned model that is NONE of the configured entries lost its configuration
        if real[2] is not None and not any(ks_close(o, real[2]) for o in mine):
            return ({'selected': real[1], 'ks of returned model': real[2], 'ks of the configured candidates': ks,
                     'candidates': [e.key for e in L]},
                    'the model returned is one of the configured candidates (same class AND same configuration: its KS '
                    'statistic on the data equals that candidate\'s)', 'Univariate.fit:selected-model-not-a-configured-candidate')
        best = real[2] if real[2] is not None else min(mine)
        smaller = [(e.key, o) for e, o in zip(L, outcomes) if lt(o, best)]
        if smaller:
            return ({'selected': real[1], 'selected_ks': best, 'smaller': smaller, 'ks': ks},
                    'no fittable candidate has a strictly smaller KS statistic than the selected one',
                    'Univariate.fit:not-minimal')
    elif finite:
        return ({'raised': real[1], 'ks': ks}, 'a minimiser is selected whenever some candidate can be fitted',
                'Univariate.fit:raises-with-fittable-candidate')
    return None


def search(ctx, deep):
    global _P, _B
    _P, _B = _enums()
    from copulas.multivariate import GaussianMultivariate
    from copulas.univariate import GaussianUnivariate, Univariate
    rng = ctx.rng('search')
    outs = Outcomes()
    checked = found = 0

    def bad(entry, inp, obs, req, cls):
        nonlocal found
        found += 1
        ctx.fail_input(entry, inp, obs, req, cls)

    def part1():
        nonlocal checked
        # ---- 1. optimality of Univariate.fit
        entries = all_entries()
        for dk, (did, kind, X) in enumerate(datasets(ctx, 'Q', 30 if deep else 5)):
            for mode, L in candidate_lists(rng, entries, 12 if deep else 5) + (same_family_lists() if deep or dk < 3 else []) + (prototype_lists() if deep or dk < 2 else []) + \
                    [('all-real', [Entry('cls:' + c.__name__, c) for c in real_families()])]:
                outcomes = [outs.get(did, e, X) for e in L]
                checked += 1
                v = optimality_violation(L, X, outcomes)
                if v is not None:
                    bad('Univariate.fit', {'dataset': did, 'X': X.tolist(), 'candidates': [e.key for e in L]}, *v)
        # large badly fitting data: every KS p-value underflows to exactly 0.0, the statistics still differ
        for did, X, L in large_cases(ctx, 'QL', deep):
            outcomes = [outs.get(did, e, X) for e in L]
            checked += 1
            v = optimality_violation(L, X, outcomes)
            if v is not None:
                vals, counts = np.unique(X, return_counts=True)       # compact: the data up to order
                bad('Univariate.fit', {'dataset': did, 'X_value_counts': [[float(a), int(b)] for a, b in zip(vals, counts)],
                                       'candidates': [e.key for e in L]}, *v)

    def part2():
        nonlocal checked
        # ---- 2. filters and explicit candidates
        every = descendants(Univariate)
        for p, b in filter_pairs():
            want = {c for c in every if ABC not in c.__bases__ and (p is None or c.PARAMETRIC == p) and (b is None or c.BOUNDED == b)}
            got = Univariate._select_candidates(p, b)
            via_init = Univariate(parametric=p, bounded=b).candidates
            checked += 2
            if set(got) != want or len(got) != len(set(got)):
                bad('Univariate._select_candidates', {'parametric': str(p), 'bounded': str(b)}, [c.__name__ for c in got],
                    'exactly the non-abstract subclasses whose tags match: ' + str(sorted(c.__name__ for c in want)),
                    'Univariate._select_candidates:filter')
            # `candidates or …`: an empty result is falsy but `[] or []` is still []
            if via_init is None or list(via_init) != list(got):
                bad('Univariate.__init__', {'parametric': str(p), 'bounded': str(b)}, [c.__name__ for c in via_init] if via_init is not None else None,
                    'candidates = _select_candidates(parametric, bounded)', 'Univariate.__init__:filters-not-used')
            explicit = rng.sample(every[1:] + [StubShiftA], 2)
            u = Univariate(candidates=explicit, parametric=p, bounded=b)
            checked += 1
            if u.candidates is None or list(u.candidates) != explicit:
                bad('Univariate.__init__', {'candidates': [c.__name__ for c in explicit], 'parametric': str(p), 'bounded': str(b)},
                    [getattr(c, '__name__', repr(c)) for c in (u.candidates or [])], 'an explicit candidate list is used as given',
                    'Univariate.__init__:explicit-candidates-ignored')
    def part3():
        nonlocal checked
        # ---- 3. per-column configuration and fallback
        refs = [e for e in gm_refs() if e.key not in ('cls:StubRaiseInit', 'fqn:missing-class')]
        for k in range(12 if deep else 3):
            did, df = make_frame(ctx, 'H', k)
            columns = list(df.columns)
            presets = prototype_configs(columns, k % 2) if (deep or k < 2) else []
            for preset in [None] * (8 if deep else 4) + presets:
                kind, cfg, toks, R = preset if preset is not None else make_config(rng, refs, columns)
                gm = GaussianMultivariate() if kind == 'default' else GaussianMultivariate(distribution=cfg)
                inp = {'dataset': did, 'config': kind, 'distribution': repr(cfg)[:300], 'columns': [str(c) for c in columns],
                       'data': df.to_numpy().tolist()}
                checked += 1
                try:
                    gm.fit(df)
                except Exception as e:  # noqa
                    bad('GaussianMultivariate.fit', inp, 'raised ' + type(e).__name__ + ': ' + str(e)[:120],
                        'the fit succeeds (columns whose distribution cannot be fitted are modelled by a Gaussian)',
                        'GaussianMultivariate.fit:raises')
                    continue
                for c, u in zip(gm.columns, gm.univariates):
                    v = column_violation(outs, did, c, R, cfg if kind != 'default' else None, kind == 'default', df[c], u)
                    if v is not None:
                        bad('GaussianMultivariate.fit', dict(inp, column=str(c), configured=v[0]), *v[1:])

    def part4():
        nonlocal checked
        # ---- 4. fit histories: re-fits of one object and objects sharing one configuration dict
        refs = history_refs()
        for k in range(16 if deep else 5):
            frames = history_frames(ctx, 'R', k, rng)
            columns = list(frames[0][1].columns)
            kind, cfg, toks, R = history_config(rng, refs, columns)
            reference = dict(cfg) if isinstance(cfg, dict) else cfg       # what the user asked for
            steps = history_steps(rng, len(frames))
            objs = {m: GaussianMultivariate(distribution=cfg) for m in sorted({m for m, _ in steps})}
            for idx, (m, j) in enumerate(steps):
                did, df = frames[j]
                checked += 1
                inp = {'configuration': {str(kk): (v if isinstance(v, str) else repr(v)[:60]) for kk, v in reference.items()}
                       if isinstance(reference, dict) else repr(reference)[:80],
                       'history': [f'model {mm} (same configuration object) .fit({frames[jj][0]})' for mm, jj in steps[:idx + 1]],
                       'frames': {frames[jj][0]: frames[jj][1].to_dict('list') for _, jj in steps[:idx + 1]}}
                try:
                    objs[m].fit(df)
                except Exception as e:  # noqa
                    bad('GaussianMultivariate.fit', inp, 'raised ' + type(e).__name__ + ': ' + str(e)[:120],
                        'the fit succeeds (columns whose distribution cannot be fitted are modelled by a Gaussian)',
                        'GaussianMultivariate.fit:raises')
                    continue
                now = objs[m].distribution
                changed = (list(now.items()) != list(reference.items()) or any(now[kk] is not reference[kk] for kk in reference)) \
                    if isinstance(reference, dict) and isinstance(now, dict) else now is not reference
                for c, u in zip(objs[m].columns, objs[m].univariates):
                    v = column_violation(outs, did, c, R, reference, False, df[c], u)
                    if v is not None:
                        obs, req, cls = v[1:]
                        if changed:
                            cls = 'GaussianMultivariate.fit:configured-distribution-lost-after-fallback'
                            obs = {'observed': obs, 'distribution attribute now': repr(now)[:300]}
                            req += ' — the configuration the user passed, not one rewritten by an earlier fallback'
                        bad('GaussianMultivariate.fit', dict(inp, column=str(c), configured=v[0]), obs, req, cls)
    def part5():
        nonlocal checked
        # ---- 5. default-candidate path with user families registered below CONCRETE library families
        from copulas.univariate import Univariate as U
        local = Outcomes()          # holds references to the temporary classes: dropped with this frame
        kinds = ['lognormal', 'student', 'uniform', 'normal', 'exponential', 'negative']
        with user_families() as uf:
            for did, kind, X in datasets(ctx, 'U', 6 if deep else 2, kinds=kinds):
                for p, b in filter_pairs():
                    want = expected_default_candidates(p, b)
                    L = [Entry('cls:' + c.__name__, c) for c in want]
                    outcomes = [local.get(did, e, X) for e in L]
                    real = real_univariate_fit(None, X, parametric=p, bounded=b)
                    checked += 1
                    v = _optimality_violation(L, X, outcomes, real)
                    if v is None:
                        continue
                    obs, req, cls = v
                    got = None
                    try:
                        got = list(U._select_candidates(p, b))
                    except Exception:
                        got = []
                    missing = [c.__name__ for c in want if c not in got]
                    if any(below_concrete(c) for c in want if c not in got):
                        cls = 'Univariate.fit:subclass-of-concrete-family-not-a-candidate'
                        obs = dict(obs, candidates_used=[c.__name__ for c in got], families_missing=missing)
                        req += ('; the default candidates are ALL non-abstract families below Univariate whose tags match, '
                                'including those that specialise a concrete family')
                    bad('Univariate.fit', {'dataset': did, 'X': X.tolist(), 'parametric': str(p), 'bounded': str(b),
                                           'registered user families': 'UserLogNormal(GaussianUnivariate)[PARAMETRIC,SEMI_BOUNDED], '
                                           'UserLaplace(GaussianUnivariate), UserMidRank(UserLaplace)[NON_PARAMETRIC,BOUNDED], '
                                           'UserAbstractGamma(GammaUnivariate, ABC), UserGammaChild(UserAbstractGamma)[SEMI_BOUNDED]',
                                           'candidates': [e.key for e in L]}, obs, req, cls)
            L = want = got = v = None
            local.cache.clear()
        del local
        gc.collect()
        if [c.__name__ for c in descendants(U)] != uf.before:
            ctx.notes.append('user families could not be unregistered (still in __subclasses__)')

    for part in (part1, part2, part3, part4, part5):
        try:
            part()
        except Exception:
            import traceback
            ctx.notes.append('search %s crashed: %s' % (part.__name__, traceback.format_exc()[-300:]))
    ctx.support = {'oracle_checks': checked, 'failures': found, 'deep': deep}


def column_violation(outs, did, c, R, cfg, ctor_default, series, u):
    """the per-column clause of the property on one fitted column `u` of the real model:
    -> None | (configured, observed, required, class key)"""
    from copulas.univariate import GaussianUnivariate, Univariate
    got, got_ks = u.to_dict()['type'], model_ks(u, series)
    is_default = ctor_default or (isinstance(cfg, dict) and c not in cfg)
    entry = Entry('cls:Univariate', Univariate) if is_default else R.entry_of(cfg[c] if isinstance(cfg, dict) else cfg)
    configured = entry.key if entry.key != 'configured' else (entry.obj if isinstance(entry.obj, str) else repr(entry.obj)[:80])
    prototype = not is_default and not isinstance(entry.obj, (type, str))
    cls_key = 'GaussianMultivariate.fit:default-distribution' if is_default else 'GaussianMultivariate.fit:column-type'
    lost = 'GaussianMultivariate.fit:prototype-configuration-lost' if prototype else cls_key
    fit, fit_ks, selinfo = real_column_expectation(outs, did, col_tok(c), entry, series)
    if fit is None:            # the configured distribution cannot be fitted => Gaussian
        if got != fqn(GaussianUnivariate):
            return configured, got, 'column modelled by GaussianUnivariate (fallback)', 'GaussianMultivariate.fit:fallback-not-gaussian'
    elif selinfo is None:
        if got != fit:
            return configured, got, f'column modelled by the configured distribution {fit}', lost
        if fit_ks is not None and got_ks is not None and not ks_close(fit_ks, got_ks):
            return (configured, {'type': got, 'ks of fitted column model': got_ks, 'params': _params(u)},
                    f'column modelled by the distribution AS CONFIGURED (hyper-parameters of the reference): fitted that way '
                    f'its KS statistic on the column is {fit_ks!r}', lost)
    else:
        cands, outcomes = selinfo
        obs = {'type': got, 'ks of fitted column model': got_ks, 'configured candidates': [(e.key, o) for e, o in zip(cands, outcomes)]}
        mine = [o for e, o in zip(cands, outcomes) if e.type == got and o is not None and o == o]
        if not mine or (got_ks is not None and not any(ks_close(o, got_ks) for o in mine)):
            return (configured, obs, 'column modelled by one of the candidates of the '
                    + ('default distribution Univariate' if is_default else 'configured Univariate (its candidate list / filters)'),
                    lost)
        if any(lt(o, got_ks if got_ks is not None else min(mine)) for o in outcomes):
            return (configured, obs, 'column modelled by a KS-minimiser among the candidates of the '
                    + ('default distribution Univariate' if is_default else 'configured Univariate'), cls_key)
    return None


def _params(u):
    try:
        return {k: (v if not isinstance(v, (list, np.ndarray)) else '…') for k, v in u.to_dict().items()}
    except Exception:
        return None


def real_column_expectation(outs, did, col, entry, series):
    """what the configured reference gives on this column when built AS CONFIGURED:
    (expected type | 'selector' | None if its fit raises, its KS, selector info)"""
    if is_selector(entry):
        cands = intended_candidates(entry)
        outcomes = [outs.get((did, col), c, series) for c in cands]
        if any(o is not None and o < math.inf for o in outcomes):
            return 'selector', None, (cands, outcomes)
        return None, None, None
    try:
        inst = intended_instance(entry)
        inst.fit(series)
        return fqn(inst), model_ks(inst, series), None
    except Exception:
        return None, None, None


def replay(ctx, payload):
    inp = payload.get('input') or {}
    if 'X_value_counts' in inp:
        inp = dict(inp, X=np.repeat([a for a, _ in inp['X_value_counts']], [b for _, b in inp['X_value_counts']]).tolist())
    if str(payload.get('class', '')).startswith('Univariate.fit:') and 'X' in inp and 'candidates' in inp:
        by_key = {e.key: e for e in all_entries() + [Entry('cls:' + c.__name__, c) for c in real_families()]}
        if all(k in by_key for k in inp['candidates']):
            L = [by_key[k] for k in inp['candidates']]
            X = np.array([float(x) for x in inp['X']], dtype=float)     # 'nan' strings come back as NaN
            v = optimality_violation(L, X, [Outcomes.compute(e, X) for e in L])
            return v is not None
    before = len(ctx.failing)
    search(ctx, True)
    return any(f['class'] == payload.get('class') for f in ctx.failing[before:])
