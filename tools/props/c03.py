"""C03 — Every fitted univariate obeys the laws of a distribution function.

Tie (`run`): translation validation of the GENERATED definitions `Gen.UniConst.*` evaluated at Float in
Lean against the real methods (constant model, `_check_constant_value`, `_replace_constant_methods`,
KDE bounds / CDF with Lean's own Φ = Cody erfc, `percent_point` pre-processing and the whole
`percent_point` with the C18 root-finder models), bitwise forwarding checks for `ScipyModel` and the
`Univariate` wrapper, and validation of the hypothesis structure `Uni.FamilyCoherent` on the scipy
objects at the fitted parameters.
Search: the property's own statement as an oracle on the real fitted objects.
"""
import math
import warnings

import numpy as np

import vcommon as vc

warnings.filterwarnings('ignore')

GEN_TARGETS = ('UniConst',)
DRIVER_MAIN = 'Main/UniConst.lean'
DRIVER_TARGETS = ['CopVerif.Driver.UniConst']
ALWAYS_SEARCH = True
RULE = ('models: the 7 scipy-backed classes, GaussianKDE (bw_method in {default, scott, silverman, 0.3..1.0}, '
        'optional weights, optional sample_size), TruncatedGaussian with/without explicit bounds, the Univariate '
        'wrapper with random candidate lists / parametric / bounded filters; data: 5..400 points from normal, '
        'uniform, gamma, beta, lognormal, student-t, bimodal, log-Laplace and rounded (tied) generators with '
        'loc in +-[0.1,1e3] or 0 and scale in [1e-2,1e3], plus constant samples; evaluation points: the data, '
        'uniform points over [min-3sd, max+3sd], the KDE bounds, far points and +-inf; probabilities: a fixed grid '
        'from 2e-7 to 1-2e-7 plus uniform draws plus the thresholds EPSILON, 1-EPSILON, 0, 1 and out-of-range '
        'values. A case is distinct by (class, options, data, points) and non-trivial when data are non-constant '
        'or the points straddle the constant. Search additionally: fit histories on ONE instance (A, B / A, constant, B / '
        'constant, B with independent spreads; every class; queries exercised between fits) compared bitwise with a '
        'history-free twin carrying the same parameters and with a fresh fit, and single calls with 6001 and 12500 '
        'sorted points compared with the same points in chunks of 100 (GaussianKDE and one scipy family).')
PARTIAL = ['kde_ppf_bracket_partial: the root-finder precondition is proved for 0 <= q <= Phi(5 sigma/h) - Phi(-5 sigma/h) '
           'only; for q between cdf(U) and 1-EPSILON it is false (kde_ppf_bracket_full_counterexample; real-code '
           'finding GaussianKDE.percent_point:q-above-cdf-at-upper-bound)',
           'KDE range: "values in [0,1]" is false as stated (kde_cdf_nonneg_counterexample); proved instead: '
           '-deficit <= cdf <= 1, cdf(L) = 0, deficit <= Phi(-5 sigma/h), and <= Phi(-5 sqrt(4/5)) for the unweighted '
           'rules h = factor*sigma_(n-1), factor <= 1, n >= 5 (kde_deficit_small_factor); that Phi(-5 sqrt(4/5)) < 4e-6 is '
           'a fact about the real ndtr, checked numerically by the search (DESIGN section 8). Limits are -deficit and '
           '1-deficit, not 0 and 1 (kde_cdf_tendsto)',
           'percent_point of GaussianKDE: existence of a root in the bracket (continuous Phi) and the order of exact '
           'roots are proved; that the vectorised root finders return it is property C18 (their models are run on '
           'the generated CDF in the tie)',
           'scipy families: the laws are derived from the hypothesis structure Uni.FamilyCoherent at the ONE stored '
           'parameter dict (validated on every fitted object), not from scipy\'s code',
           'GaussianKDE.log_probability_density has no theorem: the inherited ScipyModel method calls the unbound '
           'gaussian_kde.logpdf(X, dataset=...) and raises TypeError (real-code finding '
           'GaussianKDE.log_probability_density:raises-TypeError); log_pdf_is_log covers the two `np.log(pdf)` defaults',
           'constant model: log_probability_density is not replaced by _replace_constant_methods (the property does '
           'not ask for it)']
ASSUMPTIONS = ['real-number semantics of binary64 formulas (DESIGN 3.1)',
               'numpy elementwise ops = per-element scalar ops; np.std = population standard deviation; '
               'ndarray.dot = sum of products',
               'scipy.special.ndtr is a CDF (IsCDF: monotone, values in [0,1]); continuous for the root-existence clause',
               'scipy.stats families are coherent (pdf, cdf, ppf, logpdf) tuples at the fitted parameters '
               '(Uni.FamilyCoherent; validated on a grid on every run)',
               'scipy.stats.gaussian_kde: covariance > 0, weights >= 0 summing to 1, evaluate = kernel density']
TRUSTED_EXTRA = ['CopVerif/Base/FloatFns.lean: Cody (1969) erfc at Float, measured against scipy.special.ndtr on every run',
                 'CopVerif/Model/Families.lean: executable closed forms of uniform/norm/loglaplace/truncnorm, equal at R to '
                 'the proved CopVerif.Families.* (Props/C03d.lean), compared with scipy at the fitted parameters on every run']

EPS = float(np.finfo(np.float32).eps)
KDE_TOL = 4e-6            # DESIGN section 8: deficit <= Phi(-5 sqrt(4/5)) < 4e-6
SCIPY = ('GaussianUnivariate', 'BetaUnivariate', 'GammaUnivariate', 'LogLaplace', 'StudentTUnivariate',
         'TruncatedGaussian', 'UniformUnivariate')
ALL = SCIPY + ('GaussianKDE',)
QGRID = [2e-7, 1e-6, 1e-5, 1e-4, 1e-3, 0.01, 0.05, 0.1, 0.25, 0.4, 0.5, 0.6, 0.75, 0.9, 0.95, 0.99, 1 - 1e-3,
         1 - 1e-4, 1 - 1e-5, 1 - 1e-6, 1 - 2e-7]
PY_Q = {'pdf': 'probability_density', 'logPdf': 'log_probability_density', 'cdf': 'cumulative_distribution',
        'ppf': 'percent_point', 'sample': 'sample'}


def U():
    import copulas.univariate as u
    return u


# ------------------------------------------------------------------------------------------- data
DATA_KINDS = ('normal', 'uniform', 'gamma', 'beta', 'lognormal', 't', 'bimodal', 'loglaplace', 'rounded')


def gen_data(rng, kind=None, n=None):
    """-> (meta, np.ndarray) with at least 5 distinct values"""
    kind = kind or rng.choice(DATA_KINDS)
    n = n or rng.choice([5, 6, 8, 12, 20, 35, 50, 100, 200, 400])
    loc = 0.0 if rng.random() < 0.3 else rng.choice([-1, 1]) * 10 ** rng.uniform(-1, 3)
    scale = 10 ** rng.uniform(-2, 3)
    rs = np.random.RandomState(rng.randrange(2 ** 31))
    for _ in range(20):
        if kind == 'normal':
            x = rs.normal(0, 1, n)
        elif kind == 'uniform':
            x = rs.uniform(0, 1, n)
        elif kind == 'gamma':
            x = rs.gamma(10 ** rng.uniform(-0.3, 1.5), 1, n)
        elif kind == 'beta':
            x = rs.beta(10 ** rng.uniform(-0.3, 1), 10 ** rng.uniform(-0.3, 1), n)
        elif kind == 'lognormal':
            x = rs.lognormal(0, rng.uniform(0.2, 1.2), n)
        elif kind == 't':
            x = rs.standard_t(rng.choice([1, 2, 3, 5, 10, 30]), n)
        elif kind == 'bimodal':
            k = max(1, int(n * rng.uniform(0.2, 0.8)))
            x = np.concatenate([rs.normal(-rng.uniform(1, 4), 0.5, k), rs.normal(rng.uniform(1, 4), 1.0, n - k)])
        elif kind == 'loglaplace':
            from scipy.stats import loglaplace
            x = loglaplace.rvs(rng.uniform(1.5, 5), size=n, random_state=rs)
        else:
            x = np.round(rs.normal(0, 1, n), 1)
        x = loc + scale * np.asarray(x, dtype=float)
        if len(np.unique(x)) >= 5 and np.all(np.isfinite(x)):
            return {'kind': kind, 'n': n, 'loc': loc, 'scale': scale}, x
        n = max(n, 12)
    return {'kind': 'fallback', 'n': 8, 'loc': loc, 'scale': scale}, loc + scale * np.arange(8.0)


def gen_spec(rng, cls, data):
    """constructor options (JSON-able)"""
    opts = {}
    if cls == 'GaussianKDE':
        opts['bw_method'] = rng.choice([None, 'scott', 'silverman', 0.3, 0.5, 0.7, 0.9, 1.0])
        r = rng.random()
        if r < 0.2:
            opts['weights'] = [rng.uniform(0.2, 1.0) for _ in range(len(data))]
        elif r < 0.4:
            opts['sample_size'] = rng.choice([5, 10, 30, 100, 250])
            opts['np_seed'] = rng.randrange(2 ** 31)
    elif cls == 'TruncatedGaussian':
        if rng.random() < 0.5:
            sd = float(np.std(data))
            opts['minimum'] = float(np.min(data)) - sd * rng.choice([1e-3, 0.1, 1.0, 5.0])
            opts['maximum'] = float(np.max(data)) + sd * rng.choice([1e-3, 0.1, 1.0, 5.0])
    elif cls == 'Univariate':
        r = rng.random()
        if r < 0.6:
            k = rng.randint(1, 4)
            opts['candidates'] = rng.sample(list(ALL), k)
        elif r < 0.8:
            opts['parametric'] = rng.choice(['PARAMETRIC', 'NON_PARAMETRIC'])
        else:
            opts['bounded'] = rng.choice(['UNBOUNDED', 'SEMI_BOUNDED', 'BOUNDED'])
        if rng.random() < 0.3:
            opts['selection_sample_size'] = rng.choice([5, 20, 50])
            opts['np_seed'] = rng.randrange(2 ** 31)
    return {'cls': cls, 'opts': opts}


def build(spec):
    u = U()
    o = dict(spec['opts'])
    o.pop('np_seed', None)
    cls = spec['cls']
    if cls == 'GaussianKDE':
        if o.get('weights') is not None:
            o['weights'] = np.array(o['weights'], dtype=float)
        return u.GaussianKDE(**o)
    if cls == 'Univariate':
        from copulas.univariate.base import BoundedType, ParametricType
        if 'candidates' in o:
            o['candidates'] = [getattr(u, c) for c in o['candidates']]
        if 'parametric' in o:
            o['parametric'] = ParametricType[o['parametric']]
        if 'bounded' in o:
            o['bounded'] = BoundedType[o['bounded']]
        return u.Univariate(**o)
    return getattr(u, cls)(**o)


def fit(spec, data):
    """-> fitted model or ('fit-raises', kind)"""
    m = build(spec)
    seed = spec['opts'].get('np_seed')
    st = np.random.get_state()
    try:
        if seed is not None:
            np.random.seed(seed)
        with np.errstate(all='ignore'):
            m.fit(np.array(data, dtype=float))
        return m
    except Exception as e:  # noqa
        return ('fit-raises', f'{type(e).__name__}: {str(e)[:80]}')
    finally:
        np.random.set_state(st)


def inst_of(m):
    return m._instance if type(m).__name__ == 'Univariate' else m


def is_kde(m):
    return type(inst_of(m)).__name__ == 'GaussianKDE'


def is_const(m):
    return inst_of(m)._constant_value is not None


def call(f, *a, **k):
    """-> ('ok', ndarray) | ('err', 'Kind: msg')"""
    try:
        with np.errstate(all='ignore'):
            return ('ok', np.asarray(f(*a, **k), dtype=float))
    except Exception as e:  # noqa
        return ('err', f'{vc.exc_kind(e) if vc.exc_kind(e) != "Other" else type(e).__name__}: {str(e)[:80]}')


# ------------------------------------------------------------------------------------ Lean calls
def hx(xs):
    return ' '.join(vc.f2h(x) for x in xs)


def lean_floats(lean, line):
    r = lean.floats('uc ' + line)
    return r


def same(a, b):
    return (a == b) or (a != a and b != b)


def bit_equal(xs, ys):
    xs, ys = np.asarray(xs, dtype=float).ravel(), np.asarray(ys, dtype=float).ravel()
    return len(xs) == len(ys) and all(same(float(a), float(b)) for a, b in zip(xs, ys))


# ============================================================================ the oracle (laws)
_GL = np.polynomial.legendre.leggauss(20)


def gl_integral(pdf, a, b, tol=1e-11, max_panels=4000):
    """Adaptive Gauss-Legendre quadrature of a vectorised density: a panel is accepted when the 20-point
    rule on it and on its two halves agree; kinks / cusps (log-Laplace mode, support end points) are
    isolated by bisection.  All panels of one refinement level are evaluated in ONE call of `pdf`.
    -> (integral, error estimate)"""
    gx, gw = _GL
    edges = np.linspace(a, b, 9)
    lo, hi = edges[:-1], edges[1:]
    total = err = 0.0
    used = 0
    for depth in range(50):
        if not len(lo):
            break
        mid = 0.5 * (lo + hi)

        def nodes(l, h):
            return (0.5 * (l + h))[:, None] + (0.5 * (h - l))[:, None] * gx[None, :]
        y = np.asarray(pdf(np.concatenate([nodes(lo, hi).ravel(), nodes(lo, mid).ravel(), nodes(mid, hi).ravel()])),
                       dtype=float).reshape(3, len(lo), 20)
        g1 = 0.5 * (hi - lo) * (y[0] @ gw)
        g2 = 0.5 * (mid - lo) * (y[1] @ gw) + 0.5 * (hi - mid) * (y[2] @ gw)
        used += len(lo)
        d = np.abs(g1 - g2)
        conv = (d <= tol * (hi - lo) / (b - a) + 1e-16)
        # a panel a few ulps wide cannot be refined (integrable singularity at a support end point with shape
        # parameter < 1, or a jump): its whole mass counts as uncertainty
        stuck = ~conv & ((hi - lo <= 64 * np.spacing(np.maximum(np.abs(lo), np.abs(hi)))) | ~(d == d))
        if depth == 49 or used >= max_panels:
            stuck = ~conv
        accept = conv | stuck
        total += float(np.nansum(g2[accept]))
        err += float(np.nansum(d[conv])) + float(np.nansum(np.abs(g1[stuck]) + np.abs(g2[stuck])))
        if np.any(~np.isfinite(g2[stuck])):
            err = float('inf')
        keep = ~accept
        lo, hi = np.concatenate([lo[keep], mid[keep]]), np.concatenate([mid[keep], hi[keep]])
    return total, err


class Fns:
    """the four pointwise queries of one fitted object as vector callables, plus context"""

    def __init__(self, pdf, cdf, ppf, logpdf, kde=False, ppf_bisect=None, label=''):
        self.pdf, self.cdf, self.ppf, self.logpdf = pdf, cdf, ppf, logpdf
        self.kde = kde
        self.ppf_bisect = ppf_bisect
        self.label = label
        self.cond = 1.0          # conditioning of the family at the fitted parameters (see `param_cond`)

    @property
    def extra(self):
        """additive tolerance for evaluation error at extreme fitted parameters: scipy evaluates e.g.
        (b-1)*log1p(-t) - betaln(a,b) with b ~ 6e5, or ((x-loc)/scale)**c with c ~ 4e7, loc ~ -2.5e8; the
        result carries a relative error ~ eps * (largest parameter).  Negligible (2e-13) for ordinary fits."""
        return 1e3 * 2.3e-16 * self.cond


def probes(rng, data, extra=()):
    lo, hi, sd = float(np.min(data)), float(np.max(data)), float(np.std(data))
    pts = [rng.uniform(lo - 3 * sd, hi + 3 * sd) for _ in range(40)]
    pts += [float(x) for x in rng.sample(list(data), min(10, len(data)))]
    pts += [lo, hi, lo - 5 * sd, hi + 5 * sd, lo - 1e3 * sd, hi + 1e3 * sd]
    pts += list(extra)
    return np.array(sorted(set(p for p in pts if math.isfinite(p))))


def laws(fns, data, rng, report, deep=False):
    """The C03 laws for non-constant data.  `report(kind, inp, observed, required)` records a failure;
    returns the number of elementary checks."""
    lo, hi, sd = float(np.min(data)), float(np.max(data)), float(np.std(data))
    tol_lo = KDE_TOL if fns.kde else 1e-12
    x = probes(rng, data)
    n = 0
    # ---- CDF: finite values, monotone, range, limits
    r = call(fns.cdf, x)
    if r[0] == 'err':
        report('cdf:raises', {'x': x.tolist()}, r[1], 'cumulative_distribution returns values')
        return n
    F = r[1]
    n += len(x)
    if np.any(np.isnan(F)):
        i = int(np.argmax(np.isnan(F)))
        report('cdf:nan', {'x': float(x[i])}, 'nan', 'cdf(x) is a number in [0,1]')
        return n
    d = np.diff(F)
    if np.any(d < -1e-12 - fns.extra):
        i = int(np.argmin(d))
        report('cdf:not-monotone', {'x': [float(x[i]), float(x[i + 1])]}, [float(F[i]), float(F[i + 1])],
               'cdf non-decreasing (tolerance 1e-12)')
    if np.any(F < -tol_lo) or np.any(F > 1 + 1e-12):
        i = int(np.argmax((F < -tol_lo) | (F > 1 + 1e-12)))
        report('cdf:range', {'x': float(x[i])}, float(F[i]), f'-{tol_lo:g} <= cdf <= 1 + 1e-12')
    far = np.array([-np.inf, -1e300, 1e300, np.inf])
    r = call(fns.cdf, far)
    n += 4
    if r[0] == 'err' or np.any(np.isnan(r[1])):
        report('cdf:extremes', {'x': ['-inf', -1e300, 1e300, 'inf']}, r[1] if r[0] == 'err' else r[1].tolist(),
               'cdf defined at the extremes')
    else:
        G = r[1]
        lim = KDE_TOL if fns.kde else 1e-9
        if not (abs(G[0]) <= lim and abs(G[3] - 1) <= lim and -tol_lo <= G[1] <= F[0] + 1e-12
                and F[-1] - 1e-12 <= G[2] <= 1 + 1e-12):
            report('cdf:limits', {'x': ['-inf', -1e300, 1e300, 'inf']}, G.tolist(),
                   f'cdf -> 0 and 1 at the extremes (within {lim:g}), monotone out to them')
    # ---- pdf >= 0
    r = call(fns.pdf, x)
    if r[0] == 'err':
        report('pdf:raises', {'x': x.tolist()}, r[1], 'probability_density returns values')
        return n
    f = r[1]
    n += len(x)
    if np.any(np.isnan(f)) or np.any(f < 0):
        i = int(np.argmax(np.isnan(f) | (f < 0)))
        report('pdf:negative-or-nan', {'x': float(x[i])}, float(f[i]), 'pdf(x) >= 0')
        return n
    # ---- integral of the pdf = CDF increment, on intervals inside the bulk of the data
    q05, q95 = float(np.quantile(data, 0.05)), float(np.quantile(data, 0.95))
    for _ in range(6 if deep else 3):
        a, b = sorted((rng.uniform(q05, q95), rng.uniform(q05, q95)))
        if not b - a > 1e-6 * sd:
            continue
        try:
            with np.errstate(all='ignore'):
                integral, qerr = gl_integral(fns.pdf, a, b)
                inc = np.asarray(fns.cdf(np.array([a, b])), dtype=float)
        except Exception as e:  # noqa
            report('integral:raises', {'a': a, 'b': b}, f'{type(e).__name__}: {e}', 'pdf/cdf evaluate on the bulk')
            break
        inc = float(inc[1] - inc[0])
        n += 1
        # KDE: exact up to 1e-8.  scipy families: 1e-7 (the fitted parameters can be extreme, e.g. log-Laplace
        # c ~ 4e7 with loc ~ -2.5e8, where the CDF itself is only good to ~1e-9) + the quadrature's own estimate
        tol = (1e-8 if fns.kde else 1e-7) + 4 * qerr + fns.extra
        if not abs(integral - inc) <= tol:
            report('integral', {'a': a, 'b': b}, {'integral_pdf': integral, 'cdf_increment': inc, 'quadrature_error': qerr},
                   f'|int_a^b pdf - (cdf(b)-cdf(a))| <= {tol:.3g}')
            break
    # ---- cdf(ppf(q)) = q, ppf monotone
    qs = np.array(sorted(QGRID + [rng.random() for _ in range(8)]))
    for name, ppf in (('ppf', fns.ppf), ('ppf[bisect]', fns.ppf_bisect)):
        if ppf is None:
            continue
        n += ppf_laws(fns, name, ppf, qs, x, F, f, sd, report, max(abs(lo), abs(hi), sd))
    # ---- log pdf
    r = call(fns.logpdf, x)
    n += len(x)
    if r[0] == 'err':
        report('logpdf:raises-' + r[1].split(':')[0], {'x': x[:5].tolist()}, r[1],
               'log_probability_density = log(probability_density)')
    else:
        lp = r[1]
        okm = (f > 1e-290) & np.isfinite(f)      # (an unbounded density, beta a<1 at the end point, is inf = inf)
        ref = np.log(f[okm])
        bad = ~(np.abs(lp[okm] - ref) <= 1e-10 * np.maximum(1.0, np.abs(ref)) + fns.extra)
        if np.any(bad):
            i = int(np.argmax(bad))
            report('logpdf', {'x': float(x[okm][i])}, {'log_pdf': float(lp[okm][i]), 'log(pdf)': float(ref[i])},
                   'log_probability_density = log(probability_density) (rel 1e-10)')
    return n


def ppf_laws(fns, name, ppf, qs, x, F, f, sd, report, span):
    n = 0
    r = call(ppf, qs)
    lanes = None
    if r[0] == 'err':
        # a single bad lane fails the batch: go lane by lane
        lanes = []
        for q in qs:
            r1 = call(ppf, np.array([q]))
            n += 1
            if r1[0] == 'err':
                kind = 'raises'
                if fns.kde and 'AssertionError' in r1[1]:
                    cu = kde_cdf_upper(fns)
                    if cu is not None and q > cu:
                        kind = 'q-above-cdf-at-upper-bound'
                report(f'{name}:{kind}', {'q': float(q)}, r1[1] + (f' (cdf at upper bound = {kde_cdf_upper(fns)!r})'
                                                                 if fns.kde else ''),
                       'percent_point(q) returns x with cdf(x) = q for q in (EPSILON, 1-EPSILON)')
                lanes.append(float('nan'))
            else:
                lanes.append(float(r1[1][0]))
        X = np.array(lanes)
        okl = ~np.isnan(X)
    else:
        X = r[1]
        okl = np.ones(len(qs), dtype=bool)
        n += len(qs)
        if np.any(np.isnan(X)):
            i = int(np.argmax(np.isnan(X)))
            report(f'{name}:nan', {'q': float(qs[i])}, 'nan', 'percent_point(q) is a number for q in (0,1)')
            okl = ~np.isnan(X)
    if not np.any(okl):
        return n
    r = call(fns.cdf, X[okl])
    if r[0] == 'ok':
        back = r[1]
        tol = 1e-7 + fns.extra
        if name == 'ppf[bisect]':
            # bisect stops on an ABSOLUTE bracket width of 1e-8 in x (its documented contract, C18)
            tol = 1e-7 + float(np.max(f)) * 1e-8
        bad = ~(np.abs(back - qs[okl]) <= tol)
        if np.any(bad):
            # "wherever the CDF is continuous at floating-point resolution": where the CDF moves by more than
            # the tolerance between neighbouring floats (steep end of a beta / log-Laplace / gamma support)
            # q only has to lie between the CDF values of the floats around the returned point
            # ("neighbouring" in the standardised variable (x - loc)/scale that scipy forms first: a few ulps of
            # the largest magnitude involved)
            xb_ = X[okl][bad]
            step = 16 * 2.3e-16 * np.maximum(np.abs(xb_), span)
            lo_, hi_ = xb_ - step, xb_ + step
            r2 = call(fns.cdf, np.concatenate([lo_, hi_]))
            if r2[0] == 'ok':
                k = len(xb_)
                inside = (r2[1][:k] - tol <= qs[okl][bad]) & (qs[okl][bad] <= r2[1][k:] + tol)
                idx = np.flatnonzero(bad)
                bad[idx[inside]] = False
                n += k
        if np.any(bad):
            i = int(np.argmax(bad))
            report(f'{name}:cdf-of-ppf', {'q': float(qs[okl][i])},
                   {'ppf': float(X[okl][i]), 'cdf(ppf)': float(back[i])}, f'|cdf(ppf(q)) - q| <= {tol:.3g}')
    mono_tol = (2e-8 if name == 'ppf[bisect]' else 0.0) + 1e-9 * max(sd, float(np.max(np.abs(X[okl]))))
    dd = np.diff(X[okl])
    if np.any(dd < -mono_tol):
        i = int(np.argmin(dd))
        report(f'{name}:not-monotone', {'q': [float(qs[okl][i]), float(qs[okl][i + 1])]},
               [float(X[okl][i]), float(X[okl][i + 1])], 'percent_point non-decreasing')
    # ppf(cdf(x)) = x where the density is positive
    m = (f > 1e-3 * float(np.max(f))) & (F > 1e-6) & (F < 1 - 1e-6)
    if np.any(m):
        r = call(ppf, F[m])
        n += int(np.sum(m))
        if r[0] == 'err':
            report(f'{name}:raises-on-cdf-values', {'q': F[m][:5].tolist()}, r[1], 'ppf(cdf(x)) = x')
        else:
            xb = r[1]
            tolx = 1e-6 * np.maximum(np.abs(x[m]), sd) + (2e-8 if name == 'ppf[bisect]' else 0.0)
            # flat CDF (density positive but the float CDF does not move) is excluded by "at floating-point resolution"
            bad = ~(np.abs(xb - x[m]) <= tolx)
            if np.any(bad):
                i = int(np.argmax(bad))
                report(f'{name}:ppf-of-cdf', {'x': float(x[m][i])},
                       {'cdf': float(F[m][i]), 'ppf(cdf)': float(xb[i]), 'pdf': float(f[m][i])},
                       '|ppf(cdf(x)) - x| <= 1e-6 max(|x|, sd) where pdf(x) > 1e-3 max pdf')
    return n


def kde_cdf_upper(fns):
    m = getattr(fns, 'model', None)
    if m is None:
        return None
    try:
        return float(m.cumulative_distribution(np.array([m._get_bounds()[1]]))[0])
    except Exception:  # noqa
        return None


def const_laws(model, c, rng, report):
    """constant data: step CDF at c, ppf = c, sample = c"""
    n = 0
    d = max(abs(c), 1.0)
    xs = np.array([c - d, np.nextafter(c, -np.inf), c, np.nextafter(c, np.inf), c + d, c - 1e-3 * d, c + 1e-3 * d])
    want_cdf = np.array([0, 0, 1, 1, 1, 0, 1], dtype=float)
    want_pdf = np.array([0, 0, 1, 0, 0, 0, 0], dtype=float)
    for q, want, req in (('cumulative_distribution', want_cdf, 'unit step at c'),
                         ('probability_density', want_pdf, 'point mass at c')):
        r = call(getattr(model, q), xs)
        n += len(xs)
        if r[0] == 'err' or not bit_equal(r[1], want):
            report(f'constant:{q}', {'c': c, 'x': xs.tolist()}, r[1] if r[0] == 'err' else r[1].tolist(), req)
    qs = np.array([0.0, EPS, 1e-3, 0.5, 1 - 1e-3, 1 - EPS, 1.0] + [rng.random() for _ in range(3)])
    r = call(model.percent_point, qs)
    n += len(qs)
    if r[0] == 'err' or not bit_equal(r[1], np.full(len(qs), c)):
        report('constant:percent_point', {'c': c, 'q': qs.tolist()}, r[1] if r[0] == 'err' else r[1].tolist(),
               'percent_point = c')
    for k in (1, 7):
        r = call(model.sample, k)
        n += k
        if r[0] == 'err' or not bit_equal(r[1], np.full(k, c)):
            report('constant:sample', {'c': c, 'n': k}, r[1] if r[0] == 'err' else r[1].tolist(), 'sample = c')
    return n


def param_cond(params):
    """largest |shape parameter| and |loc|/scale of a scipy parameter dict (1 for ordinary fits)"""
    try:
        p = {k: abs(float(v)) for k, v in params.items()}
    except Exception:  # noqa  (the KDE's dataset)
        return 1.0
    sc = p.get('scale', 1.0) or 1.0
    vals = [v for k, v in p.items() if k not in ('loc', 'scale')] + [p.get('loc', 0.0) / sc, 1.0]
    vals = [v for v in vals if math.isfinite(v)]
    return max(vals) if vals else 1.0


def model_fns(m):
    kde = is_kde(m)
    inst = inst_of(m)
    fns = Fns(m.probability_density, m.cumulative_distribution, m.percent_point, m.log_probability_density,
              kde=kde, ppf_bisect=(lambda q: inst.percent_point(q, method='bisect')) if kde else None)
    fns.model = inst if kde else None
    if not kde:
        fns.cond = param_cond(inst._params)
    return fns


def scipy_fns(m):
    """the scipy object at the fitted parameters, called directly (assumption validation)"""
    mc, p = type(m).MODEL_CLASS, dict(m._params)
    fns = Fns(lambda x: mc.pdf(x, **p), lambda x: mc.cdf(x, **p), lambda q: mc.ppf(q, **p),
              lambda x: mc.logpdf(x, **p))
    fns.cond = param_cond(p)
    return fns


# ==================================================================================== tie (run)
def run(ctx, lean):
    if lean is None:
        for name in ('tv:ndtr', 'tv:constant-model', 'corr:constant-fit', 'assume:kde-hypotheses', 'tv:kde.bounds', 'tv:kde.cdf',
                     'tv:kde.ppf-preprocessing', 'corr:kde.percent_point'):
            ctx.ob(name, False, 'tie', 'driver unavailable')
    else:
        tv_ndtr(ctx, lean)
        tv_constant(ctx, lean)
        corr_constant_fit(ctx, lean)
        tv_kde(ctx, lean)
        tv_ppf_pre(ctx, lean)
        corr_kde_ppf(ctx, lean)
    corr_tables(ctx, lean)
    tv_closed_forms(ctx, lean)
    corr_forwarding(ctx)
    corr_wrapper(ctx, lean)


def tv_ndtr(ctx, lean):
    """accuracy of Lean's Φ (Base/FloatFns.lean) against scipy.special.ndtr"""
    from scipy.special import ndtr
    rng = ctx.rng('ndtr')
    xs = [rng.uniform(-8, 8) for _ in range(300 * ctx.scale)] + [rng.uniform(-37, -8) for _ in range(60)] + \
         [rng.uniform(8, 40) for _ in range(20)] + [0.0, -0.0, 0.46875 * 2 ** 0.5, -0.46875 * 2 ** 0.5, 4 * 2 ** 0.5,
                                                     -4 * 2 ** 0.5, -38.5, -40.0, float('inf'), float('-inf'), float('nan')]
    worst_body = worst_tail = 0.0
    bad = None
    for k in range(0, len(xs), 100):
        chunk = xs[k:k + 100]
        r = lean_floats(lean, 'ndtr ' + hx(chunk))
        ref = ndtr(np.array(chunk))
        if r[0] != 'ok' or len(r[1]) != len(chunk):
            bad = bad or f'driver: {r}'
            continue
        for x, a, b in zip(chunk, r[1], ref):
            ctx.case(('ndtr', x))
            b = float(b)
            if a != a or b != b or math.isinf(x):
                if not same(a, b):
                    bad = bad or f'x={x!r}: lean {a!r} scipy {b!r}'
                continue
            rel = abs(a - b) / b if b > 0 else abs(a - b)
            if -8 <= x <= 8:
                worst_body = max(worst_body, rel)
                if rel > 1e-14:
                    bad = bad or f'x={x!r}: lean {a!r} scipy {b!r} rel {rel:.3g}'
            else:
                worst_tail = max(worst_tail, rel if x < 0 else abs(a - b))
                if (x < 0 and rel > 1e-12 and b > 1e-300) or (x > 0 and abs(a - b) > 1e-16):
                    bad = bad or f'x={x!r}: lean {a!r} scipy {b!r}'
    ctx.ob('tv:ndtr', bad is None, 'tie', bad or f'max rel err body {worst_body:.2g}, tails {worst_tail:.2g}')


def const_points(rng, c):
    d = max(abs(c), 1.0)
    pts = [c, np.nextafter(c, -np.inf), np.nextafter(c, np.inf), c - d, c + d, -c, 0.0, -0.0, float('inf'),
           float('-inf'), float('nan')]
    pts += [c + d * rng.uniform(-2, 2) for _ in range(rng.choice([0, 1, 5, 12]))]
    rng.shuffle(pts)
    return [float(p) for p in pts[:rng.randint(1, len(pts))]]


def gen_constant(rng):
    r = rng.random()
    if r < 0.25:
        return float(rng.choice([0.0, 1.0, -1.0, 5.0, 1e-300, -1e300, 123456789.0, 0.1]))
    return rng.choice([-1, 1]) * 10 ** rng.uniform(-6, 8)


def tv_constant(ctx, lean):
    """Gen.UniConst.const{Cdf,Pdf,Ppf,Sample} at Float vs Univariate._constant_* (bitwise)"""
    rng = ctx.rng('const')
    u = U()
    bad = None
    for _ in range(30 * ctx.scale):
        c = gen_constant(rng)
        m = u.GaussianUnivariate()
        m._constant_value = c
        pts = const_points(rng, c)
        X = np.array(pts)
        strad = any(p < c for p in pts) and any(p >= c for p in pts)
        for op, meth in (('constcdf', m._constant_cumulative_distribution), ('constpdf', m._constant_probability_density),
                         ('constppf', m._constant_percent_point)):
            real = meth(X)
            r = lean_floats(lean, f'{op} {vc.f2h(c)} {hx(pts)}')
            ctx.case((op, c, tuple(pts)), nontrivial=strad)
            ctx.count(op)
            if (r[0] != 'ok' or not bit_equal(real, r[1])) and bad is None:
                bad = {'op': op, 'c': c, 'x': pts, 'real': real.tolist(), 'model': r[1]}
        k = rng.choice([0, 1, 3, 17])
        real = m._constant_sample(k)
        r = lean_floats(lean, f'constsample {vc.f2h(c)} {k}')
        ctx.case(('constsample', c, k), nontrivial=k > 0)
        if (r[0] != 'ok' or not bit_equal(real, r[1])) and bad is None:
            bad = {'op': 'constsample', 'c': c, 'n': k, 'real': real.tolist(), 'model': r[1]}
        if len(ctx.samples) < 2:
            ctx.sample({'op': 'constcdf', 'c': c, 'x': pts[:4]})
    ctx.ob('tv:constant-model', bad is None, 'tie', bad or 'bit-identical')


def corr_constant_fit(ctx, lean):
    """`_check_constant_value` + `_replace_constant_methods` on the real classes vs checkConstant /
    constReplacement / const* (a constant fit of every class answers like the generated point mass)"""
    rng = ctx.rng('constfit')
    u = U()
    bad = None
    tables = dict(t.split('=') for t in lean.ask('uc tables').split())
    for _ in range(4 * ctx.scale):
        for cls in ALL:
            c = gen_constant(rng) if cls not in ('BetaUnivariate',) else float(rng.uniform(-50, 50))
            n = rng.choice([1, 2, 5, 30])
            data = [c] * n
            if rng.random() < 0.5:
                # non-constant: the detector must say no
                data = data + [c + max(abs(c), 1.0) * rng.choice([1e-9, 0.5, -3.0])]
            X = np.array(data)
            m = getattr(u, cls)()
            try:
                with np.errstate(all='ignore'):
                    got = m._check_constant_value(X)
            except Exception as e:  # noqa
                got = f'raises {type(e).__name__}'
            r = lean.ask('uc checkconst ' + hx(data))
            want = (True, c) if r.startswith('some') else (False, None)
            real = (bool(got), m._constant_value if got is True else None)
            ctx.case(('checkconst', cls, tuple(data)), nontrivial=len(set(data)) > 1 or n > 1)
            ctx.count('checkconst.' + ('const' if real[0] else 'nonconst'))
            ok = (want[0] == real[0]) and (not want[0] or same(vc.h2f(r.split()[1]), float(real[1])))
            if not ok and bad is None:
                bad = {'what': 'check_constant_value', 'cls': cls, 'data': data, 'real': real, 'model': r}
            if real[0] is True:
                # which queries were rebound, and to what
                for q, py in PY_Q.items():
                    bound = m.__dict__.get(py)
                    name = getattr(bound, '__name__', None)
                    real_t = {None: 'none', '_constant_cumulative_distribution': 'cdf', '_constant_probability_density': 'pdf',
                              '_constant_percent_point': 'ppf', '_constant_sample': 'sample'}.get(name, str(name))
                    if tables.get(f'repl.{q}') != real_t and bad is None:
                        bad = {'what': 'replace_constant_methods', 'cls': cls, 'query': q, 'real': real_t,
                               'model': tables.get(f'repl.{q}')}
            else:
                # non-constant data on an instance that WAS constant: are the overrides removed? (generated flag)
                m2 = getattr(u, cls)()
                m2._set_constant_value(c)
                with np.errstate(all='ignore'):
                    m2._check_constant_value(X)
                left = sorted(k for k in PY_Q.values() if k in m2.__dict__)
                real_reset = (not left) and m2._constant_value is None
                ctx.count('checkconst.reset' if real_reset else 'checkconst.no-reset')
                if tables.get('reset') != str(real_reset).lower() and bad is None:
                    bad = {'what': 'reset on non-constant data', 'cls': cls, 'overrides left': left,
                           '_constant_value': m2._constant_value, 'model': tables.get('reset')}
            # full fit on constant data: public queries answer like the generated point mass
            if len(set(data)) == 1:
                spec = {'cls': cls, 'opts': {}}
                fm = fit(spec, data)
                if isinstance(fm, tuple):
                    ctx.count(f'constfit.{cls}.fit-raises')
                    continue
                pts = [p for p in const_points(rng, c)]
                Xp = np.array(pts)
                for op, q in (('constcdf', 'cumulative_distribution'), ('constpdf', 'probability_density'),
                              ('constppf', 'percent_point')):
                    rr = call(getattr(fm, q), Xp)
                    lr = lean_floats(lean, f'{op} {vc.f2h(c)} {hx(pts)}')
                    ctx.case(('constfit', cls, op, c, tuple(pts)))
                    if (rr[0] != 'ok' or lr[0] != 'ok' or not bit_equal(rr[1], lr[1])) and bad is None:
                        bad = {'what': 'constant fit', 'cls': cls, 'query': q, 'c': c, 'x': pts,
                               'real': rr[1].tolist() if rr[0] == 'ok' else rr[1], 'model': lr[1]}
                rr = call(fm.sample, 4)
                lr = lean_floats(lean, f'constsample {vc.f2h(c)} 4')
                if (rr[0] != 'ok' or not bit_equal(rr[1], lr[1])) and bad is None:
                    bad = {'what': 'constant fit', 'cls': cls, 'query': 'sample', 'c': c,
                           'real': rr[1].tolist() if rr[0] == 'ok' else rr[1], 'model': lr[1]}
    ctx.ob('corr:constant-fit', bad is None, 'tie', bad or 'ok')


def kde_pool(ctx, stream, count):
    """fitted GaussianKDE objects over the option space"""
    rng = ctx.rng(stream)
    out = []
    tries = 0
    while len(out) < count and tries < 4 * count:
        tries += 1
        meta, data = gen_data(rng, n=rng.choice([5, 6, 8, 12, 20, 50, 100, 400]))
        spec = gen_spec(rng, 'GaussianKDE', data)
        m = fit(spec, data)
        if isinstance(m, tuple):
            ctx.count('kde.fit-raises')
            continue
        ctx.count(f'kde.bw={spec["opts"].get("bw_method")}')
        ctx.count('kde.weights' if 'weights' in spec['opts'] else ('kde.sample_size' if 'sample_size' in spec['opts']
                                                                   else 'kde.plain'))
        out.append((spec, meta, data, m))
    return out


def kde_parts(m):
    xs = np.asarray(m._model.dataset, dtype=float)[0]
    ws = np.asarray(m._model.weights, dtype=float)
    cov = float(m._model.covariance[0, 0])
    return xs, ws, cov


def tv_kde(ctx, lean):
    rng = ctx.rng('kdecdf')
    bad_b = bad_c = bad_h = None
    worst = 0.0
    from scipy.special import ndtr
    zs = np.array(sorted([rng.uniform(-40, 40) for _ in range(400)] + [-np.inf, np.inf, 0.0]))
    nz = ndtr(zs)
    if not (np.all(np.diff(nz) >= 0) and np.all(nz >= 0) and np.all(nz <= 1) and nz[0] == 0 and nz[-1] == 1):
        bad_h = {'what': 'scipy.special.ndtr is not monotone into [0,1] on the grid'}
    for spec, meta, data, m in kde_pool(ctx, 'kdepool', 50 * ctx.scale):
        xs, ws, cov = kde_parts(m)
        # hypotheses of the KDE theorems on the real gaussian_kde object
        if not (cov > 0 and len(xs) == len(ws) and np.all(ws >= 0) and abs(float(np.sum(ws)) - 1) <= 1e-12
                and bit_equal(np.asarray(m._params['dataset'], dtype=float).ravel(), xs)) and bad_h is None:
            bad_h = {'spec': spec, 'cov': cov, 'sum_w': float(np.sum(ws)), 'min_w': float(np.min(ws)),
                     'lengths': [len(xs), len(ws)]}
        L, Up = m._get_bounds()
        sd = float(np.std(xs))
        r = lean_floats(lean, 'bounds ' + hx(np.asarray(m._params['dataset'], dtype=float).ravel()))
        ctx.case(('bounds', tuple(xs[:8]), len(xs)))
        tol = 1e-12 * max(1.0, abs(L), abs(Up)) + 1e-9 * sd
        if (r[0] != 'ok' or abs(r[1][0] - L) > tol or abs(r[1][1] - Up) > tol) and bad_b is None:
            bad_b = {'spec': spec, 'data': data.tolist(), 'real': [float(L), float(Up)], 'model': r[1]}
        pts = [rng.uniform(L - 3 * sd, Up + 3 * sd) for _ in range(12)] + [float(L), float(Up), float(L) - 10 * sd,
                                                                           float(Up) + 10 * sd, -1e300, 1e300] + \
            [float(v) for v in rng.sample(list(xs), min(4, len(xs)))] + [float('inf'), float('-inf')]
        real = m.cumulative_distribution(np.array(pts))
        r = lean_floats(lean, f'kdecdf {vc.f2h(cov)} {len(xs)} {hx(xs)} {hx(ws)} {hx(pts)}')
        ctx.case(('kdecdf', str(spec), tuple(pts[:4])))
        if r[0] != 'ok' or len(r[1]) != len(pts):
            bad_c = bad_c or {'spec': spec, 'driver': str(r)[:200]}
            continue
        for p, a, b in zip(pts, real, r[1]):
            dlt = abs(float(a) - b)
            worst = max(worst, dlt if dlt == dlt else float('inf'))
            if not dlt <= 1e-12 and bad_c is None:
                bad_c = {'spec': spec, 'data': data.tolist(), 'x': p, 'real': float(a), 'model': b}
        if len(ctx.samples) < 5:
            ctx.sample({'op': 'kdecdf', 'spec': spec, 'n': len(xs), 'x': pts[0], 'real': float(real[0]), 'model': r[1][0]})
    ctx.ob('assume:kde-hypotheses', bad_h is None, 'assumption',
           bad_h or 'ndtr monotone into [0,1]; cov > 0, weights >= 0 summing to 1, model data = _params dataset')
    ctx.ob('tv:kde.bounds', bad_b is None, 'tie', bad_b or 'ok')
    ctx.ob('tv:kde.cdf', bad_c is None, 'tie', bad_c or f'max |delta| {worst:.2g}')


Q_SPECIAL = [0.0, -0.0, EPS / 2, EPS, EPS * (1 + 2 ** -20), 1e-6, 0.3, 0.5, 0.9, 1 - 1e-6, (1 - EPS) * (1 - 2 ** -30),
             1 - EPS, 1 - EPS / 2, 1.0]
Q_BAD = [-1e-300, -0.1, 1.0000000000000002, 1.5, float('inf'), float('-inf')]


def tv_ppf_pre(ctx, lean):
    """range check and is_one / is_zero / is_valid branch outcomes of GaussianKDE.percent_point"""
    rng = ctx.rng('ppfpre')
    u = U()
    rs = np.random.RandomState(12345)
    m = u.GaussianKDE()
    m.fit(rs.normal(0, 1, 80))          # deficit ~ 1e-40: every valid lane is bracketed
    bad = None
    eps_model = lean_floats(lean, 'epsilon')
    if eps_model[0] != 'ok' or eps_model[1][0] != EPS:
        bad = {'what': 'EPSILON', 'real': EPS, 'model': eps_model}
    for i in range(100 * ctx.scale):
        k = rng.choice([0, 1, 2, 5, 9])
        qs = [rng.choice(Q_SPECIAL) if rng.random() < 0.7 else rng.random() for _ in range(k)]
        if rng.random() < 0.25 and k:
            qs[rng.randrange(k)] = rng.choice(Q_BAD)
        r1 = call(m.percent_point, np.array(qs, dtype=float), method=rng.choice(['chandrupatla', 'bisect']))
        r2 = lean_floats(lean, 'ppfpre ' + hx(qs))
        ctx.case(('ppfpre', tuple(qs)), nontrivial=k > 0)
        if r1[0] == 'err':
            kind = r1[1].split(':')[0]
            ctx.count('ppfpre.' + kind)
            ok = r2[0] == 'err' and r2[1] == kind
        else:
            def cls_(v):
                return 'neg' if v == float('-inf') else 'pos' if v == float('inf') else 'valid'
            c1 = [cls_(float(v)) for v in r1[1]]
            for c in c1:
                ctx.count('ppfpre.' + c)
            ok = r2[0] == 'ok' and c1 == [cls_(v) for v in r2[1]]
        if not ok and bad is None:
            bad = {'q': qs, 'real': r1[1] if r1[0] == 'err' else r1[1].tolist(), 'model': r2[1]}
    ctx.ob('tv:kde.ppf-preprocessing', bad is None, 'tie', bad or 'ok')


def corr_kde_ppf(ctx, lean):
    """the generated `kdePpf` (bracket = bounds, residual = cdf - q, dispatch, scatter) run with the C18
    root-finder models on Lean's KDE CDF vs the real percent_point, both methods; lanes whose q lies
    above cdf(upper bound) must fail with the same error kind in both"""
    rng = ctx.rng('kdeppf')
    bad = None
    pool = kde_pool(ctx, 'kdepool2', 24 * ctx.scale)
    for _ in range(4 * ctx.scale):      # the corner where the window (cdf(U), 1-EPSILON) is non-empty
        meta, data = gen_data(rng, kind=rng.choice(['normal', 'uniform', 'bimodal']), n=rng.choice([5, 6, 8]))
        spec = {'cls': 'GaussianKDE', 'opts': {'bw_method': 1.0}}
        m = fit(spec, data)
        if not isinstance(m, tuple):
            pool.append((spec, meta, data, m))
    for spec, meta, data, m in pool:
        xs, ws, cov = kde_parts(m)
        if len(xs) > 120:
            continue
        L, Up = m._get_bounds()
        cu = float(m.cumulative_distribution(np.array([Up]))[0])
        maxpdf = float(np.max(m.probability_density(xs)))
        for method in ('chandrupatla', 'bisect'):
            k = rng.choice([1, 3, 6])
            qs = [rng.choice([0.0, 1.0, EPS, 1 - EPS, 1e-6, 1 - 1e-6]) if rng.random() < 0.25 else rng.uniform(1e-4, 1 - 1e-4)
                  for _ in range(k)]
            if rng.random() < 0.2 or spec['opts'].get('bw_method') == 1.0:
                qs.append(min(1 - 1.5 * EPS, max(0.5, cu + (1 - cu) * 0.5)))      # above cdf(U) when the window exists
            r1 = call(m.percent_point, np.array(qs), method=method)
            r2 = lean_floats(lean, f'kdeppf {method} {vc.f2h(cov)} {len(xs)} {hx(xs)} {hx(ws)} {hx(qs)}')
            ctx.case(('kdeppf', str(spec), method, tuple(qs)))
            ctx.count(f'kdeppf.{method}.{r1[0] if r1[0] == "ok" else r1[1].split(":")[0]}')
            d = None
            if r1[0] == 'err':
                if not (r2[0] == 'err' and r2[1] == r1[1].split(':')[0]):
                    d = f'real {r1[1]} vs model {r2}'
            elif r2[0] != 'ok' or len(r2[1]) != len(qs):
                d = f'real ok vs model {str(r2)[:100]}'
            else:
                for q, a, b in zip(qs, r1[1], r2[1]):
                    a = float(a)
                    if math.isinf(a) or math.isinf(b):
                        if a != b:
                            d = f'q={q!r}: real {a!r} model {b!r}'
                        continue
                    back = float(m.cumulative_distribution(np.array([b]))[0])
                    tol = 1e-9 + (maxpdf * 2e-8 if method == 'bisect' else 0.0)
                    if not (abs(back - q) <= tol and abs(a - b) <= 1e-6 * (Up - L)):
                        d = f'q={q!r}: real {a!r} model {b!r} cdf(model root)-q={back - q:.3g}'
            if d and bad is None:
                bad = {'spec': spec, 'data': data.tolist(), 'method': method, 'q': qs, 'diff': d}
    ctx.ob('corr:kde.percent_point', bad is None, 'tie', bad or 'ok')


# ------------------------------------------------------------------ closed forms of four scipy families
CF_FAMILIES = {'UniformUnivariate': ('uniform', ('loc', 'scale')), 'GaussianUnivariate': ('norm', ('loc', 'scale')),
               'LogLaplace': ('loglaplace', ('c', 'loc', 'scale')),
               'TruncatedGaussian': ('truncnorm', ('a', 'b', 'loc', 'scale'))}
FEPS = 2.220446049250313e-16


def cf_pool(ctx, cls, count):
    """fitted models of one class: the generic data generators plus a few extreme samples"""
    rng = ctx.rng('cfpool', cls)
    out = []
    tries = 0
    while len(out) < count and tries < 3 * count:
        tries += 1
        meta, data = gen_data(rng, n=rng.choice([5, 8, 20, 60, 200]))
        r = rng.random()
        if r < 0.1:
            data = float(data[0]) + (data - float(data[0])) * 1e-7           # nearly constant: loc >> scale
            meta = dict(meta, extreme='near-constant')
        elif r < 0.2:
            data = np.concatenate([data, [float(data.max()) + 1e4 * float(data.std())]])   # one far outlier
            meta = dict(meta, extreme='outlier')
        spec = gen_spec(rng, cls, data)
        m = fit(spec, data)
        if isinstance(m, tuple) or is_const(m):
            ctx.count(f'cf.{cls}.fit-raises-or-constant')
            continue
        pr = {k: float(v) for k, v in m._params.items()}
        if not all(math.isfinite(v) for v in pr.values()) or not pr.get('scale', 0) > 0:
            ctx.count(f'cf.{cls}.non-finite-params')
            continue
        out.append((spec, meta, data, m, pr))
    return out


def tv_closed_forms(ctx, lean):
    """scipy's pdf / cdf / ppf / logpdf at the fitted parameters (exactly what the library calls) vs the closed
    forms of Model/Families.lean evaluated at Float: the residual assumption of the FamilyCoherent theorems of
    Props/C03c.lean ("scipy's functions ARE these closed forms"), bridged to them in Props/C03d.lean."""
    from scipy.special import ndtr
    for cls, (fam, pnames) in CF_FAMILIES.items():
        name = f'tv:closed-form:{fam}'
        if lean is None:
            ctx.ob(name, False, 'tie', 'driver unavailable')
            continue
        rng = ctx.rng('cf', cls)
        bad = None
        worst = {'pdf': 0.0, 'cdf': 0.0, 'ppf': 0.0, 'logpdf': 0.0}
        nvals = skipped = 0
        for spec, meta, data, m, pr in cf_pool(ctx, cls, 8 * ctx.scale):
            mc = type(m).MODEL_CLASS
            loc, sc = pr['loc'], pr['scale']
            if fam == 'truncnorm':
                lo_s, hi_s = loc + pr['a'] * sc, loc + pr['b'] * sc
                D = float(ndtr(pr['b']) - ndtr(pr['a']))
            elif fam == 'norm':
                lo_s, hi_s, D = -math.inf, math.inf, 1.0
            else:
                lo_s, hi_s, D = loc, (loc + sc if fam == 'uniform' else math.inf), 1.0
            if not D > 1e-12:
                ctx.count(f'cf.{fam}.degenerate-truncation')
                continue
            pts = list(probes(rng, data))
            pts += [loc + sc * t for t in (-38.0, -8.0, -3.0, -1.0, -1e-3, 0.0, 1e-3, 0.5, 1.0, 1.0 + 1e-9, 3.0, 8.0, 38.0, 1e3)]
            for e in (lo_s, hi_s):
                if math.isfinite(e):
                    pts += [e, e - 1e-6 * sc, e + 1e-6 * sc, np.nextafter(e, -np.inf), np.nextafter(e, np.inf)]
            x = np.array(sorted(set(float(p_) for p_ in pts if math.isfinite(p_))))
            q = np.array(QGRID + [0.0, 1.0, 1e-12, 1 - 1e-12] + [rng.random() for _ in range(6)])
            ph = hx([pr[k] for k in pnames])
            # a discontinuity of the density sits at a finite support end: the closed forms decide `x in support` in
            # x, scipy in (x - loc)/scale; the two roundings may disagree within a few ulps of the end point
            mag = np.maximum(np.maximum(np.abs(x), abs(loc)), sc)
            near_end = np.zeros(len(x), dtype=bool)
            for e in (lo_s, hi_s):
                if math.isfinite(e):
                    near_end |= np.abs(x - e) <= 8 * FEPS * mag
            inside = (x >= lo_s) & (x <= hi_s)
            rt = {'uniform': 1e-14, 'norm': 5e-13, 'loglaplace': 1e-12, 'truncnorm': 2e-12}[fam] + 16 * FEPS / D
            with np.errstate(all='ignore'):
                # the library's own methods (bitwise `MODEL_CLASS.<fn>(., **_params)` by corr:scipy-forwarding)
                ref = {'pdf': m.probability_density(x), 'cdf': m.cumulative_distribution(x),
                       'logpdf': m.log_probability_density(x), 'ppf': m.percent_point(q)}
            for fn in ('pdf', 'cdf', 'logpdf', 'ppf'):
                arg = q if fn == 'ppf' else x
                if fn == 'ppf' and fam in ('norm', 'truncnorm'):
                    # no executable inverse normal CDF: the closed-form CDF of scipy's quantile must give q back
                    xq = np.asarray(ref['ppf'], dtype=float)
                    fin = np.isfinite(xq)
                    r = lean_floats(lean, f'cf {fam} cdf {ph} {hx(xq[fin])}')
                    ctx.case((name, 'ppf-via-cdf', str(pr)))
                    if r[0] != 'ok' or len(r[1]) != int(fin.sum()):
                        bad = bad or {'params': pr, 'fn': 'ppf', 'driver': str(r)[:150]}
                        continue
                    for qi, xi, ci in zip(q[fin], xq[fin], r[1]):
                        pdf_i = float(mc.pdf(xi, **pr))
                        cond = 4 * FEPS * pdf_i * max(abs(xi), abs(loc), sc)     # one rounding of x moves the CDF by this
                        if not cond <= 1e-9:
                            skipped += 1        # scale at the float resolution of loc (degenerate fit): nothing to compare
                            ctx.count(f'cf.{fam}.ppf-ill-conditioned')
                            continue
                        nvals += 1
                        tol = 1e-13 + rt * min(qi, 1 - qi) + cond + 16 * FEPS / D
                        err = abs(ci - qi)
                        worst['ppf'] = max(worst['ppf'], err)
                        if not err <= tol and bad is None:
                            bad = {'params': pr, 'fn': 'cdf(ppf(q))', 'q': float(qi), 'scipy_ppf': float(xi),
                                   'closed_form_cdf': ci, 'tolerance': tol}
                    continue
                r = lean_floats(lean, f'cf {fam} {fn} {ph} {hx(arg)}')
                ctx.case((name, fn, str(pr)))
                if r[0] != 'ok' or len(r[1]) != len(arg):
                    bad = bad or {'params': pr, 'fn': fn, 'driver': str(r)[:150]}
                    continue
                for i, (ai, a, b) in enumerate(zip(arg, np.asarray(ref[fn], dtype=float), r[1])):
                    a = float(a)
                    if fn in ('pdf', 'logpdf') and near_end[i]:
                        skipped += 1
                        continue
                    if fn == 'logpdf' and not inside[i]:
                        skipped += 1            # scipy: -inf; the real-valued closed form has an arbitrary value there
                        continue
                    if fn == 'pdf' and fam == 'loglaplace' and ai == loc and pr['c'] < 1:
                        skipped += 1            # scipy: 0**(c-1) = +inf
                        continue
                    nvals += 1
                    if a != a or b != b or math.isinf(a) or math.isinf(b):
                        ok = same(a, b)
                        err = 0.0 if ok else float('inf')
                    else:
                        if fn == 'logpdf':
                            tol = (rt + 1e-13) * max(1.0, abs(a)) + 64 * FEPS * param_cond(pr)
                        elif fn == 'cdf':
                            # RELATIVE, also far in the lower tail (x = loc - 38 scale …); only truncnorm's closed
                            # form (Phi(y) - Phi(a))/D cancels there and needs an absolute term
                            tol = rt * abs(a) + (8 * FEPS / D if fam == 'truncnorm' else 0.0) + 1e-300
                        elif fn == 'ppf':
                            tol = rt * max(abs(a), abs(loc), sc) + 1e-300
                        else:
                            tol = rt * abs(a) + 1e-300
                        err = abs(a - b)
                        ok = err <= tol
                        worst[fn] = max(worst[fn], err / max(abs(a), 1e-300) if fn == 'pdf' else
                                        err / max(abs(a), abs(loc), sc) if fn == 'ppf' else err)
                    if not ok and bad is None:
                        bad = {'params': pr, 'fn': fn, 'at': float(ai), 'scipy': a, 'closed_form': b,
                               'data_meta': meta}
            if len(ctx.samples) < 8:
                ctx.sample({'op': name, 'params': pr, 'x': float(x[len(x) // 2]),
                            'scipy_cdf': float(ref['cdf'][len(x) // 2])})
        ctx.count(f'cf.{fam}.values', nvals)
        ctx.count(f'cf.{fam}.skipped', skipped)
        ctx.ob(name, bad is None, 'tie',
               bad or ('max err: pdf %.2g (rel), cdf %.2g (abs), ppf %.2g (%s), logpdf %.2g (abs) over %d values'
                       % (worst['pdf'], worst['cdf'], worst['ppf'],
                          '|cdf(ppf q) - q|' if fam in ('norm', 'truncnorm') else 'rel. to max(|x|,|loc|,scale)',
                          worst['logpdf'], nvals)))


def corr_tables(ctx, lean):
    """the generated tables say what the harness observes on the classes"""
    want = {'fwd.pdf': 'pdf:_params:true', 'fwd.logPdf': 'logpdf:_params:true', 'fwd.cdf': 'cdf:_params:true',
            'fwd.ppf': 'ppf:_params:true', 'fwd.sample': 'rvs:_params:true',
            'wrap.pdf': 'pdf', 'wrap.logPdf': 'logPdf', 'wrap.cdf': 'cdf', 'wrap.ppf': 'ppf', 'wrap.sample': 'sample',
            'alias.pdf': 'pdf', 'alias.cdf': 'cdf', 'alias.ppf': 'ppf'}
    if lean is None:
        return ctx.ob('corr:tables', False, 'tie', 'driver unavailable')
    got = dict(t.split('=') for t in lean.ask('uc tables').split())
    diff = {k: (v, got.get(k)) for k, v in want.items() if got.get(k) != v}
    ctx.ob('corr:tables', not diff, 'tie', diff or 'ok')


def fitted_pool(ctx, stream, per_class):
    rng = ctx.rng(stream)
    out = []
    for cls in SCIPY:
        got = tries = 0
        while got < per_class and tries < 3 * per_class:
            tries += 1
            kind = rng.choice(DATA_KINDS)
            meta, data = gen_data(rng, kind=kind, n=rng.choice([5, 8, 20, 50, 150, 400]))
            spec = gen_spec(rng, cls, data)
            m = fit(spec, data)
            if isinstance(m, tuple):
                ctx.count(f'{cls}.fit-raises')
                continue
            got += 1
            out.append((spec, meta, data, m))
    return out


def corr_forwarding(ctx):
    """model.<query>(x) == MODEL_CLASS.<fn>(x, **model._params) bitwise, all five queries; assumption
    validation of Uni.FamilyCoherent on the scipy object at those parameters"""
    rng = ctx.rng('fwd')
    bad = None
    abad = None
    pool = fitted_pool(ctx, 'fwdpool', 6 * ctx.scale)
    for spec, meta, data, m in pool:
        cls = spec['cls']
        mc, p = type(m).MODEL_CLASS, m._params
        x = probes(rng, data)
        qs = np.array(QGRID + [0.0, 1.0, rng.random()])
        with np.errstate(all='ignore'):
            pairs = [('probability_density', m.probability_density(x), mc.pdf(x, **p)),
                     ('cumulative_distribution', m.cumulative_distribution(x), mc.cdf(x, **p)),
                     ('percent_point', m.percent_point(qs), mc.ppf(qs, **p)),
                     ('log_probability_density', m.log_probability_density(x), mc.logpdf(x, **p))]
            seed = rng.randrange(2 ** 31)
            m.set_random_state(seed)
            s1 = m.sample(6)
            st = np.random.get_state()
            np.random.set_state(np.random.RandomState(seed).get_state())
            s2 = mc.rvs(size=6, **p)
            np.random.set_state(st)
            pairs.append(('sample', s1, s2))
        for q, a, b in pairs:
            ctx.case(('fwd', cls, q, str(sorted(p.items()))))
            ctx.count(f'fwd.{cls}')
            if not bit_equal(a, b) and bad is None:
                bad = {'spec': spec, 'data': data.tolist(), 'query': q, 'params': {k: float(v) for k, v in p.items()},
                       'model': np.asarray(a).ravel()[:4].tolist(), 'MODEL_CLASS': np.asarray(b).ravel()[:4].tolist()}
        # assumption validation
        fails = []
        laws(scipy_fns(m), data, ctx.rng('assume', cls, len(fails), str(meta)),
             lambda kind, inp, obs, req: fails.append((kind, inp, obs, req)))
        ctx.count(f'assume.{cls}.' + ('ok' if not fails else fails[0][0]))
        if fails and abad is None:
            abad = {'cls': cls, 'params': {k: float(v) for k, v in p.items()}, 'data_meta': meta,
                    'law': fails[0][0], 'input': fails[0][1], 'observed': fails[0][2]}
    # GaussianKDE overrides pdf / sample: they go to the gaussian_kde built from _params['dataset']
    from scipy.stats import gaussian_kde
    for spec, meta, data, m in kde_pool(ctx, 'kdepool3', 3 * ctx.scale):
        ref = gaussian_kde(m._params['dataset'], bw_method=m.bw_method, weights=m.weights)
        x = probes(rng, data)
        a, b = m.probability_density(x), ref.evaluate(x)
        la, lb = call(m.log_probability_density, x), call(ref.logpdf, x)
        if not (la[0] == 'ok' and lb[0] == 'ok' and bit_equal(la[1], lb[1])) and bad is None:
            bad = {'spec': spec, 'query': 'log_probability_density', 'model': str(la[1])[:100], 'gaussian_kde.logpdf': str(lb[1])[:100]}
        seed = rng.randrange(2 ** 31)
        m.set_random_state(seed)
        s1 = m.sample(5)
        st = np.random.get_state()
        np.random.set_state(np.random.RandomState(seed).get_state())
        s2 = ref.resample(size=5)[0]
        np.random.set_state(st)
        ctx.case(('fwd', 'GaussianKDE', str(spec)))
        if not (bit_equal(a, b) and bit_equal(s1, s2)) and bad is None:
            bad = {'spec': spec, 'query': 'probability_density/sample', 'model': a[:3].tolist(), 'gaussian_kde': b[:3].tolist()}
    ctx.ob('corr:scipy-forwarding', bad is None, 'tie', bad or 'bit-identical')
    ctx.ob('assume:scipy-family-coherent', abad is None, 'assumption', abad or 'ok')


def corr_wrapper(ctx, lean):
    """every query on a fitted Univariate == the same query on its _instance (bitwise); unfitted raises"""
    rng = ctx.rng('wrapper')
    u = U()
    bad = None
    for q in PY_Q.values():
        w = u.Univariate()
        r = call(getattr(w, q), np.array([0.5])) if q != 'sample' else call(w.sample, 2)
        ctx.case(('wrapper-unfitted', q))
        if not (r[0] == 'err' and r[1].startswith('NotFittedError')) and bad is None:
            bad = {'what': 'unfitted', 'query': q, 'real': str(r)[:100]}
    for _ in range(8 * ctx.scale):
        meta, data = gen_data(rng, n=rng.choice([8, 30, 120]))
        if rng.random() < 0.15:
            data = np.full(7, float(data[0]))
        spec = gen_spec(rng, 'Univariate', data)
        w = fit(spec, data)
        if isinstance(w, tuple):
            ctx.count('wrapper.fit-raises')
            continue
        inst = w._instance
        ctx.count(f'wrapper.selected.{type(inst).__name__}')
        x = probes(rng, data)
        qs = np.array([0.1, 0.5, 0.9, rng.random(), 0.0, 1.0, 1e-12, 1e-9, 1 - 1e-9, 1 - 1e-12])
        for q, arg in (('probability_density', x), ('cumulative_distribution', x), ('percent_point', qs),
                       ('log_probability_density', x), ('pdf', x), ('cdf', x), ('ppf', qs)):
            long = {'pdf': 'probability_density', 'cdf': 'cumulative_distribution', 'ppf': 'percent_point'}.get(q, q)
            a, b = call(getattr(w, q), arg), call(getattr(inst, long), arg)
            ctx.case(('wrapper', str(spec), q))
            ok = a[0] == b[0] and (bit_equal(a[1], b[1]) if a[0] == 'ok' else a[1] == b[1])
            if not ok and bad is None:
                bad = {'spec': spec, 'data': data.tolist(), 'query': q, 'wrapper': str(a)[:120], 'instance': str(b)[:120]}
        seed = rng.randrange(2 ** 31)
        st = np.random.get_state()
        np.random.seed(seed)
        a = call(w.sample, 5)
        np.random.seed(seed)
        b = call(inst.sample, 5)
        np.random.set_state(st)
        ok = a[0] == b[0] and (bit_equal(a[1], b[1]) if a[0] == 'ok' else True)
        if not ok and bad is None:
            bad = {'spec': spec, 'query': 'sample', 'wrapper': str(a)[:120], 'instance': str(b)[:120]}
    # `Univariate.sample` under the wrapper's own random_state (generated flag `wrapperSampleSeeded`): two
    # identically seeded wrappers over an UNSEEDED candidate repeat each other iff the decorator is there
    if lean is not None:
        tables = dict(t.split('=') for t in lean.ask('uc tables').split())
        outs = []
        data = np.array([0.3, 1.1, 2.9, 4.2, 5.0, 7.7, 9.1])
        st = np.random.get_state()
        for k in range(2):
            w = u.Univariate(candidates=[u.GaussianUnivariate], random_state=4321)
            w.fit(data)
            np.random.seed(1000 + k)          # different global streams
            outs.append(np.asarray(w.sample(4), dtype=float))
        np.random.set_state(st)
        seeded = bit_equal(outs[0], outs[1])
        ctx.case(('wrapper-seeded', seeded))
        if tables.get('wrapseed') != str(seeded).lower() and bad is None:
            bad = {'what': 'Univariate.sample under the wrapper random_state', 'real': seeded,
                   'model': tables.get('wrapseed')}
    ctx.ob('corr:wrapper-delegation', bad is None, 'tie', bad or 'bit-identical')


# ===================================================================================== search
def entry(cls, kind):
    q = kind.split(':')[0].split('[')[0]
    return f'{cls}.' + {'cdf': 'cumulative_distribution', 'pdf': 'probability_density', 'ppf': 'percent_point',
                        'logpdf': 'log_probability_density', 'integral': 'probability_density',
                        'constant': 'fit'}.get(q, q)


def class_key(spec, model, kind):
    """stable class key `<entry point>:<what fails>`; failures of the wrapper are attributed to the
    selected class (the wrapper only delegates)."""
    cls = spec['cls'] if spec['cls'] != 'Univariate' else type(inst_of(model)).__name__
    q, _, what = kind.partition(':')
    meth = ''
    if '[' in q:
        q, meth = q.split('[')[0], '[' + q.split('[')[1]
    name = {'cdf': 'cumulative_distribution', 'pdf': 'probability_density', 'ppf': 'percent_point',
            'logpdf': 'log_probability_density', 'integral': 'probability_density', 'constant': 'constant-fit'}.get(q, q)
    if q == 'integral':
        what = 'integral-vs-cdf' + (':' + what if what else '')
    if what == 'q-above-cdf-at-upper-bound':
        meth = ''                      # same cause for both solvers
    key = f'{cls}.{name}{meth}:{what}' if what else f'{cls}.{name}{meth}'
    if spec['cls'] == 'GaussianKDE' and spec['opts'].get('weights') is not None and q == 'cdf' \
            and what in ('range', 'limits'):
        key = f'{cls}.{name}:range:weighted'
    if spec.get('tag') == 'data-scale-below-1e-9' and q == 'ppf' and what in ('cdf-of-ppf', 'ppf-of-cdf', 'not-monotone'):
        key = f'{cls}.{name}:root-finder-absolute-tolerance'
    return key


def examine(ctx, spec, data, rng, deep, counts):
    m = fit(spec, data)
    if isinstance(m, tuple):
        ctx.count(f'search.{spec["cls"]}.fit-raises')
        return
    seen = {}

    def report(kind, inp, obs, req):
        key = class_key(spec, m, kind)
        counts['failures'] += 1
        if seen.get(key, 0) >= 1 or sum(1 for f in ctx.failing if f['class'] == key) >= 3:
            return
        seen[key] = 1
        ctx.fail_input(entry(spec['cls'], kind), dict(inp, spec=spec, data=[float(v) for v in data], law=kind),
                       obs, req, key)
    if is_const(m):
        counts['checks'] += const_laws(m, float(data[0]), rng, report)
    else:
        counts['checks'] += laws(model_fns(m), np.asarray(data, dtype=float), rng, report, deep)
    ctx.count(f'search.{spec["cls"]}')


# ------------------------------------------------------------------ fit history on ONE instance
LONG = {'cdf': 'cumulative_distribution', 'pdf': 'probability_density', 'ppf': 'percent_point',
        'logpdf': 'log_probability_density', 'sample': 'sample'}


def seeded_fit(m, data, seed):
    st = np.random.get_state()
    try:
        np.random.seed(seed)
        with np.errstate(all='ignore'):
            # (an integer array stays an integer array: `np.unique(X)[0]` is then a numpy integer)
            m.fit(data if isinstance(data, np.ndarray) and data.dtype.kind in 'iub' else np.array(data, dtype=float))
        return None
    except Exception as e:  # noqa
        return f'{type(e).__name__}: {str(e)[:80]}'
    finally:
        np.random.set_state(st)


def exercise(m, data):
    """touch every query (fills whatever a model caches lazily)"""
    d = np.asarray(data, dtype=float)
    x = np.array([float(np.min(d)), float(np.median(d)), float(np.max(d))])
    for f, a in ((m.cumulative_distribution, x), (m.probability_density, x), (m.log_probability_density, x),
                 (m.percent_point, np.array([0.2, 0.7])), (m.sample, 3)):
        call(f, a)
    inst = inst_of(m)
    if type(inst).__name__ == 'GaussianKDE' and inst._constant_value is None:
        call(inst.percent_point, np.array([0.4]), method='bisect')


def twin_of(m, spec):
    """an instance WITHOUT history carrying the same fitted parameters (`_set_params(_get_params())`)"""
    inst = inst_of(m)
    if spec['cls'] == 'Univariate':
        t = type(inst)()
    else:
        t = build(spec)
    t._set_params(inst._get_params())
    t.fitted = True
    return t


def history_comparable(spec):
    """may the refitted instance be compared with a FRESH instance fitted on the last sample?  Not for a
    TruncatedGaussian without explicit bounds and a GaussianKDE without explicit sample_size: they keep
    `min/max` resp. `_sample_size` of the first fit (recorded under property C19), which changes the fitted
    PARAMETERS of the refit, not the coherence of the queries with them."""
    if spec['cls'] == 'TruncatedGaussian':
        return 'minimum' in spec['opts']
    if spec['cls'] == 'GaussianKDE':
        return 'sample_size' in spec['opts']
    return True


def examine_history(ctx, spec, history, seeds, rng, counts, deep=False, with_laws=True):
    """fit A; query; [fit K; query;] fit B on ONE instance.  Afterwards every query must be a function of the
    parameters of the LAST fit: bitwise equal to a twin without history, (where comparable) to a fresh
    instance fitted on the last sample, and the C03 laws must hold."""
    m = build(spec)
    for k, (data, seed) in enumerate(zip(history, seeds)):
        err = seeded_fit(m, data, seed)
        if err is not None:
            ctx.count(f'history.{spec["cls"]}.fit-raises')
            return
        if k < len(history) - 1:
            exercise(m, data)
    last = np.asarray(history[-1], dtype=float)
    ctx.count(f'history.{spec["cls"]}')
    seen = set()

    def report(kind, inp, obs, req, key=None):
        key = key or class_key(spec, m, kind)
        counts['failures'] += 1
        if key in seen or sum(1 for f in ctx.failing if f['class'] == key) >= 3:
            return
        seen.add(key)
        ctx.fail_input(entry(spec['cls'], kind), dict(inp, spec=spec, history=[[float(v) for v in d] for d in history],
                                                      dtypes=[str(np.asarray(d).dtype) for d in history],
                                                      seeds=list(seeds), law=kind), obs, req, key)
    refs = []
    try:
        refs.append(('an instance without history carrying the same parameters', twin_of(m, spec)))
    except Exception as e:  # noqa
        ctx.count(f'history.{spec["cls"]}.twin-raises:{type(e).__name__}')
    if history_comparable(spec):
        f = build(spec)
        if seeded_fit(f, last, seeds[-1]) is None:
            refs.append(('a fresh instance fitted on the last sample', f))
    x = probes(rng, last) if len(np.unique(last)) > 1 else np.array(const_points(rng, float(last[0])))
    qs = np.array([1e-6, 0.01, 0.2, 0.5, 0.8, 0.99, 1 - 1e-6, rng.random()])
    cls = spec['cls'] if spec['cls'] != 'Univariate' else type(inst_of(m)).__name__
    for what, ref in refs:
        for q, arg in (('cdf', x), ('pdf', x), ('ppf', qs), ('logpdf', x)):
            a, b = call(getattr(m, LONG[q]), arg), call(getattr(ref, LONG[q]), arg)
            counts['checks'] += len(arg)
            same_ = a[0] == b[0] and (bit_equal(a[1], b[1]) if a[0] == 'ok' else a[1].split(':')[0] == b[1].split(':')[0])
            if not same_:
                if a[0] == 'ok' and b[0] == 'ok':
                    i = int(np.argmax(~((a[1] == b[1]) | (np.isnan(a[1]) & np.isnan(b[1])))))
                    obs = {'at': float(arg[i]), 'after_history': float(a[1][i]), 'reference': float(b[1][i])}
                else:
                    obs = {'after_history': str(a[1])[:100], 'reference': str(b[1])[:100]}
                report(f'{q}:depends-on-fit-history', {'query': LONG[q], 'reference': what}, obs,
                       f'{LONG[q]} after fit(A); queries; fit(B) equals (bitwise) that of {what}',
                       key=f'{cls}.{LONG[q]}:depends-on-fit-history')
        # sample: the same global stream must give the same draws
        st = np.random.get_state()
        np.random.seed(seeds[-1] % (2 ** 31))
        a = call(m.sample, 6)
        np.random.seed(seeds[-1] % (2 ** 31))
        b = call(ref.sample, 6)
        np.random.set_state(st)
        counts['checks'] += 6
        if not (a[0] == b[0] and (bit_equal(a[1], b[1]) if a[0] == 'ok' else True)):
            report('sample:depends-on-fit-history', {'query': 'sample', 'reference': what},
                   {'after_history': str(a[1])[:100], 'reference': str(b[1])[:100]},
                   f'sample (same global seed) after the fit history equals that of {what}',
                   key=f'{cls}.sample:depends-on-fit-history')
    # the laws themselves on the refitted instance (coherence of pdf / cdf / ppf / logpdf with each other)
    if with_laws and (spec['cls'] != 'TruncatedGaussian' or 'minimum' in spec['opts']):
        def report2(kind, inp, obs, req):
            key = class_key(spec, m, kind)
            if key in KNOWN_SINGLE_FIT:
                return report(kind, inp, obs, req)
            report(kind, inp, obs, req + ' [after fit(A); queries; fit(B) on one instance]',
                   key=f'{cls}.{LONG.get(kind.split(":")[0].split("[")[0], "probability_density")}:depends-on-fit-history')
        if is_const(m):
            counts['checks'] += const_laws(m, float(last[0]), rng, report2)
        else:
            d = np.asarray(inst_of(m)._params['dataset'], dtype=float).ravel() if is_kde(m) else last
            counts['checks'] += laws(model_fns(m), d, rng, report2, deep)


# single-fit classes that also show up after a refit and keep their own key
KNOWN_SINGLE_FIT = ('GaussianKDE.percent_point:q-above-cdf-at-upper-bound',)


def search_history(ctx, rng, counts, deep):
    for cls in ALL + ('Univariate',):
        for rep in range(4 if deep else (2 if cls == 'GaussianKDE' else 1)):
            metas, hist = [], []
            for _ in range(2):
                meta, data = gen_data(rng, n=rng.choice([8, 20, 60, 150]))
                metas.append(meta)
                hist.append(data)
            r = rng.random() if rep else 1.0          # the first history of a class is always plain A, B
            if r < 0.25:
                c = float(rng.uniform(-50, 50))
                hist.insert(1, np.full(rng.choice([5, 12]), c))          # A, constant, B
            elif r < 0.4:
                hist[0] = np.full(rng.choice([5, 12]), float(rng.uniform(-50, 50)))   # constant, B
            spec = gen_spec(rng, cls, hist[-1])
            spec['opts'].pop('weights', None)
            spec['opts'].pop('np_seed', None)
            if cls == 'TruncatedGaussian' and rng.random() < 0.7:
                allv = np.concatenate(hist)
                pad = float(np.std(allv)) * rng.choice([0.01, 0.5])
                spec['opts']['minimum'], spec['opts']['maximum'] = float(np.min(allv)) - pad, float(np.max(allv)) + pad
            if cls == 'GaussianKDE':
                spec['opts'].pop('sample_size', None)
                if rng.random() < 0.4:
                    spec['opts']['sample_size'] = rng.choice([10, 40, 120])
            seeds = [rng.randrange(2 ** 31) for _ in hist]
            examine_history(ctx, spec, hist, seeds, rng, counts, deep)


CONSTANTS = [('int 0', 0, 'int64'), ('0.0', 0.0, 'float64'), ('-0.0', -0.0, 'float64'), ('int 5', 5, 'int64'),
             ('-2.5', -2.5, 'float64'), ('1e-300', 1e-300, 'float64'), ('int 1', 1, 'int64'), ('1.0', 1.0, 'float64')]


def search_const_history(ctx, rng, counts, deep):
    """constant(c) -> non-constant and non-constant -> constant(c) -> non-constant on ONE instance, for falsy and
    truthy constants (0, 0.0, -0.0, 5, -2.5, 1e-300, 1; integer and float arrays): after the last fit the model
    answers like a fresh one fitted on the last data (the constant overrides must be gone whatever `c` is)."""
    zeros = [c for c in CONSTANTS if c[1] == 0]
    others = [c for c in CONSTANTS if c[1] != 0]
    for cls in ALL + ('Univariate',):
        if deep:
            plan = [(c, two) for c in CONSTANTS for two in (False, True)]
        else:
            plan = [(zeros[0], False), (rng.choice(zeros[1:]), False), (rng.choice(zeros), True),
                    (rng.choice(others), rng.random() < 0.5)]
        for (label, c, dt), three in plan:
            k = np.full(rng.choice([5, 12]), c, dtype=dt)
            last = gen_data(rng, n=rng.choice([8, 20, 60]))[1]
            hist = [k, last]
            if three:
                hist.insert(0, gen_data(rng, n=rng.choice([8, 20]))[1])
            spec = {'cls': cls, 'opts': {}}
            if cls == 'TruncatedGaussian':
                allv = np.concatenate([np.asarray(h, dtype=float) for h in hist])
                spec['opts'] = {'minimum': float(allv.min()) - 1.0, 'maximum': float(allv.max()) + 1.0}
            elif cls == 'GaussianKDE':
                spec['opts'] = {'sample_size': rng.choice([10, 40])}
            elif cls == 'Univariate':
                spec['opts'] = {'candidates': rng.sample(list(ALL), 2)}
            ctx.count(f'const-history.{label}')
            examine_history(ctx, spec, hist, [rng.randrange(2 ** 31) for _ in hist], rng, counts, deep, with_laws=False)


def examine_const_final(ctx, spec, history, seeds, counts):
    """history ending in a CONSTANT fit (non-constant -> constant c, c inside or outside the earlier data range):
    the model restored from `to_dict()` (directly and through JSON) must be the live model: cdf / pdf / ppf / sample
    at the constant and around it, bitwise."""
    import json
    m = build(spec)
    for k, (data, seed) in enumerate(zip(history, seeds)):
        if seeded_fit(m, data, seed) is not None:
            ctx.count(f'const-final.{spec["cls"]}.fit-raises')
            return
        if k < len(history) - 1:
            exercise(m, data)
    inst = inst_of(m)
    icls = type(inst).__name__
    c = float(np.asarray(history[-1], dtype=float)[0])
    ctx.count(f'const-final.{icls}')
    rng = vc.rng_for(seeds[-1], 'const-final')
    prev = np.concatenate([np.asarray(h, dtype=float) for h in history[:-1]])
    x = np.array(sorted(set(const_points(rng, c) + [float(prev.min()), float(prev.max()), float(prev.mean())])))
    x = x[np.isfinite(x)]
    qs = np.array([0.0, 0.1, 0.5, 0.9, 1.0])
    u = U()
    for name, make in (('cls.from_dict(to_dict)', lambda: type(inst).from_dict(m.to_dict())),
                       ('from_dict(json.loads(json.dumps(to_dict)))',
                        lambda: u.Univariate.from_dict(json.loads(json.dumps(vc.jsonable(m.to_dict())))))):
        try:
            with np.errstate(all='ignore'):
                r = make()
        except Exception as e:  # noqa
            r = None
            problem = {'state': name, 'raises': f'{type(e).__name__}: {str(e)[:80]}'}
        if r is not None:
            problem = None
            for q, arg in (('cdf', x), ('pdf', x), ('ppf', qs), ('sample', 4)):
                a, b = call(getattr(m, LONG[q]), arg), call(getattr(r, LONG[q]), arg)
                counts['checks'] += 1
                if not (a[0] == b[0] and (bit_equal(a[1], b[1]) if a[0] == 'ok' else True)):
                    problem = {'state': name, 'query': LONG[q], 'constant': c, 'live_model': str(a[1])[:120],
                               'restored_model': str(b[1])[:120], 'restored _constant_value': repr(inst_of(r)._constant_value)}
                    break
        if problem is None:
            continue
        counts['failures'] += 1
        key = f'{icls}.from_dict:laws-differ-from-fitted-model'
        if sum(1 for f in ctx.failing if f['class'] == key) < 3:
            ctx.fail_input(f'{icls}.from_dict', {'spec': spec, 'history': [[float(v) for v in h] for h in history],
                                                 'seeds': list(seeds), 'law': 'const-final', 'to_dict': vc.jsonable(m.to_dict())},
                           problem, 'the model restored from to_dict() answers cdf / pdf / ppf / sample exactly like the live '
                           'model (the point mass at the LAST constant)', key)
        return


def search_const_final(ctx, rng, counts, deep):
    for cls in ALL + ('Univariate',):
        for where in (('outside-above', 'outside-below', 'inside') if (deep or cls == 'TruncatedGaussian')
                      else (rng.choice(['outside-above', 'outside-below']), 'inside')):
            first = gen_data(rng, n=rng.choice([8, 20]))[1]
            lo, hi, sd = float(first.min()), float(first.max()), float(first.std())
            c = {'outside-above': hi + sd * rng.uniform(0.5, 5), 'outside-below': lo - sd * rng.uniform(0.5, 5),
                 'inside': float(rng.choice(list(first)))}[where]
            hist = [first, np.full(rng.choice([5, 12]), c)]
            if rng.random() < 0.3:
                hist.insert(0, gen_data(rng, n=8)[1])
            spec = {'cls': cls, 'opts': {'candidates': rng.sample(list(SCIPY), 2)} if cls == 'Univariate' else {}}
            examine_const_final(ctx, spec, hist, [rng.randrange(2 ** 31) for _ in hist], counts)


# ------------------------------------------------------------------------ large sparse samples
def _primes(lo, hi):
    sieve = np.ones(hi + 1, dtype=bool)
    sieve[:2] = False
    for i in range(2, int(hi ** 0.5) + 1):
        if sieve[i]:
            sieve[i * i::i] = False
    return [int(p_) for p_ in np.flatnonzero(sieve) if p_ >= lo]


def sparse_sample(rng, n, layout):
    """`n` zeros (or another base value) with 5..20 non-zero entries at PRIME positions > 50, i.e. off every
    small stride (position % s != 0 for all s < 50)"""
    k = rng.randint(5, 20)
    pr = _primes(53, n - 1)
    if layout == 'clustered-at-end':
        pos = pr[-k:]
    elif layout == 'spread':
        pos = [pr[int(i * (len(pr) - 1) / (k - 1))] for i in range(k)]
    else:
        pos = rng.sample(pr, k)
    base = rng.choice([0.0, 0.0, 1.0, -3.5])
    x = np.full(n, base)
    for p_ in pos:
        x[p_] = base + rng.choice([-1, 1]) * rng.uniform(0.5, 20.0)
    return x, sorted(pos)


def examine_sparse(ctx, spec, n, layout, seed, counts):
    """a large NON-constant sample (a few values differ) must not be modelled as the point mass: `_constant_value`
    is None, the fitted scale is positive, and the C03 laws hold on it"""
    rng = vc.rng_for(seed, 'sparse', n, layout)
    data, pos = sparse_sample(rng, n, layout)
    m = fit(spec, data)
    if isinstance(m, tuple):
        ctx.count(f'sparse.{spec["cls"]}.fit-raises')
        return
    inst = inst_of(m)
    icls = type(inst).__name__
    ctx.count(f'sparse.{icls}.{n}.{layout}')
    counts['checks'] += 2
    key = f'{icls}.fit:non-constant-sample-fitted-as-point-mass'
    inp = {'spec': spec, 'n': n, 'layout': layout, 'seed': seed, 'law': 'sparse', 'nonzero_positions': pos,
           'distinct_values': int(len(np.unique(data)))}
    problem = None
    if inst._constant_value is not None:
        problem = {'_constant_value': float(inst._constant_value), 'distinct_values_in_sample': int(len(np.unique(data)))}
    elif 'scale' in (inst._params or {}) and not float(inst._params['scale']) > 0:
        problem = {'fitted_scale': float(inst._params['scale'])}
    if problem is not None:
        r = call(m.cumulative_distribution, np.array([float(np.min(data)) - 1, float(np.median(data)), float(np.max(data))]))
        problem['cdf at min-1, median, max'] = r[1].tolist() if r[0] == 'ok' else r[1]
        counts['failures'] += 1
        if sum(1 for f in ctx.failing if f['class'] == key) < 3:
            ctx.fail_input(f'{spec["cls"]}.fit', inp, problem,
                           'a sample with more than one distinct value is not fitted as the point mass '
                           '(_constant_value is None, scale > 0)', key)
        return
    fails = []
    d = np.asarray(inst._params['dataset'], dtype=float).ravel() if is_kde(m) else data
    counts['checks'] += laws(model_fns(m), d, rng, lambda *a: fails.append(a))
    fails = [f for f in fails if class_key(spec, m, f[0]) not in KNOWN_SINGLE_FIT]
    if fails:
        kind, i2, obs, req = fails[0]
        counts['failures'] += 1
        k2 = class_key(spec, m, kind) + ':large-sparse-sample'
        if sum(1 for f in ctx.failing if f['class'] == k2) < 3:
            ctx.fail_input(entry(spec['cls'], kind), dict(inp, **{'at': i2}), obs, req, k2)


def search_sparse(ctx, rng, counts, deep):
    sizes = [4096, 4097, 5000, 8192, 20000]
    layouts = ['clustered-at-end', 'spread', 'random-primes']
    specs = [{'cls': 'GaussianUnivariate', 'opts': {}}, {'cls': 'UniformUnivariate', 'opts': {}},
             {'cls': 'GaussianKDE', 'opts': {'sample_size': 40, 'np_seed': 7}},
             {'cls': 'Univariate', 'opts': {'candidates': ['GaussianUnivariate', 'UniformUnivariate']}}]
    plan = [(s_, n, lay) for s_ in specs for n in sizes for lay in layouts]
    if not deep:
        # every size and every layout at least once per run, the class rotating
        rng.shuffle(plan)
        seen, keep = set(), []
        for s_, n, lay in plan:
            tags = {('n', n), ('l', lay), ('c', s_['cls'])}
            if not tags <= seen or len(keep) < 8:
                keep.append((s_, n, lay))
                seen |= tags
            if len(keep) >= 10:
                break
        plan = keep
    for s_, n, lay in plan:
        examine_sparse(ctx, dict(s_, opts=dict(s_['opts'])), n, lay, rng.randrange(2 ** 31), counts)


# ------------------------------------------------------------------------ one large batch
def examine_batch(ctx, spec, data, big_n, seed, counts):
    """ONE call with `big_n` sorted probes must equal the same probes evaluated in chunks of 100 (every output
    element depends on its own input element only) and be non-decreasing (cdf, ppf)."""
    m = fit(spec, data)
    if isinstance(m, tuple):
        ctx.count(f'batch.{spec["cls"]}.fit-raises')
        return
    ctx.count(f'batch.{spec["cls"]}.{big_n}')
    kde = is_kde(m)
    rs = np.random.RandomState(seed)
    d = np.asarray(data, dtype=float)
    lo, hi, sd = float(d.min()), float(d.max()), float(d.std())
    x = np.sort(rs.uniform(lo - 2 * sd, hi + 2 * sd, big_n))
    q = np.sort(rs.uniform(1e-4, 1 - 1e-4, big_n))
    cls = spec['cls']
    for name, arg in (('cdf', x), ('pdf', x), ('ppf', q), ('logpdf', x)):
        f = getattr(m, LONG[name])
        whole = call(f, arg)
        step = 1000 if (kde and name in ('pdf', 'logpdf')) else 100     # (scipy's evaluate costs ~15 ms per call)
        parts = [call(f, arg[i:i + step]) for i in range(0, big_n, step)]
        counts['checks'] += big_n
        if whole[0] == 'err' or any(p_[0] == 'err' for p_ in parts):
            errs = [whole[1]] if whole[0] == 'err' else [p_[1] for p_ in parts if p_[0] == 'err'][:1]
            key = f'{cls}.{LONG[name]}:raises-on-batch'
            if sum(1 for f_ in ctx.failing if f_['class'] == key) < 2:
                counts['failures'] += 1
                ctx.fail_input(f'{cls}.{LONG[name]}', {'spec': spec, 'data': d.tolist(), 'batch': big_n, 'seed': seed},
                               errs[0], 'one call with many points returns values', key)
            continue
        chunks = np.concatenate([p_[1] for p_ in parts])
        w = whole[1]
        if kde and name in ('cdf', 'pdf', 'logpdf'):
            # BLAS / scipy sum the kernels in an order that depends on the block shape: ulps, not zeros
            okm = np.abs(w - chunks) <= 1e-12 * np.maximum(1.0, np.abs(chunks))
        elif kde:
            okm = np.abs(w - chunks) <= 1e-9 * max(hi - lo, sd)      # lanes share the solver's stopping test (C18)
        else:
            okm = (w == chunks) | (np.isnan(w) & np.isnan(chunks))
        okm = okm if w.shape == chunks.shape else np.zeros(1, dtype=bool)
        bad_mono = (name in ('cdf', 'ppf')) and w.shape == arg.shape and bool(np.any(np.diff(w) < -1e-9 * (1.0 if name == 'cdf' else max(hi - lo, sd))))
        if not np.all(okm) or bad_mono:
            key = f'{cls}.{LONG[name]}:depends-on-batch-size'
            counts['failures'] += 1
            if sum(1 for f_ in ctx.failing if f_['class'] == key) < 2:
                if not np.all(okm) and w.shape == chunks.shape:
                    i = int(np.argmin(okm))
                    obs = {'index': i, 'at': float(arg[i]), 'one_call': float(w[i]), 'in_chunks_of_100': float(chunks[i]),
                           'elements_differing': int(np.sum(~okm))}
                elif w.shape != chunks.shape:
                    obs = {'shape_one_call': list(w.shape), 'shape_chunks': list(chunks.shape)}
                else:
                    i = int(np.argmin(np.diff(w)))
                    obs = {'index': i, 'values': [float(w[i]), float(w[i + 1])], 'not_monotone': True}
                ctx.fail_input(f'{cls}.{LONG[name]}', {'spec': spec, 'data': d.tolist(), 'batch': big_n, 'seed': seed},
                               obs, f'{LONG[name]} of {big_n} sorted points in ONE call = the same points in chunks of 100 '
                               '(element i depends on input i only)' + (', non-decreasing' if name in ('cdf', 'ppf') else ''), key)


def search_batch(ctx, rng, counts, deep):
    fam = rng.choice([c for c in SCIPY if c != 'TruncatedGaussian'])      # truncnorm is slow on 12500 points
    for cls in ('GaussianKDE', fam):
        for big_n in ((6001, 12500) if (deep or cls == 'GaussianKDE') else (6001,)):
            meta, data = gen_data(rng, kind=rng.choice(['normal', 'gamma', 'bimodal', 'uniform']),
                                  n=rng.choice([12, 40, 90] if cls == 'GaussianKDE' else [20, 200]))
            spec = gen_spec(rng, cls, data)
            spec['opts'].pop('weights', None)
            examine_batch(ctx, spec, data, big_n, rng.randrange(2 ** 31), counts)


# ------------------------------------------------------------------ probabilities next to 0 and 1
Q_TAILS = [0.0, 1.0, 1e-12, 1e-9, 1e-8, 1 - 1e-9, 1 - 1e-12]


def examine_tails(ctx, spec, data, counts):
    """probabilities closer to 0 / 1 than EPSILON (and 0, 1 themselves): the wrapper must hand them to the selected
    instance untouched (bitwise the instance's own answer), and for the scipy-backed families cdf(ppf(q)) = q with
    a RELATIVE tolerance in the tails.  (GaussianKDE maps q <= EPSILON / q >= 1-EPSILON to -inf / +inf by design:
    kde_ppf_boundary_mapping; only the delegation is checked for it.)"""
    m = fit(spec, data)
    if isinstance(m, tuple):
        ctx.count(f'tails.{spec["cls"]}.fit-raises')
        return
    if is_const(m):
        return
    inst = inst_of(m)
    wrapper = spec['cls'] == 'Univariate'
    icls = type(inst).__name__
    ctx.count(f'tails.{spec["cls"]}' + (f'->{icls}' if wrapper else ''))
    d = np.asarray(data, dtype=float)
    span = max(abs(float(d.min())), abs(float(d.max())), float(d.std()))
    qs = np.array(Q_TAILS)

    def fail(entry_, key, inp, obs, req):
        counts['failures'] += 1
        if sum(1 for f in ctx.failing if f['class'] == key) < 3:
            ctx.fail_input(entry_, dict(inp, spec=spec, data=d.tolist(), law='tails'), obs, req, key)

    def roundtrip(obj):
        """-> list of (q, x, cdf(x)) violating cdf(ppf(q)) = q in the tails"""
        r = call(obj.percent_point, qs)
        if r[0] == 'err':
            return [('raises', r[1], None)]
        X = r[1]
        rb = call(obj.cumulative_distribution, X)
        if rb[0] == 'err':
            return [('raises', rb[1], None)]
        back = rb[1]
        extra = 1e3 * 2.3e-16 * param_cond(getattr(inst_of(obj), '_params', {}) or {})
        out = []
        for q, x, b in zip(qs, X, back):
            counts['checks'] += 1
            tol = 1e-6 * min(q, 1 - q) + 8 * 2.3e-16 + extra * min(1.0, max(q, 1e-300) if q < 0.5 else 1.0)
            if x == x and abs(b - q) <= tol:
                continue
            if x == x and math.isfinite(x):
                # steep end of a support: q only has to lie between the CDF values of the floats around x
                step = 16 * 2.3e-16 * max(abs(x), span)
                nb = call(obj.cumulative_distribution, np.array([x - step, x + step]))
                if nb[0] == 'ok' and nb[1][0] - tol <= q <= nb[1][1] + tol:
                    continue
            out.append((float(q), float(x), float(b)))
        return out
    if wrapper:
        for name in ('percent_point', 'ppf'):
            a, b = call(getattr(m, name), qs), call(inst.percent_point, qs)
            counts['checks'] += len(qs)
            same_ = a[0] == b[0] and (bit_equal(a[1], b[1]) if a[0] == 'ok' else a[1].split(':')[0] == b[1].split(':')[0])
            if not same_:
                if a[0] == 'ok' and b[0] == 'ok':
                    i = int(np.argmax(~((a[1] == b[1]) | (np.isnan(a[1]) & np.isnan(b[1])))))
                    obs = {'q': float(qs[i]), 'wrapper': float(a[1][i]), 'selected_instance': float(b[1][i]),
                           'selected': icls}
                else:
                    obs = {'wrapper': str(a[1])[:100], 'selected_instance': str(b[1])[:100], 'selected': icls}
                fail(f'Univariate.{name}', 'Univariate.percent_point:differs-from-selected-instance',
                     {'q': qs.tolist()}, obs,
                     'Univariate.percent_point(q) is (bitwise) the selected instance\'s percent_point(q), for every q in [0,1]')
                break
    if icls == 'GaussianKDE':
        return
    bad_i = roundtrip(inst)
    if bad_i:
        q, x, b = bad_i[0]
        fail(f'{icls}.percent_point', f'{icls}.percent_point:cdf-of-ppf-in-tails', {'q': q},
             {'ppf': x, 'cdf(ppf)': b}, '|cdf(ppf(q)) - q| <= 1e-6 min(q, 1-q) (+ few ulps) for q next to 0 / 1, '
             'cdf(ppf(0)) = 0, cdf(ppf(1)) = 1')
    elif wrapper:
        bad_w = roundtrip(m)
        if bad_w:
            q, x, b = bad_w[0]
            fail('Univariate.percent_point', 'Univariate.percent_point:cdf-of-ppf-in-tails', {'q': q},
                 {'ppf': x, 'cdf(ppf)': b, 'selected': icls, 'selected_instance_alone': 'passes'},
                 '|cdf(ppf(q)) - q| <= 1e-6 min(q, 1-q) (+ few ulps) for q next to 0 / 1 through the wrapper')


# ------------------------------------------------------------------ composition of one batch of probabilities
Q_ENDS = [0.0, 1.0, EPS / 2, 1 - EPS / 2, EPS, 1 - EPS, 1e-9, 1 - 1e-9]


def mixed_batches(rs):
    """batches mixing interior probabilities with end-point ones: several sizes, orders, positions"""
    out = [np.linspace(0, 1, 21), np.array([0.3, 0.9, 1.0]), np.array([0.0, 0.5]), np.array([0.5, 0.0])]
    for size in (2, 3, 7, 20, 50):
        k_end = max(1, min(size - 1, int(rs.choice([1, 2, 4]))))
        ends = list(rs.choice(Q_ENDS, k_end))
        inner = list(rs.uniform(1e-3, 1 - 1e-3, size - k_end))
        how = rs.choice(['ends-first', 'ends-last', 'shuffled', 'sorted'])
        q = ends + inner if how == 'ends-first' else inner + ends
        q = np.array(q)
        if how == 'shuffled':
            rs.shuffle(q)
        elif how == 'sorted':
            q = np.sort(q)
        out.append(q)
    return out


def examine_composition(ctx, spec, data, seed, counts):
    """the value returned for q_i inside a batch that mixes interior and end-point probabilities must be the value
    returned for q_i alone (bitwise; to the root finder's tolerance for the KDE) and for q_i in the all-interior
    sub-batch; the mixed batch must come back non-decreasing in q"""
    m = fit(spec, data)
    if isinstance(m, tuple):
        ctx.count(f'composition.{spec["cls"]}.fit-raises')
        return
    if is_const(m):
        return
    inst = inst_of(m)
    icls = type(inst).__name__
    wrapper = spec['cls'] == 'Univariate'
    kde = icls == 'GaussianKDE'
    ctx.count(f'composition.{spec["cls"]}' + (f'->{icls}' if wrapper else ''))
    d = np.asarray(data, dtype=float)
    span = max(float(d.max() - d.min()), float(d.std()))
    rs = np.random.RandomState(seed)
    variants = [('percent_point', lambda o, q: o.percent_point(q))]
    if kde and not wrapper:
        variants.append(('percent_point[bisect]', lambda o, q: o.percent_point(q, method='bisect')))

    def mismatch(obj, f, q):
        """-> None or (index, in_batch, alone/interior value, which reference)"""
        whole = call(lambda: f(obj, q))
        counts['checks'] += len(q)
        if whole[0] == 'err':
            return ('raises', whole[1])
        w = whole[1]
        if w.shape != q.shape:
            return ('shape', list(w.shape))
        tol = (1e-9 * span + 2e-8) if kde else 0.0
        interior = (q > EPS) & (q < 1 - EPS)
        alone = []
        for qi in q:
            r1 = call(lambda: f(obj, np.array([qi])))
            alone.append(float(r1[1][0]) if r1[0] == 'ok' and r1[1].shape == (1,) else np.nan)
        refs = [('alone', np.array(alone))]
        if interior.any() and not interior.all():
            r = call(lambda: f(obj, q[interior]))
            if r[0] == 'ok':
                full = np.full(len(q), np.nan)
                full[interior] = r[1]
                refs.append(('all-interior batch', full))
        for what, ref in refs:
            for i in range(len(q)):
                a, b = float(w[i]), float(ref[i])
                if what != 'alone' and not interior[i]:
                    continue
                if b != b and what == 'alone':
                    continue        # the single call itself fails (recorded elsewhere)
                ok = same(a, b) or (tol and math.isfinite(a) and math.isfinite(b) and abs(a - b) <= tol)
                if not ok:
                    return ('value', i, a, b, what)
        order = np.argsort(q, kind='stable')
        dv = np.diff(w[order])
        mt = tol + 1e-9 * max(span, 1.0)
        if np.any(dv < -mt):
            j = int(np.argmin(dv))
            return ('monotone', [float(q[order][j]), float(q[order][j + 1])], [float(w[order][j]), float(w[order][j + 1])])
        return None
    for name, f in variants:
        for q in mixed_batches(rs):
            r = mismatch(m, f, q)
            if r is None:
                continue
            counts['failures'] += 1
            owner = icls
            if wrapper and mismatch(inst, f, q) is None:
                owner = 'Univariate'
            key = f'{owner}.percent_point:depends-on-batch-composition'
            if sum(1 for f_ in ctx.failing if f_['class'] == key) < 3:
                if r[0] == 'value':
                    obs = {'index': r[1], 'q_i': float(q[r[1]]), 'in_mixed_batch': r[2], 'reference': r[3],
                           'reference_is': r[4], 'method': name}
                elif r[0] == 'monotone':
                    obs = {'q': r[1], 'percent_point': r[2], 'not_monotone': True, 'method': name}
                else:
                    obs = {'problem': r[0], 'detail': str(r[1])[:120], 'method': name}
                ctx.fail_input(f'{spec["cls"]}.percent_point', {'spec': spec, 'data': d.tolist(), 'q': q.tolist(),
                                                                'seed': seed, 'law': 'composition'}, obs,
                               'percent_point(q)[i] depends on q[i] only: equal to percent_point([q[i]]) and to the '
                               'all-interior batch, whatever else the batch contains; non-decreasing in q', key)
            break


def search_composition(ctx, rng, counts, deep):
    for rep in range(3 if deep else 1):
        for cls in ALL:
            meta, data = gen_data(rng, n=rng.choice([8, 30, 100]))
            spec = gen_spec(rng, cls, data)
            spec['opts'].pop('weights', None)
            examine_composition(ctx, spec, data, rng.randrange(2 ** 31), counts)
        for cands in (['GaussianKDE'], [rng.choice(SCIPY)], None):
            meta, data = gen_data(rng, n=rng.choice([8, 30]))
            opts = {'candidates': cands} if cands else {}
            examine_composition(ctx, {'cls': 'Univariate', 'opts': opts}, data, rng.randrange(2 ** 31), counts)


# ------------------------------------------------------------------ one candidate list of INSTANCES, several wrappers
def examine_shared(ctx, cand_names, datasets, seeds, counts, seeded_protos=False):
    """`cands` = prototype INSTANCES, reused for several `Univariate(candidates=cands)` fits (one per column of a
    table, some constant).  Every wrapper must keep answering for ITS OWN data after the others were fitted:
    bitwise the snapshot taken right after its own fit, the C03 laws for its own data, and no two wrappers (nor a
    wrapper and a prototype) may share the fitted model object."""
    u = U()
    protos = [getattr(u, c)(random_state=0) if (seeded_protos and c != 'GaussianKDE') else getattr(u, c)()
              for c in cand_names]
    ctx.count('shared.' + '+'.join(cand_names))
    rng = vc.rng_for(seeds[0], 'shared-probes')
    wrappers, snaps = [], []
    qs = np.array([0.0, 0.01, 0.2, 0.5, 0.8, 0.99, 1.0])

    def snapshot(w, x):
        out = {}
        for q, arg in (('cdf', x), ('pdf', x), ('ppf', qs)):
            out[q] = call(getattr(w, LONG[q]), arg)
        try:
            out['to_dict'] = {k: (float(v) if isinstance(v, (int, float, np.floating, np.integer)) else repr(v))
                              for k, v in w.to_dict().items()}
        except Exception as e:  # noqa
            out['to_dict'] = f'{type(e).__name__}'
        return out
    for data, seed in zip(datasets, seeds):
        w = u.Univariate(candidates=protos)
        if seeded_fit(w, data, seed) is not None:
            ctx.count('shared.fit-raises')
            return
        d = np.asarray(data, dtype=float)
        x = probes(rng, d) if len(np.unique(d)) > 1 else np.array(const_points(rng, float(d[0])))
        wrappers.append((w, d, x))
        snaps.append(snapshot(w, x))
    key = 'Univariate.fit:fitted-model-shared-between-wrappers'

    def fail(inp, obs, req):
        counts['failures'] += 1
        if sum(1 for f in ctx.failing if f['class'] == key) < 3:
            ctx.fail_input('Univariate.fit', dict(inp, candidates=list(cand_names), seeded_protos=seeded_protos,
                                                  datasets=[[float(v) for v in d_] for d_ in datasets],
                                                  seeds=list(seeds), law='shared'), obs, req, key)
    # snapshots and laws, after ALL fits
    for i, ((w, d, x), snap) in enumerate(zip(wrappers, snaps)):
        now = snapshot(w, x)
        for q in ('cdf', 'pdf', 'ppf', 'to_dict'):
            a, b = snap[q], now[q]
            counts['checks'] += 1
            if q == 'to_dict':
                same_ = a == b
            else:
                same_ = a[0] == b[0] and (bit_equal(a[1], b[1]) if a[0] == 'ok' else True)
            if not same_:
                if q != 'to_dict' and a[0] == 'ok' and b[0] == 'ok' and a[1].shape == b[1].shape:
                    k = int(np.argmax(~((a[1] == b[1]) | (np.isnan(a[1]) & np.isnan(b[1])))))
                    arg = qs if q == 'ppf' else x
                    obs = {'wrapper': i, 'query': LONG[q], 'at': float(arg[k]), 'right_after_its_fit': float(a[1][k]),
                           'after_the_other_fits': float(b[1][k])}
                else:
                    obs = {'wrapper': i, 'query': q, 'right_after_its_fit': str(a)[:120], 'after_the_other_fits': str(b)[:120]}
                fail({'wrapper': i}, obs, 'a fitted wrapper answers the same before and after OTHER wrappers are fitted '
                                         'with the same candidate list')
                break
        fails = []

        def rep(kind, inp, obs, req):
            fails.append((kind, inp, obs, req))
        if len(np.unique(d)) == 1:
            counts['checks'] += const_laws(w, float(d[0]), rng, rep)
        elif not is_const(w):
            counts['checks'] += laws(model_fns(w), d, rng, rep)
        else:
            fails.append(('constant-model-for-non-constant-data', {}, {'_constant_value': repr(inst_of(w)._constant_value)},
                          'a wrapper fitted on non-constant data is not a point mass'))
        fails = [f for f in fails if class_key({'cls': 'Univariate', 'opts': {}}, w, f[0]) not in KNOWN_SINGLE_FIT]
        if fails:
            kind, inp, obs, req = fails[0]
            fail(dict(inp, wrapper=i, broken_law=kind), {'wrapper': i, 'law': kind, 'observed': obs},
                 req + ' [for the wrapper\'s OWN data, after all wrappers were fitted]')
    # identity
    objs = [w._instance for w, _, _ in wrappers]
    for i in range(len(objs)):
        counts['checks'] += 1
        if any(objs[i] is p_ for p_ in protos) or any(objs[i] is objs[j] for j in range(i)):
            fail({'wrapper': i}, {'wrapper': i, 'its _instance is': 'a candidate prototype' if any(objs[i] is p_ for p_ in protos)
                                  else f'the _instance of wrapper {[j for j in range(i) if objs[i] is objs[j]][0]}'},
                 'every fitted wrapper owns its fitted model: the _instance objects are pairwise distinct and none is '
                 'one of the candidate prototypes')
            break


def search_shared(ctx, rng, counts, deep):
    for rep in range(3 if deep else 1):
        lists = [['GaussianUnivariate', 'UniformUnivariate'], [rng.choice(['GaussianUnivariate', 'UniformUnivariate', 'GammaUnivariate',
                                                                          'StudentTUnivariate', 'LogLaplace', 'BetaUnivariate'])],
                 rng.sample(list(ALL), 3)]
        for k, names in enumerate(lists):
            datasets = []
            for j in range(rng.choice([3, 4, 5])):
                meta, data = gen_data(rng, n=rng.choice([20, 60]))
                datasets.append(data)
            pos = rng.randrange(len(datasets))
            datasets.insert(pos, np.full(rng.choice([5, 60]), float(rng.choice([7.0, 0.0, -3.5, rng.uniform(-50, 50)]))))
            seeds = [rng.randrange(2 ** 31) for _ in datasets]
            examine_shared(ctx, names, datasets, seeds, counts, seeded_protos=(k == 0 and rng.random() < 0.5))


# ------------------------------------------------------------------ probabilities hit EXACTLY by a solver midpoint
def structured_sample(rng):
    """symmetric / evenly spaced / integer samples (their mid-range, mean and median are exact floats)"""
    kind = rng.choice(['1..n', '-k..k', 'linspace', 'symmetric', 'generic'])
    if kind == '1..n':
        return kind, np.arange(1.0, rng.choice([5, 6, 9, 10, 20, 41]) + 1)
    if kind == '-k..k':
        k = rng.choice([2, 3, 5, 10, 25])
        return kind, np.arange(-k, k + 1.0)
    if kind == 'linspace':
        a = rng.choice([0.0, -1.0, 10.0, 0.5])
        return kind, np.linspace(a, a + rng.choice([1.0, 2.0, 8.0, 100.0]), rng.choice([5, 9, 17, 33]))
    if kind == 'symmetric':
        rs = np.random.RandomState(rng.randrange(2 ** 31))
        h = np.abs(rs.normal(0, rng.choice([1.0, 4.0, 0.25]), rng.choice([3, 8, 20]))) + 0.125
        return kind, np.concatenate([-h, h])
    return kind, gen_data(rng, n=rng.choice([8, 30, 100]))[1]


def examine_exact_hits(ctx, spec, data, seed, counts):
    """GaussianKDE.percent_point, both solvers, on batches that contain probabilities a solver midpoint hits
    EXACTLY (q = cdf of the dyadic points of the bracket, of the mid-range / mean / observed points; 0.5, 0.25, …)
    next to quartiles / deciles / tails: every element must satisfy |cdf(ppf(q)) - q| <= the solver's tolerance,
    equal its value when asked alone, and the batch must be non-decreasing."""
    m = fit(spec, data)
    if isinstance(m, tuple) or is_const(m) or not is_kde(m):
        return
    inst = inst_of(m)
    ctx.count('exact-hits.' + spec.get('sample', 'generic'))
    rs = np.random.RandomState(seed)
    d = np.asarray(inst._params['dataset'], dtype=float).ravel()
    L, Up = (float(v) for v in inst._get_bounds())
    span = max(float(d.max() - d.min()), float(d.std()))
    mids = [(L + Up) / 2.0]
    mids += [(L + mids[0]) / 2.0, (mids[0] + Up) / 2.0]
    mids += [(mids[1] + mids[0]) / 2.0, (mids[0] + mids[2]) / 2.0]
    pts = mids + [(float(d.min()) + float(d.max())) / 2.0, float(d.mean()), float(np.median(d))] + \
        [float(v) for v in rs.choice(d, min(3, len(d)), replace=False)]
    with np.errstate(all='ignore'):
        q_hit = [float(v) for v in inst.cumulative_distribution(np.array(pts))]
        maxpdf = float(np.max(inst.probability_density(d)))
        cu = float(inst.cumulative_distribution(np.array([Up]))[0])
    dyadic = [0.5, 0.25, 0.75, 0.125, 0.875, 0.0625]
    grids = [[0.25, 0.5, 0.75], [i / 10 for i in range(1, 10)], [1e-3, 0.01, 0.05, 0.95, 0.99, 1 - 1e-3]]
    batches = []
    for g in grids:
        k = int(rs.randint(1, 4))
        extra = list(rs.choice(q_hit, k)) + list(rs.choice(dyadic, 2))
        b = np.array(list(g) + extra)
        if rs.rand() < 0.5:
            rs.shuffle(b)
        batches.append(b)
    batches.append(np.array([q_hit[0], 0.1]))
    batches.append(np.array([0.9, 0.5]))
    batches.append(np.array(sorted(q_hit[:5] + [0.2, 0.8])))
    for method in ('bisect', 'chandrupatla'):
        xtol = (2e-8 + 1e-9 * span) if method == 'bisect' else 1e-9 * span
        qtol = 1e-7 + (maxpdf * 1e-8 if method == 'bisect' else 0.0)
        for b in batches:
            b = b[(b > 2 * EPS) & (b < min(1 - 2 * EPS, cu))]      # (q above cdf(U): the known bracket finding)
            if len(b) < 2:
                continue
            whole = call(inst.percent_point, b, method=method)
            counts['checks'] += len(b)
            problem = None
            if whole[0] == 'err':
                problem = {'raises': whole[1]}
            else:
                w = whole[1]
                back = np.asarray(inst.cumulative_distribution(w), dtype=float)
                bad = ~(np.abs(back - b) <= qtol)
                if np.any(bad):
                    i = int(np.argmax(bad))
                    problem = {'index': i, 'q_i': float(b[i]), 'ppf_in_batch': float(w[i]), 'cdf(ppf)': float(back[i]),
                               'tolerance': qtol}
                else:
                    for i, qi in enumerate(b):
                        r1 = call(inst.percent_point, np.array([qi]), method=method)
                        if r1[0] == 'ok' and not abs(float(r1[1][0]) - float(w[i])) <= xtol:
                            problem = {'index': i, 'q_i': float(qi), 'ppf_in_batch': float(w[i]),
                                       'ppf_alone': float(r1[1][0]), 'tolerance_x': xtol}
                            break
                    order = np.argsort(b, kind='stable')
                    dv = np.diff(w[order])
                    if problem is None and np.any(dv < -xtol):
                        j = int(np.argmin(dv))
                        problem = {'not_monotone': True, 'q': [float(b[order][j]), float(b[order][j + 1])],
                                   'ppf': [float(w[order][j]), float(w[order][j + 1])]}
            if problem is None:
                continue
            counts['failures'] += 1
            key = ('GaussianKDE.percent_point:bisect:batch-stops-early' if method == 'bisect'
                   else 'GaussianKDE.percent_point:batch-with-exactly-hit-probability')
            if sum(1 for f in ctx.failing if f['class'] == key) < 3:
                ctx.fail_input('GaussianKDE.percent_point', {'spec': spec, 'data': [float(v) for v in data], 'q': b.tolist(),
                                                              'method': method, 'seed': seed, 'law': 'exact-hits'},
                               dict(problem, method=method, exactly_hit_probabilities=[float(v) for v in b if float(v) in q_hit]),
                               'every element of a batch: |cdf(ppf(q)) - q| <= the solver tolerance, equal to its value when '
                               'asked alone, non-decreasing in q -- also when a solver midpoint hits one q exactly', key)
            break


def search_exact_hits(ctx, rng, counts, deep):
    for rep in range(12 if deep else 4):
        kind, data = structured_sample(rng)
        spec = {'cls': 'GaussianKDE', 'opts': {'bw_method': rng.choice([None, 'scott', 'silverman', 0.5, 1.0])},
                'sample': kind}
        examine_exact_hits(ctx, spec, data, rng.randrange(2 ** 31), counts)


# ------------------------------------------------------------------ RELATIVE accuracy in the lower tail
Q_LOW = [1e-3, 1e-6, 1e-10, 1e-16, 1e-25]


def examine_lower_tail(ctx, spec, data, counts):
    """scipy-backed families (directly and through the wrapper): at the model's own quantiles x_k = ppf(q_k),
    q_k = 1e-3 … 1e-25, the CDF must be q_k to RELATIVE 1e-6 (a CDF computed as 1 - sf is quantised to 1.1e-16
    there), be positive where the density is, invert back (ppf(cdf(x_k)) = x_k) and its increments over tail
    intervals must be the integral of the density, relatively.  Only the lower tail: near 1 the CDF itself is
    rounded to 1 by the unchanged library."""
    m = fit(spec, data)
    if isinstance(m, tuple) or is_const(m) or is_kde(m):
        return
    inst = inst_of(m)
    icls = type(inst).__name__
    ctx.count(f'lower-tail.{spec["cls"]}' + (f'->{icls}' if spec['cls'] == 'Univariate' else ''))
    pr = {k: float(v) for k, v in inst._params.items()}
    loc, sc = pr.get('loc', 0.0), pr.get('scale', 1.0)
    extra = 1e3 * 2.3e-16 * param_cond(pr)
    d = np.asarray(data, dtype=float)

    def fail(kind, inp, obs, req, key=None):
        counts['failures'] += 1
        key = key or f'{icls}.cumulative_distribution:lower-tail-relative-accuracy'
        if sum(1 for f in ctx.failing if f['class'] == key) < 3:
            ctx.fail_input(f'{spec["cls"]}.cumulative_distribution', dict(inp, spec=spec, data=d.tolist(), law='lower-tail',
                                                                         check=kind, params=pr), obs, req, key)
    qs = np.array(Q_LOW)
    r = call(m.percent_point, np.concatenate([[0.0], qs]))
    if r[0] == 'err':
        return
    end, X = float(r[1][0]), r[1][1:]
    with np.errstate(all='ignore'):
        F = call(m.cumulative_distribution, X)
        f = call(m.probability_density, X)
    if F[0] == 'err' or f[0] == 'err':
        return
    F, f = F[1], f[1]
    usable = []
    for k, (q, x, Fx, fx) in enumerate(zip(qs, X, F, f)):
        mag = max(abs(x), abs(loc), sc)
        if not math.isfinite(x) or x == end or abs(x - end) <= 64 * FEPS * mag or not (fx > 0) or not math.isfinite(fx):
            ctx.count('lower-tail.skip-at-support-end')
            continue
        # one rounding of x (or of x - loc) moves the CDF relatively by pdf/cdf * ulp
        cond = 8 * FEPS * mag * fx / q
        if not cond <= 1e-4:
            ctx.count('lower-tail.skip-ill-conditioned')
            continue
        counts['checks'] += 3
        tol = 1e-6 + cond + extra
        if not (Fx > 0):
            fail('positive', {'q': float(q), 'x': float(x)}, {'cdf': float(Fx), 'pdf': float(fx)},
                 'cdf(x) > 0 where pdf(x) > 0 (x = the model\'s own quantile of q)')
            return
        if not abs(Fx - q) <= tol * q:
            fail('cdf-of-quantile', {'q': float(q), 'x': float(x)}, {'cdf': float(Fx), 'relative_error': float(abs(Fx - q) / q)},
                 f'|cdf(ppf(q)) - q| <= {tol:.2g} * q in the lower tail')
            return
        back = call(m.percent_point, np.array([Fx]))
        if back[0] == 'ok':
            xb = float(back[1][0])
            tolx = (1e-6 + extra) * mag + 8 * FEPS * mag
            if not abs(xb - x) <= tolx:
                fail('ppf-of-cdf', {'q': float(q), 'x': float(x)}, {'cdf': float(Fx), 'ppf(cdf)': xb},
                     'ppf(cdf(x)) = x at the model\'s own lower-tail quantiles',
                     key=f'{icls}.percent_point:lower-tail-round-trip')
                return
        usable.append((float(x), float(Fx), tol))
    # increments over tail intervals = integral of the density, relatively
    usable.sort()
    for (xa, Fa, ta), (xb, Fb, tb) in zip(usable[:-1], usable[1:]):
        if not xb > xa:
            continue
        try:
            with np.errstate(all='ignore'):
                integ, qerr = gl_integral(lambda t: np.asarray(m.probability_density(t), dtype=float) / Fb, xa, xb)
        except Exception:  # noqa
            continue
        counts['checks'] += 1
        want = (Fb - Fa) / Fb
        tol = 1e-6 + 4 * qerr + ta + tb
        if not abs(integ - want) <= tol:
            fail('integral', {'a': xa, 'b': xb}, {'integral_pdf/cdf(b)': integ, '(cdf(b)-cdf(a))/cdf(b)': want,
                                                  'cdf(a)': Fa, 'cdf(b)': Fb},
                 f'|int_a^b pdf - (cdf(b) - cdf(a))| <= {tol:.2g} * cdf(b) on lower-tail intervals')
            return


def search_lower_tail(ctx, rng, counts, deep):
    for rep in range(4 if deep else 1):
        for cls in SCIPY:
            meta, data = gen_data(rng, n=rng.choice([8, 30, 120]))
            examine_lower_tail(ctx, gen_spec(rng, cls, data), data, counts)
        for k in range(2):
            meta, data = gen_data(rng, n=rng.choice([8, 30, 120]))
            cands = [SCIPY[(2 * rep + k) % len(SCIPY)]] if k == 0 else rng.sample(list(SCIPY), 2)
            examine_lower_tail(ctx, {'cls': 'Univariate', 'opts': {'candidates': cands}}, data, counts)


# ------------------------------------------------------------------ dtype / container of the probabilities
def examine_dtypes(ctx, spec, data, seed, counts):
    """percent_point of probabilities given as float32 / float16 arrays, numpy scalars and 0-d arrays must be the
    float64 answer for the SAME numbers (within the solver tolerance) and satisfy cdf(ppf(q)) = q; also for data
    far from 0 relative to its spread, where a float32 result array would round the roots."""
    m = fit(spec, data)
    if isinstance(m, tuple) or is_const(m):
        return
    inst = inst_of(m)
    icls = type(inst).__name__
    kde = icls == 'GaussianKDE'
    ctx.count(f'dtypes.{spec["cls"]}' + (f'->{icls}' if spec['cls'] == 'Univariate' else ''))
    rs = np.random.RandomState(seed)
    d = np.asarray(data, dtype=float)
    span = max(float(d.max() - d.min()), float(d.std()))
    q64 = np.concatenate([[0.25, 0.5, 0.75, 0.1, 0.9], rs.uniform(0.02, 0.98, 4)])
    variants = [('float32 array', q64.astype(np.float32)), ('float16 array', q64.astype(np.float16)),
                ('np.float32 scalar', np.float32(q64[5])), ('0-d float64 array', np.array(q64[6])),
                ('0-d float32 array', np.array(q64[7], dtype=np.float32)),
                ('float32 array with end points', np.array([0.0, 0.3, 1.0, 0.6], dtype=np.float32))]
    methods = [None] + (['bisect'] if kde and spec['cls'] != 'Univariate' else [])
    with np.errstate(all='ignore'):
        maxpdf = float(np.max(m.probability_density(d)))
    for method in methods:
        kw = {'method': method} if method else {}
        xtol = 1e-6 * span + (2e-8 if method == 'bisect' else 0.0)
        for what, U in variants:
            U64 = np.asarray(U, dtype=np.float64)           # the same numbers, exactly
            ref = call(m.percent_point, np.atleast_1d(U64), **kw)
            got = call(m.percent_point, U, **kw)
            counts['checks'] += U64.size
            if ref[0] == 'err' or got[0] == 'err':
                if ref[0] != got[0]:
                    ctx.count(f'dtypes.{what}.not-accepted')      # container not accepted by this class: not a law
                continue
            a, b = np.atleast_1d(got[1]).astype(float), ref[1]
            problem = None
            if a.shape != b.shape:
                problem = {'shape': list(a.shape), 'float64_shape': list(b.shape)}
            else:
                fin = np.isfinite(a) & np.isfinite(b)
                bad = ~(((a == b) | (np.isnan(a) & np.isnan(b))) | (fin & (np.abs(a - b) <= xtol)))
                if np.any(bad):
                    # scipy may carry the computation out at the precision of the input dtype (float16 / float32
                    # loops of ndtri …): the two answers may then differ by a few input-epsilons in PROBABILITY
                    qeps = 8 * float(np.finfo(np.asarray(U).dtype).eps)
                    ca, cb = call(m.cumulative_distribution, a[bad & fin]), call(m.cumulative_distribution, b[bad & fin])
                    if ca[0] == 'ok' and cb[0] == 'ok' and np.all(np.abs(ca[1] - cb[1]) <= qeps) and not np.any(bad & ~fin):
                        bad[:] = False
                if np.any(bad):
                    i = int(np.argmax(bad))
                    problem = {'q': float(np.atleast_1d(U64)[i]), 'ppf': float(a[i]), 'ppf_of_float64_probabilities': float(b[i]),
                               'tolerance_x': xtol}
                else:
                    back = call(m.cumulative_distribution, a[fin])
                    qq = np.atleast_1d(U64)[fin]
                    inner = (qq > 2 * EPS) & (qq < 1 - 2 * EPS)
                    rback = call(m.cumulative_distribution, b[fin])
                    if back[0] == 'ok' and rback[0] == 'ok' and np.any(inner):
                        err = np.abs(back[1][inner] - qq[inner])
                        tol = 1e-6 + (maxpdf * 1e-8 if method == 'bisect' else 0.0) + \
                            8 * float(np.finfo(np.asarray(U).dtype).eps)
                        # (only where the float64 call itself inverts the CDF: a degenerate fit is not a dtype matter)
                        err = np.where(np.abs(rback[1][inner] - qq[inner]) <= tol, err, 0.0)
                        if np.any(err > tol):
                            i = int(np.argmax(err))
                            problem = {'q': float(qq[inner][i]), 'ppf': float(a[fin][inner][i]),
                                       'cdf(ppf)': float(back[1][inner][i]), 'tolerance': tol}
            if problem is None:
                continue
            counts['failures'] += 1
            key = f'{icls}.percent_point:depends-on-probability-dtype'
            if sum(1 for f in ctx.failing if f['class'] == key) < 3:
                ctx.fail_input(f'{spec["cls"]}.percent_point', {'spec': spec, 'data': d.tolist(), 'seed': seed, 'law': 'dtypes',
                                                                'probabilities': what, 'values': np.atleast_1d(U64).tolist(),
                                                                'method': method or 'default'},
                               dict(problem, probabilities=what, result_dtype=str(np.asarray(got[1]).dtype)),
                               'percent_point of float32 / float16 / scalar probabilities = percent_point of the same numbers '
                               'as a float64 array (solver tolerance), and cdf(ppf(q)) = q', key)
            return


def search_dtypes(ctx, rng, counts, deep):
    for rep in range(3 if deep else 1):
        for cls in ALL + ('Univariate',):
            big = cls in ('GaussianKDE', 'Univariate') or rng.random() < 0.5
            rs = np.random.RandomState(rng.randrange(2 ** 31))
            if big:      # far from 0 relative to the spread
                data = rng.choice([-1, 1]) * 10 ** rng.uniform(3, 5) + rs.normal(0, 1, rng.choice([12, 40, 90]))
            else:
                data = gen_data(rng, n=rng.choice([12, 40]))[1]
            spec = {'cls': cls, 'opts': {'candidates': ['GaussianKDE']} if cls == 'Univariate' else {}}
            examine_dtypes(ctx, spec, data, rng.randrange(2 ** 31), counts)
        if True:
            data = gen_data(rng, n=30)[1]
            examine_dtypes(ctx, {'cls': 'GaussianKDE', 'opts': {'bw_method': rng.choice(['silverman', 0.5])}}, data,
                           rng.randrange(2 ** 31), counts)


# ------------------------------------------------------------------ object STATES: restored / cloned models
def state_variants(m, spec, data, seed):
    """-> [(name, object | ('err', text))]: the same fitted law reached along other paths"""
    import json
    import os
    u = U()
    out = []

    def attempt(name, f):
        try:
            with np.errstate(all='ignore'):
                out.append((name, f()))
        except Exception as e:  # noqa
            out.append((name, ('err', f'{type(e).__name__}: {str(e)[:80]}')))
    inst = inst_of(m)
    attempt('cls.from_dict(to_dict)', lambda: type(inst).from_dict(m.to_dict()))
    attempt('Univariate.from_dict(to_dict)', lambda: u.Univariate.from_dict(m.to_dict()))
    attempt('from_dict(json.loads(json.dumps(to_dict)))',
            lambda: u.Univariate.from_dict(json.loads(json.dumps(vc.jsonable(m.to_dict())))))

    def save_load():
        os.makedirs('/scratch/c03/pickles', exist_ok=True)
        path = f'/scratch/c03/pickles/c03-{os.getpid()}.pkl'
        m.save(path)
        try:
            return type(m).load(path)
        finally:
            os.remove(path)
    attempt('save/load', save_load)

    def clone_fit():
        from copulas.utils import get_instance
        c = get_instance(m)
        err = seeded_fit(c, data, seed)
        if err:
            raise RuntimeError(err)
        return c
    attempt('get_instance(model) + fit', clone_fit)
    return out


def examine_states(ctx, spec, data, seed, rng, counts):
    m = build(spec)
    if seeded_fit(m, data, seed) is not None:
        ctx.count(f'states.{spec["cls"]}.fit-raises')
        return
    inst = inst_of(m)
    icls = type(inst).__name__
    ctx.count(f'states.{spec["cls"]}' + (f'->{icls}' if spec['cls'] == 'Univariate' else ''))
    d = np.asarray(data, dtype=float)
    const = is_const(m)
    x = np.array(const_points(rng, float(d[0]))) if len(np.unique(d)) == 1 else probes(rng, d)
    qs = np.array([0.0, 1e-6, 0.01, 0.2, 0.5, 0.8, 0.99, 1 - 1e-6, 1.0])
    orig = {q: call(getattr(m, LONG[q]), qs if q == 'ppf' else x) for q in ('cdf', 'pdf', 'ppf', 'logpdf')}
    # do the laws hold for the fitted model itself?  (then they must hold for every other state of it)
    base_fail = []
    if not const and is_kde(m) and float(np.std(d)) < 1e-6:
        base_fail = ['skipped']      # the KDE root finders' absolute tolerances at tiny scales: known, and slow
    elif not const:
        laws(model_fns(m), d, vc.rng_for(seed, 'states-laws'), lambda *a: base_fail.append(a))
    for name, obj in state_variants(m, spec, data, seed):
        counts['checks'] += 4
        problem = None
        if isinstance(obj, tuple):
            problem = {'state': name, 'raises': obj[1]}
        else:
            for q in ('cdf', 'pdf', 'ppf', 'logpdf'):
                arg = qs if q == 'ppf' else x
                a, b = orig[q], call(getattr(obj, LONG[q]), arg)
                same_ = a[0] == b[0] and (bit_equal(a[1], b[1]) if a[0] == 'ok' else a[1].split(':')[0] == b[1].split(':')[0])
                if not same_:
                    if a[0] == 'ok' and b[0] == 'ok' and a[1].shape == b[1].shape:
                        i = int(np.argmax(~((a[1] == b[1]) | (np.isnan(a[1]) & np.isnan(b[1])))))
                        problem = {'state': name, 'query': LONG[q], 'at': float(arg[i]), 'fitted_model': float(a[1][i]),
                                   'this_state': float(b[1][i])}
                    else:
                        problem = {'state': name, 'query': LONG[q], 'fitted_model': str(a[1])[:100], 'this_state': str(b[1])[:100]}
                    break
            if problem is None and not const and not base_fail and name == 'cls.from_dict(to_dict)':
                fails = []
                laws(model_fns(obj), d, vc.rng_for(seed, 'states-laws'), lambda *a: fails.append(a))
                if fails:
                    problem = {'state': name, 'law': fails[0][0], 'input': fails[0][1], 'observed': fails[0][2]}
            if problem is None and const and not is_const(obj):
                problem = {'state': name, 'constant_model_lost': True}
        if problem is None:
            continue
        counts['failures'] += 1
        path = 'from_dict' if 'from_dict' in name else ('save-load' if name == 'save/load' else 'clone')
        key = f'{icls}.{path}:laws-differ-from-fitted-model'
        if sum(1 for f in ctx.failing if f['class'] == key) < 3:
            ctx.fail_input(f'{icls}.{path}', {'spec': spec, 'data': d.tolist(), 'seed': seed, 'law': 'states', 'state': name,
                                              'to_dict': vc.jsonable(m.to_dict())}, problem,
                           'a model restored / cloned along this path answers cdf, pdf, ppf, log-pdf exactly like the fitted '
                           'model and satisfies the same laws', key)


def states_data(rng):
    kind = rng.choice(['generic', 'tiny-1e-9', 'tiny-1e-12', 'huge-offset', 'few-distinct', 'constant'])
    rs = np.random.RandomState(rng.randrange(2 ** 31))
    n = rng.choice([8, 30, 80])
    if kind == 'generic':
        return kind, gen_data(rng, n=n)[1]
    if kind.startswith('tiny'):
        unit = 1e-9 if kind == 'tiny-1e-9' else 1e-12
        base = rng.choice([0.0, 3.0 * unit])
        return kind, base + unit * rs.gamma(2.0, 1.0, n) * rng.choice([1.0, 0.3])
    if kind == 'huge-offset':
        return kind, rng.choice([-1, 1]) * 10 ** rng.uniform(4, 7) + rs.normal(0, rng.choice([1.0, 10.0]), n)
    if kind == 'few-distinct':
        return kind, rs.choice(np.array([1.0, 2.0, 2.5, 4.0, 7.0]) * 10 ** rng.uniform(-1, 2), n)
    return kind, np.full(n, float(rng.uniform(-50, 50)))


def search_states(ctx, rng, counts, deep):
    for rep in range(3 if deep else 1):
        for cls in ALL + ('Univariate',):
            for j in range(2):
                kind, data = states_data(rng) if j else ('tiny', states_data_tiny(rng))
                if cls == 'BetaUnivariate' and kind == 'constant':
                    data = np.full(len(data), float(rng.uniform(-50, 50)))
                spec = {'cls': cls, 'opts': {}}
                if cls == 'Univariate':
                    spec['opts'] = {'candidates': rng.sample(list(SCIPY), 2)}
                examine_states(ctx, spec, data, rng.randrange(2 ** 31), rng, counts)


def states_data_tiny(rng):
    rs = np.random.RandomState(rng.randrange(2 ** 31))
    unit = rng.choice([1e-9, 1e-12])
    return rng.choice([0.0, 2.0, -5.0]) * unit + unit * rs.normal(0, 1, rng.choice([8, 30, 80]))


def search_tails(ctx, rng, counts, deep):
    for rep in range(4 if deep else 1):
        for cls in ALL:
            meta, data = gen_data(rng, n=rng.choice([8, 30, 120]))
            spec = gen_spec(rng, cls, data)
            spec['opts'].pop('weights', None)
            examine_tails(ctx, spec, data, counts)
        # the wrapper over short candidate lists that can only select a scipy-backed family
        for k in range(4):
            meta, data = gen_data(rng, n=rng.choice([8, 30, 120]))
            cands = [SCIPY[(k + 2 * rep) % len(SCIPY)]] if k < 2 else rng.sample(list(SCIPY), 2)
            examine_tails(ctx, {'cls': 'Univariate', 'opts': {'candidates': cands}}, data, counts)
        meta, data = gen_data(rng, n=30)
        examine_tails(ctx, {'cls': 'Univariate', 'opts': {'candidates': ['GaussianKDE']}}, data, counts)


def search(ctx, deep):
    rng = ctx.rng('search')
    counts = {'checks': 0, 'failures': 0}
    reps = 10 if deep else 2
    search_tails(ctx, ctx.rng('search-tails'), counts, deep)
    search_composition(ctx, ctx.rng('search-composition'), counts, deep)
    search_exact_hits(ctx, ctx.rng('search-exact-hits'), counts, deep)
    search_lower_tail(ctx, ctx.rng('search-lower-tail'), counts, deep)
    search_dtypes(ctx, ctx.rng('search-dtypes'), counts, deep)
    search_states(ctx, ctx.rng('search-states'), counts, deep)
    search_shared(ctx, ctx.rng('search-shared'), counts, deep)
    search_history(ctx, ctx.rng('search-history'), counts, deep)
    search_const_history(ctx, ctx.rng('search-const-history'), counts, deep)
    search_sparse(ctx, ctx.rng('search-sparse'), counts, deep)
    search_const_final(ctx, ctx.rng('search-const-final'), counts, deep)
    search_batch(ctx, ctx.rng('search-batch'), counts, deep)
    for rep in range(reps):
        for cls in ALL + ('Univariate',):
            for j in range(2):
                const = (j == 1 and rng.random() < 0.5)
                if const:
                    c = gen_constant(rng) if cls != 'BetaUnivariate' else rng.uniform(-50, 50)
                    data = np.full(rng.choice([5, 9, 40]), c)
                else:
                    meta, data = gen_data(rng)
                spec = gen_spec(rng, cls, data)
                if const:
                    spec['opts'].pop('weights', None)
                examine(ctx, spec, data, rng, deep, counts)
    # the small-sample, wide-bandwidth corner of the KDE option space (where the truncation is largest)
    for rep in range(4 * reps):
        n = rng.choice([5, 6, 8, 12])
        meta, data = gen_data(rng, kind=rng.choice(['normal', 'uniform', 'bimodal', 't']), n=n)
        spec = {'cls': 'GaussianKDE', 'opts': {'bw_method': rng.choice([1.0, 0.9, 1.0, 'silverman'])}}
        examine(ctx, spec, data, rng, deep, counts)
    if deep:
        # (a) weights that put the mass on the extremes: scipy's bandwidth follows the WEIGHTED covariance while
        #     _get_bounds uses the unweighted np.std, so the truncated mass is no longer small
        for rep in range(3):
            k = rng.choice([20, 60, 200])
            rs = np.random.RandomState(rng.randrange(2 ** 31))
            sc = 10 ** rng.uniform(-1, 2)
            data = np.concatenate([[-10 * sc, 10 * sc], rs.normal(0, 0.1 * sc, k)])
            w = [100.0, 100.0] + [0.01] * k
            spec = {'cls': 'GaussianKDE', 'opts': {'bw_method': rng.choice([None, 'silverman', 1.0]), 'weights': w}}
            examine(ctx, spec, data, rng, deep, counts)
        # (b) data of small magnitude: the root finders stop on ABSOLUTE tolerances (bisect tol=1e-8 on the bracket
        #     width, chandrupatla eps_a = 2*eps on the step) that do not scale with the data
        for rep in range(4):
            meta, data = gen_data(rng, kind=rng.choice(['normal', 'uniform', 'bimodal']), n=rng.choice([8, 30, 100]))
            data = (data - meta['loc']) / meta['scale'] * 10 ** rng.uniform(-13, -9)
            spec = {'cls': 'GaussianKDE', 'opts': {'bw_method': rng.choice([None, 'silverman'])},
                    'tag': 'data-scale-below-1e-9'}
            examine(ctx, spec, data, rng, deep, counts)
    ctx.support = {'oracle_checks': counts['checks'], 'failures': counts['failures'], 'deep': deep}


def replay(ctx, payload):
    inp = payload['input']
    counts = {'checks': 0, 'failures': 0}
    before = len(ctx.failing)
    if 'history' in inp:
        dts = inp.get('dtypes') or ['float64'] * len(inp['history'])
        examine_history(ctx, inp['spec'], [np.array(d, dtype=float).astype(t) for d, t in zip(inp['history'], dts)], inp['seeds'],
                        vc.rng_for(0, 'replay'), counts, True)
        return any(f['class'] == payload.get('class') for f in ctx.failing[before:])
    if inp.get('law') == 'const-final':
        examine_const_final(ctx, inp['spec'], [np.array(d, dtype=float) for d in inp['history']], inp['seeds'], counts)
        return any(f['class'] == payload.get('class') for f in ctx.failing[before:])
    if inp.get('law') == 'sparse':
        examine_sparse(ctx, inp['spec'], inp['n'], inp['layout'], inp['seed'], counts)
        return any(f['class'] == payload.get('class') for f in ctx.failing[before:])
    if inp.get('law') == 'composition':
        examine_composition(ctx, inp['spec'], np.array(inp['data'], dtype=float), inp['seed'], counts)
        return any(f['class'] == payload.get('class') for f in ctx.failing[before:])
    if inp.get('law') == 'shared':
        examine_shared(ctx, inp['candidates'], [np.array(d_, dtype=float) for d_ in inp['datasets']], inp['seeds'],
                       counts, inp.get('seeded_protos', False))
        return any(f['class'] == payload.get('class') for f in ctx.failing[before:])
    if inp.get('law') == 'dtypes':
        examine_dtypes(ctx, inp['spec'], np.array(inp['data'], dtype=float), inp['seed'], counts)
        return any(f['class'] == payload.get('class') for f in ctx.failing[before:])
    if inp.get('law') == 'states':
        examine_states(ctx, inp['spec'], np.array(inp['data'], dtype=float), inp['seed'], vc.rng_for(0, 'replay'), counts)
        return any(f['class'] == payload.get('class') for f in ctx.failing[before:])
    if inp.get('law') == 'lower-tail':
        examine_lower_tail(ctx, inp['spec'], np.array(inp['data'], dtype=float), counts)
        return any(f['class'] == payload.get('class') for f in ctx.failing[before:])
    if inp.get('law') == 'exact-hits':
        examine_exact_hits(ctx, inp['spec'], np.array(inp['data'], dtype=float), inp['seed'], counts)
        return any(f['class'] == payload.get('class') for f in ctx.failing[before:])
    if inp.get('law') == 'tails':
        examine_tails(ctx, inp['spec'], np.array(inp['data'], dtype=float), counts)
        return any(f['class'] == payload.get('class') for f in ctx.failing[before:])
    if 'batch' in inp:
        examine_batch(ctx, inp['spec'], np.array(inp['data'], dtype=float), inp['batch'], inp['seed'], counts)
        return any(f['class'] == payload.get('class') for f in ctx.failing[before:])
    spec, data = inp['spec'], np.array(inp['data'], dtype=float)
    for k in range(3):
        examine(ctx, spec, data, vc.rng_for(k, 'replay'), True, counts)
    return any(f['class'] == payload.get('class') for f in ctx.failing[before:])
