"""C04 — Marginal fitting recovers the generating law; KDE is the kernel estimate."""
import math
import random
import warnings

import numpy as np
from scipy import stats

import vcommon as vc

warnings.filterwarnings('ignore')

GEN_TARGETS = ('Estimators',)
DRIVER_MAIN = 'Main/Estimators.lean'
DRIVER_TARGETS = ['CopVerif.Driver.Estimators']
ALWAYS_SEARCH = True
RULE = ('tie: every generated estimator term evaluated at Float vs the real classes on samples of 2..400 points '
        '(normal/uniform/gamma/beta/student-t/lognormal/integer-ties/two-valued/near-constant, loc/scale over 7 decades, '
        'plus constant samples for the _fit_constant branches): Gaussian/Uniform params within 4*n ulp (numpy sums pairwise, '
        'the model folds left); scipy-MLE families: model._params must be bit-identical to the generated key->position map '
        'applied to <dist>.fit(X, **generated init values) called by the harness; TruncatedGaussian: self.min/max, the '
        'initial_params and bounds observed at fmin_slsqp (wrapped) and a,b recomputed from the optimiser\'s own result, for '
        'user bounds both/one/none; GaussianKDE: the call plan observed through a recording subclass of gaussian_kde vs the '
        'generated forwarding interpreted over symbols, and factor/covariance/neff/weights/density of the real _model vs the '
        'Lean kernel estimate on the STORED dataset for bw_method in None/scott/silverman/scalar x weights x sample_size. '
        'A case is distinct by (family, option tuple, data) and non-trivial when the sample is non-constant. '
        'search: exactness oracles on the real code + the C04 experiment (see SEARCH_RULE)')
SEARCH_RULE = ('DKW band eps_n = sqrt(ln(2/delta)/(2n)), delta = 1e-9.  Required: sup|F_fit - F_true| <= 2*eps_n (DKW + equal '
               'estimation-error allowance) and sup|F_fit - ECDF| <= 3*eps_n (triangle inequality); GaussianKDE (unweighted, '
               'no sample_size): sup|F_kde - F_true| <= eps_n + b and sup|F_kde - ECDF| <= 2*eps_n + b with the bandwidth '
               'allowance b = h*sqrt(2/pi)*sup f_true + 1e-5.  Every dataset for Gaussian/Uniform/TruncatedGaussian/KDE; '
               'for Beta/Gamma/StudentT/LogLaplace at least 80 % of the datasets of each (family, n) cell of N = 40 datasets, where a '
               'dataset passes iff sup|F_fit - F_true| <= eps\'_n and sup|F_fit - ECDF| <= 2*eps\'_n with the per-dataset band '
               'eps\'_n = sqrt(ln(2/1e-3)/(2n)) (the 1e-9 false-alarm level is enforced at the cell level): a cell is '
               'a violation iff the exact binomial tail P(Bin(N, 0.8) <= passes) <= 1e-9 (LogLaplace is split: loc = 0 under that '
               'rule; shifted data under the plain passes/N < 0.8 rule with its own class `…:shifted-data`; Beta has a second '
               'cell `beta@unit` whose generating support is a proper sub-interval of (0,1)); the generating '
               'parameters of a cell are a FIXED design (independent of VERIF_SEED), the samples depend on the seed.  '
               'Statistical part only in the thorough tier / when an obligation is broken; the quick tier runs the '
               'deterministic oracles (exact estimators, param maps, KDE density = kernel estimate - also after the caller '
               'overwrites the training array in place -, supports, 4 moderately U-shaped Beta samples (n = 5000, every dataset '
               'within 2 eps\'_n), sample-size sweep n in {1023, 1024, 1025, 2049, 4097, 5000} with extreme first / last rows (closed-form quantities '
               'exact at rtol 1e-12), large-offset data (|loc| up to 1.2e8, spread <= 1), FORM of the stored parameters (Python numbers / plain lists, JSON), '
               'several models alive at once, sample_size x bw_method x weights combinations (stored dataset bit-identical to the resample of the requested estimate '
               'under the same numpy global seed), object states (fresh / re-fitted / from_dict / clone give bit-identical parameters), configured candidate instances '
               'reached through Univariate / GaussianMultivariate keep their options, numeric forms of user bounds, '
               'TruncatedGaussian on large-scale (1e3) asymmetrically truncated data (n = 5000, every dataset within '
               '2 eps\'_n / 3 eps\'_n), TruncatedGaussian with '
               'user bounds equal to 0, fitted Beta support not wider than 3x the data range for data inside (0,1))')
PARTIAL = ['Props/C04b settles truncated_generating_law_feasible_partial: exact feasibility iff (a <= 0 <= b and 1 <= sigma (b-a)^2), sharpness of the partial hypothesis, and a counterexample showing the unrestricted clause is false for every support',
           'consistency_partial: the DKW-band closeness of the fitted CDF to the generating/empirical CDF is a statistical '
           'statement about the sample and scipy\'s optimisers (fmin for the MLE families, SLSQP for TruncatedGaussian); no Lean '
           'theorem, checked by the search experiment only',
           'kde_pdf_integrates is proved for the exact constant 1/sqrt(2 pi); the executable kernel uses a 20-digit decimal for it '
           '(the difference is below the 1e-10 tolerance of the numeric tie)',
           'bounded families "no mass outside the fitted support" for Beta/Uniform/truncnorm is a property of scipy.stats cdfs: '
           'proved only as the support arithmetic (uniform_support, truncated_support), cdf values checked in search']
ASSUMPTIONS = ['scipy.stats.<dist>.fit returns (shapes in <dist>.shapes order, loc, scale) and is deterministic '
               '(validated every run: shapes strings; harness-side re-call is bit-identical)',
               'numpy reductions mean/std/min/max on a 1-d float64 array mean the table in tools/gen_estimators.py '
               '(validated numerically every run)',
               'scipy.stats.gaussian_kde(dataset, bw_method, weights) means Model/KDE.lean for 1-d data and bw_method in '
               '{None, scott, silverman, scalar} (validated numerically every run); callable bw_method is not modelled',
               'X.tolist() / np.ravel are value-preserving']

EPS32 = float(np.finfo(np.float32).eps)
U = 2.0 ** -52
DELTA = 1e-9
DELTA_DATASET = 1e-3
MLE = {  # driver family name -> (class name, scipy.stats name, shape names)
    'beta': ('BetaUnivariate', 'beta', ['a', 'b']),
    'gamma': ('GammaUnivariate', 'gamma', ['a']),
    'studentT': ('StudentTUnivariate', 't', ['df']),
    'logLaplace': ('LogLaplace', 'loglaplace', ['c']),
}


def _cls(name):
    import copulas.univariate as cu
    return getattr(cu, name)


def hexs(xs):
    return ' '.join(vc.f2h(x) for x in xs)


def same(a, b):
    """bit-level equality of two floats, NaN == NaN"""
    a, b = float(a), float(b)
    return (a == b) or (a != a and b != b)


def close(a, b, rtol, atol=0.0):
    a, b = float(a), float(b)
    if a != a or b != b:
        return (a != a) and (b != b)
    if math.isinf(a) or math.isinf(b):
        return a == b
    return abs(a - b) <= atol + rtol * max(abs(a), abs(b))


# ============================================================================== sample generators
def lognu(rng, lo, hi):
    return math.exp(rng.uniform(math.log(lo), math.log(hi)))


def tie_sample(rng, nprng, nmax=400):
    """-> (kind, 1-d float64 array), non-constant"""
    n = rng.choice([2, 3, 5, 8, 17, 50, 120, nmax])
    scale = lognu(rng, 1e-3, 1e3)
    loc = rng.choice([0.0, rng.uniform(-1, 1) * scale * rng.choice([1, 10, 1000])])
    kind = rng.choice(['normal', 'uniform', 'gamma', 'beta', 't', 'lognormal', 'ints', 'twovalued', 'nearconst'])
    if kind == 'normal':
        x = nprng.normal(size=n)
    elif kind == 'uniform':
        x = nprng.uniform(-1, 1, size=n)
    elif kind == 'gamma':
        x = nprng.gamma(lognu(rng, 0.5, 10), size=n)
    elif kind == 'beta':
        x = nprng.beta(lognu(rng, 0.5, 5), lognu(rng, 0.5, 5), size=n)
    elif kind == 't':
        x = nprng.standard_t(lognu(rng, 2, 20), size=n)
    elif kind == 'lognormal':
        x = nprng.lognormal(size=n)
    elif kind == 'ints':
        x = nprng.randint(-3, 9, size=n).astype(float)
    elif kind == 'twovalued':
        x = nprng.choice([0.25, 1.75], size=n)
    else:
        x = 1.0 + 1e-9 * nprng.normal(size=n)
    x = loc + scale * np.asarray(x, dtype=float)
    if len(np.unique(x)) == 1:
        x[0] = x[0] + scale
    return kind, x


def const_sample(rng):
    n = rng.choice([1, 2, 7, 40])
    c = rng.choice([0.0, 1.0, -2.5, rng.uniform(-1e3, 1e3), lognu(rng, 1e-6, 1e6)])
    return np.full(n, float(c))


# ============================================================================== tie
def run(ctx, lean):
    names = ['tv:gaussian.fit', 'tv:uniform.fit', 'tv:closed.fit_constant', 'corr:mle.param_map', 'corr:mle.fit_constant',
             'corr:truncated.setup', 'corr:truncated.params', 'corr:truncated.fit_constant', 'corr:kde.plan',
             'tv:kde.model', 'tv:kde.density', 'corr:kde.fit_constant']
    if lean is None:
        for nm in names:
            ctx.ob(nm, False, 'tie', 'driver unavailable')
        return
    tie_closed(ctx, lean)
    tie_mle(ctx, lean)
    tie_truncated(ctx, lean)
    tie_kde(ctx, lean)
    bad = None
    for fam, (_, dist, shapes) in MLE.items():
        got = [s.strip() for s in (getattr(stats, dist).shapes or '').split(',') if s.strip()]
        if got != shapes and bad is None:
            bad = f'scipy.stats.{dist}.shapes = {got}, the theorem mle_param_map assumes {shapes}'
    ctx.ob('assume:scipy.fit-tuple-order', bad is None, 'assumption', bad or 'shapes strings as assumed')


def tie_closed(ctx, lean):
    from copulas.univariate import GaussianUnivariate, UniformUnivariate
    rng, nprng = ctx.rng('closed'), ctx.nprng('closed')
    bad = {'gaussian': None, 'uniform': None, 'const': None}
    stats_ = {'gaussian': [0, 0], 'uniform': [0, 0]}
    for _ in range(60 * ctx.scale):
        kind, X = tie_sample(rng, nprng)
        n = len(X)
        absmean = float(np.mean(np.abs(X)))
        for fam, cls in (('gaussian', GaussianUnivariate), ('uniform', UniformUnivariate)):
            m = cls()
            m.fit(X)
            r = lean.floats(f'est closed {fam} fit {hexs(X)}')
            ctx.case((fam, kind, n, float(X[0]), float(X[-1])))
            ctx.count(f'{fam}.fit.{kind}')
            if r[0] != 'ok' or len(r[1]) != 2 or sorted(m._params) != ['loc', 'scale']:
                bad[fam] = bad[fam] or {'X': X[:6].tolist(), 'n': n, 'model': r, 'real': vc.jsonable(m._params)}
                continue
            loc, scale = float(m._params['loc']), float(m._params['scale'])
            # numpy sums pairwise, the model folds left: |delta| <= 4 ulp * n relative to the summed magnitudes
            tol_loc = 4 * n * U * absmean
            tol_scale = 4 * n * U * abs(scale) + 4 * U * absmean
            stats_[fam][0] += 2
            stats_[fam][1] += (loc == r[1][0]) + (scale == r[1][1])
            if not (abs(loc - r[1][0]) <= tol_loc and abs(scale - r[1][1]) <= tol_scale):
                bad[fam] = bad[fam] or {'X': X[:6].tolist(), 'n': n, 'kind': kind, 'real': [loc, scale], 'model': r[1],
                                        'tol': [tol_loc, tol_scale]}
        ctx.sample({'op': 'closed.fit', 'kind': kind, 'n': n, 'head': X[:3].tolist()}, cap=2)
    for _ in range(6 * ctx.scale):
        X = const_sample(rng)
        for fam, cls in (('gaussian', GaussianUnivariate), ('uniform', UniformUnivariate)):
            m = cls()
            m.fit(X)
            r = lean.floats(f'est closed {fam} const {hexs(X)}')
            ctx.case((fam, 'const', len(X), float(X[0])), nontrivial=False)
            ctx.count(f'{fam}.fit_constant')
            ok = r[0] == 'ok' and sorted(m._params) == ['loc', 'scale'] and same(m._params['loc'], r[1][0]) \
                and same(m._params['scale'], r[1][1])
            if not ok:
                bad['const'] = bad['const'] or {'family': fam, 'X': X[:3].tolist(), 'real': vc.jsonable(m._params), 'model': r}
    for fam in ('gaussian', 'uniform'):
        ctx.ob(f'tv:{fam}.fit', bad[fam] is None, 'tie', bad[fam] or f'{stats_[fam][0]} values, {stats_[fam][1]} bit-identical')
    ctx.ob('tv:closed.fit_constant', bad['const'] is None, 'tie', bad['const'] or 'ok')


def parse_kv(words):
    out = {}
    for w in words:
        k, _, v = w.partition(':')
        out[k] = v
    return out


def lean_mle_map(lean, fam):
    ws = lean.ask(f'est mle {fam} map').split()
    if not ws or ws[0] != 'ok':
        return None
    head = dict(w.split('=', 1) for w in ws[1:4])
    return {'dist': head.get('dist'), 'model': head.get('model'), 'arity': int(head.get('arity', -1)),
            'map': {k: int(v) for k, v in parse_kv(ws[4:]).items()}}


def lean_mle_init(lean, fam, X):
    ws = lean.ask(f'est mle {fam} init {hexs(X)}').split()
    if len(ws) != 3 or ws[0] != 'ok':
        return None
    kw = {}
    for k, w in zip(('loc', 'scale'), ws[1:]):
        if w != 'none':
            kw[k] = vc.h2f(w)
    return kw


def params_equal(real, expect):
    if sorted(real) != sorted(expect):
        return False
    return all(same(real[k], expect[k]) for k in real)


def tie_mle(ctx, lean):
    rng, nprng = ctx.rng('mle'), ctx.nprng('mle')
    bad = bad_c = None
    for fam, (clsname, dist, shapes) in MLE.items():
        mp = lean_mle_map(lean, fam)
        if mp is None:
            bad = bad or {'family': fam, 'model': 'driver refused `map`'}
            continue
        d = getattr(stats, mp['dist'], None)
        for _ in range(2 * ctx.scale + 1):
            n = rng.choice([30, 80, 200])
            loc, scale = rng.uniform(-50, 50), lognu(rng, 0.05, 50)
            if fam == 'beta':
                X = loc + scale * nprng.beta(lognu(rng, 0.7, 6), lognu(rng, 0.7, 6), size=n)
            elif fam == 'gamma':
                X = loc + scale * nprng.gamma(lognu(rng, 0.7, 10), size=n)
            elif fam == 'studentT':
                X = loc + scale * nprng.standard_t(lognu(rng, 2.5, 20), size=n)
            else:
                X = stats.loglaplace.rvs(lognu(rng, 1.5, 6), loc=rng.uniform(-2, 2), scale=lognu(rng, 0.3, 3), size=n,
                                         random_state=nprng)
            X = np.asarray(X, dtype=float)
            m = _cls(clsname)()
            try:
                m.fit(X)
                real = ('ok', dict(m._params))
            except Exception as e:  # noqa
                real = ('err', vc.exc_kind(e))
            kw = lean_mle_init(lean, fam, X)
            try:
                tup = d.fit(X, **kw)
                model = ('ok', {k: tup[p] for k, p in mp['map'].items()}) if len(tup) == mp['arity'] \
                    else ('bad', f'fit returned {len(tup)} values, the code unpacks {mp["arity"]}')
            except Exception as e:  # noqa
                model = ('err', vc.exc_kind(e))
            ctx.case((fam, 'fit', n, float(X[0])))
            ctx.count(f'{fam}.fit.{real[0]}')
            ok = real[0] == model[0] and (params_equal(real[1], model[1]) if real[0] == 'ok' else real[1] == model[1])
            if not ok:
                bad = bad or {'family': fam, 'X': X[:5].tolist(), 'n': n, 'init': kw, 'real': vc.jsonable(real),
                              'model': vc.jsonable(model), 'map': mp}
            ctx.sample({'op': f'{fam}.fit', 'n': n, 'init': kw, 'params': vc.jsonable(real[1])}, cap=4)
        # constant branch
        for _ in range(2):
            X = const_sample(rng)
            m = _cls(clsname)()
            m.fit(X)
            ws = lean.ask(f'est mle {fam} const {hexs(X)}').split()
            ctx.case((fam, 'const', len(X), float(X[0])), nontrivial=False)
            ctx.count(f'{fam}.fit_constant')
            ok = len(ws) >= 2 and ws[0] == 'ok'
            if ok:
                over = {k: vc.h2f(v) for k, v in parse_kv(ws[2:]).items()}
                if ws[1] == 'callsfit=true':
                    tup = d.fit(X, **lean_mle_init(lean, fam, X))
                    expect = {k: tup[p] for k, p in mp['map'].items()}
                    expect.update(over)
                else:
                    expect = over
                ok = params_equal(m._params, expect)
            if not ok:
                bad_c = bad_c or {'family': fam, 'X': X[:3].tolist(), 'real': vc.jsonable(m._params), 'model': ' '.join(ws)[:200]}
    ctx.ob('corr:mle.param_map', bad is None, 'tie', bad or 'ok')
    ctx.ob('corr:mle.fit_constant', bad_c is None, 'tie', bad_c or 'ok')


class SlsqpRecorder:
    def __init__(self, mod):
        self.mod, self.real, self.calls = mod, mod.fmin_slsqp, []

    def __enter__(self):
        def wrapped(func, x0, *a, **k):
            out = self.real(func, x0, *a, **k)
            self.calls.append({'x0': [float(v) for v in x0], 'bounds': [(float(lo), float(hi)) for lo, hi in k.get('bounds', [])],
                               'optimal': [float(v) for v in out]})
            return out
        self.mod.fmin_slsqp = wrapped
        return self

    def __exit__(self, *a):
        self.mod.fmin_slsqp = self.real


def trunc_data(rng, nprng, n):
    scale = lognu(rng, 0.3, 300)
    loc = rng.uniform(-100, 100)
    a = rng.uniform(-2.5, 0.5)
    b = a + rng.uniform(0.8, 4.0)
    X = stats.truncnorm.rvs(a, b, loc=loc, scale=scale, size=n, random_state=nprng)
    return np.asarray(X, dtype=float), loc + a * scale, loc + b * scale


def tie_truncated(ctx, lean):
    import copulas.univariate.truncated_gaussian as tg
    rng, nprng = ctx.rng('trunc'), ctx.nprng('trunc')
    bad_s = bad_p = bad_c = None
    for i in range(12 * ctx.scale):
        n = rng.choice([5, 20, 60, 150])
        X, lo, hi = trunc_data(rng, nprng, n)
        mode = ['both', 'min', 'max', 'none', 'zero-min', 'zero-max'][i % 6]
        if mode.startswith('zero'):          # a user bound that is exactly 0 (falsy in Python)
            X = X - (lo if mode == 'zero-min' else hi)
            lo, hi = (0.0, hi - lo) if mode == 'zero-min' else (lo - hi, 0.0)
            X = X[(X > lo) & (X < hi)]
            n = len(X)
        umin = lo if mode in ('both', 'min', 'zero-min', 'zero-max') else None
        umax = hi if mode in ('both', 'max', 'zero-min', 'zero-max') else None
        m = tg.TruncatedGaussian(minimum=umin, maximum=umax)
        with SlsqpRecorder(tg) as rec:
            m.fit(X)
        ctx.case(('trunc', mode, n, float(X[0])))
        ctx.count(f'truncated.bounds={mode}')
        r = lean.floats(f'est trunc setup {vc.f2h(umin) if umin is not None else "none"} '
                        f'{vc.f2h(umax) if umax is not None else "none"} {hexs(X)}')
        if len(rec.calls) != 1 or r[0] != 'ok' or len(r[1]) != 8:
            bad_s = bad_s or {'mode': mode, 'calls': len(rec.calls), 'model': r}
            continue
        call = rec.calls[0]
        mn, mx, l0, s0, b0lo, b0hi, b1lo, b1hi = r[1]
        absmean = float(np.mean(np.abs(X)))
        ok = same(m.min, mn) and same(m.max, mx) \
            and abs(call['x0'][0] - l0) <= 4 * n * U * absmean \
            and abs(call['x0'][1] - s0) <= 4 * n * U * abs(s0) + 4 * U * absmean \
            and len(call['bounds']) == 2 and same(call['bounds'][0][0], b0lo) and same(call['bounds'][0][1], b0hi) \
            and same(call['bounds'][1][0], b1lo) and close(call['bounds'][1][1], b1hi, 4 * U)
        if not ok:
            bad_s = bad_s or {'mode': mode, 'X': X[:4].tolist(), 'n': n, 'user': [umin, umax], 'real': {'min': float(m.min),
                              'max': float(m.max), 'x0': call['x0'], 'bounds': call['bounds']}, 'model': r[1]}
        loc, scale = call['optimal']
        p = lean.floats(f'est trunc params {vc.f2h(m.min)} {vc.f2h(m.max)} {vc.f2h(loc)} {vc.f2h(scale)}')
        okp = p[0] == 'ok' and len(p[1]) == 8 and sorted(m._params) == ['a', 'b', 'loc', 'scale'] \
            and all(close(m._params[k], v, 4 * U) for k, v in zip(('a', 'b', 'loc', 'scale'), p[1][:4])) \
            and all(same(x, y) for x, y in zip(p[1][:4], p[1][4:]))
        if not okp:
            bad_p = bad_p or {'min': float(m.min), 'max': float(m.max), 'optimal': [loc, scale], 'real': vc.jsonable(m._params),
                              'model': p}
        ctx.sample({'op': 'truncated.fit', 'mode': mode, 'n': n, 'params': vc.jsonable(m._params)}, cap=5)
    for _ in range(3):
        X = const_sample(rng)
        m = tg.TruncatedGaussian()
        m.fit(X)
        r = lean.floats(f'est trunc const {hexs(X)}')
        ctx.case(('trunc', 'const', len(X), float(X[0])), nontrivial=False)
        ok = r[0] == 'ok' and sorted(m._params) == ['a', 'b', 'loc', 'scale'] and \
            all(same(m._params[k], v) for k, v in zip(('a', 'b', 'loc', 'scale'), r[1]))
        if not ok:
            bad_c = bad_c or {'X': X[:3].tolist(), 'real': vc.jsonable(m._params), 'model': r}
    ctx.ob('corr:truncated.setup', bad_s is None, 'tie', bad_s or 'ok')
    ctx.ob('corr:truncated.params', bad_p is None, 'tie', bad_p or 'ok')
    ctx.ob('corr:truncated.fit_constant', bad_c is None, 'tie', bad_c or 'ok')


class KdeRecorder:
    """Replaces the module global `gaussian_kde` of copulas.univariate.gaussian_kde by a recording subclass; the
    call plan is rendered over the same symbols as the Lean driver's `kde plan`."""

    def __init__(self, mod, X, bw, w):
        self.mod, self.real = mod, mod.gaussian_kde
        self.X, self.bw, self.w = np.asarray(X, dtype=float), bw, w
        self.resamples = []     # (values, term)
        self.models = []        # (instance, term)

    def data_term(self, dataset):
        d = np.asarray(dataset, dtype=float)
        for vals, term in self.resamples:
            if d.size == vals.size and np.array_equal(np.ravel(d), np.ravel(vals)):
                return term
        if d.size == self.X.size and np.array_equal(np.ravel(d), self.X):
            return 'X'
        return '?data'

    def arg_term(self, v, mine, sym):
        if v is None:
            return 'None'
        if v is mine or (isinstance(mine, (str, float, int)) and isinstance(v, type(mine)) and v == mine):
            return sym
        return '?' + sym

    def __enter__(self):
        rec = self

        class RecKDE(self.real):
            def __init__(k, dataset, bw_method=None, weights=None):
                k._term = f'gk({rec.data_term(dataset)},{rec.arg_term(bw_method, rec.bw, "BW")},' \
                          f'{rec.arg_term(weights, rec.w, "W")})'
                super().__init__(dataset, bw_method=bw_method, weights=weights)
                rec.models.append((k, k._term))

            def resample(k, size=None, seed=None):
                out = super().resample(size=size, seed=seed)
                rec.resamples.append((np.array(out, dtype=float), f'resample({k._term},{size})'))
                return out
        self.mod.gaussian_kde = RecKDE
        return self

    def __exit__(self, *a):
        self.mod.gaussian_kde = self.real


def kde_eval_points(rng, ds, h):
    pts = []
    for _ in range(6):
        pts.append(float(rng.choice(list(ds))) + rng.uniform(-4, 4) * h)
    pts.append(float(np.min(ds)) - rng.uniform(0, 5) * h)
    pts.append(float(np.max(ds)) + rng.uniform(0, 5) * h)
    return pts


def bw_words(bw):
    if bw is None:
        return 'none', 0.0
    if isinstance(bw, str):
        return bw, 0.0
    return 'scalar', float(bw)


def tie_kde(ctx, lean):
    import copulas.univariate.gaussian_kde as gk
    rng, nprng = ctx.rng('kde'), ctx.nprng('kde')
    bad_plan = bad_model = bad_pdf = bad_c = None
    nvals = 0
    # --- call plan (non-None bw_method and weights so that a dropped argument is visible)
    for ss in (None, 0, 'n'):
        n = rng.choice([12, 40])
        X = nprng.normal(rng.uniform(-5, 5), lognu(rng, 0.1, 10), size=n)
        w = nprng.uniform(0.2, 1.0, size=n)
        bw = rng.choice(['silverman', 0.37])
        size = n if ss == 'n' else ss
        m = gk.GaussianKDE(sample_size=size, bw_method=bw, weights=w)
        with KdeRecorder(gk, X, bw, w) as rec:
            m.fit(X)
        real_ds = rec.data_term(m._params['dataset'])
        real_model = next((t for k, t in rec.models if k is m._model), '?model')
        ws = lean.ask(f'est kde plan {"none" if size is None else size}').split()
        plan = dict(w_.split('=', 1) for w_ in ws[1:]) if ws and ws[0] == 'ok' else {}
        ctx.case(('kde-plan', str(ss)))
        ctx.count(f'kde.plan.sample_size={ss}')
        with KdeRecorder(gk, X, bw, w) as rec2:        # _set_params path goes through _get_model only
            m2 = gk.GaussianKDE(bw_method=bw, weights=w)
            m2._set_params({'dataset': list(X)})
        real_get = next((t for k, t in rec2.models if k is m2._model), '?model').replace('gk(X,', 'gk(DATASET,')
        if plan.get('dataset') != real_ds or plan.get('model') != real_model or plan.get('getmodel') != real_get:
            bad_plan = bad_plan or {'sample_size': size, 'real': {'dataset': real_ds, 'model': real_model, 'getmodel': real_get},
                                    'model': plan}
        ctx.sample({'op': 'kde.plan', 'sample_size': size, 'plan': plan}, cap=6)
    # --- numbers
    for i in range(24 * ctx.scale):
        n = rng.choice([8, 30, 100, 250])
        scale = lognu(rng, 1e-2, 1e2)
        loc = rng.uniform(-30, 30) * scale
        X = loc + scale * (nprng.normal(size=n) if rng.random() < 0.6 else nprng.gamma(2.0, size=n))
        bw = [None, 'scott', 'silverman', round(rng.uniform(0.1, 1.0), 3)][i % 4]
        weighted = rng.random() < 0.5
        w = nprng.uniform(0.05, 1.0, size=n) if weighted else None
        ss = rng.choice([None, None, n if weighted else rng.choice([5, 17, n, 2 * n])])
        m = gk.GaussianKDE(sample_size=ss, bw_method=bw, weights=w)
        m.fit(X)
        x0 = float(X[0])
        if i % 2:            # history: the caller reuses its buffer in place after the fit; the model must not notice
            X *= 0.5
            X += scale
            ctx.count('kde.history.caller-overwrites-training-array')
        ds = np.ravel(np.asarray(m._params['dataset'], dtype=float))
        ctx.case(('kde', str(bw), weighted, ss, n, x0))
        ctx.count(f'kde.bw={bw if bw is None or isinstance(bw, str) else "scalar"}.w={weighted}.ss={"set" if ss else "none"}')
        if len(ds) != (ss or n):
            bad_model = bad_model or {'bw': bw, 'weighted': weighted, 'sample_size': ss, 'n': n, 'stored': len(ds)}
            continue
        k = m._model
        h = math.sqrt(float(k.covariance[0, 0]))
        pts = kde_eval_points(rng, ds, h)
        kind, bwv = bw_words(bw)
        r = lean.floats(f'est kde model {kind} {vc.f2h(bwv)} {len(ds)} {len(ds) if weighted else 0} {len(pts)} '
                        f'{hexs(ds)} {hexs(w) if weighted else ""} {hexs(pts)}')
        if r[0] != 'ok' or len(r[1]) != 4 + len(ds) + len(pts):
            bad_model = bad_model or {'bw': bw, 'weighted': weighted, 'sample_size': ss, 'model': str(r)[:200]}
            continue
        factor, cov, neff, _h = r[1][:4]
        wl = r[1][4:4 + len(ds)]
        pl = r[1][4 + len(ds):]
        okm = close(k.factor, factor, 1e-10) and close(k.covariance[0, 0], cov, 1e-10) and close(k.neff, neff, 1e-10) \
            and all(close(a, b, 1e-10) for a, b in zip(np.ravel(k.weights), wl))
        if not okm:
            bad_model = bad_model or {'bw': bw, 'weighted': weighted, 'sample_size': ss, 'n': n,
                                      'real': [float(k.factor), float(k.covariance[0, 0]), float(k.neff)],
                                      'model': [factor, cov, neff]}
        real_pdf = np.asarray(m.probability_density(np.array(pts)), dtype=float)
        nvals += len(pts)
        for x, a, b in zip(pts, real_pdf, pl):
            if not close(a, b, 1e-10, 1e-290):
                bad_pdf = bad_pdf or {'bw': bw, 'weighted': weighted, 'sample_size': ss, 'n': n, 'x': x, 'real': float(a), 'model': b}
        ctx.sample({'op': 'kde.fit', 'bw': bw, 'weighted': weighted, 'sample_size': ss, 'n': n, 'factor': float(k.factor)}, cap=8)
    for ss in (None, 0, 5):
        X = const_sample(rng)
        m = gk.GaussianKDE(sample_size=ss)
        m.fit(X)
        r = lean.floats(f'est kde const {"none" if ss is None else ss} {hexs(X)}')
        ctx.case(('kde', 'const', ss, len(X)), nontrivial=False)
        real = list(m._params['dataset'])
        if not (r[0] == 'ok' and len(real) == len(r[1]) and all(same(a, b) for a, b in zip(real, r[1]))):
            bad_c = bad_c or {'sample_size': ss, 'n': len(X), 'real': real[:4], 'model': str(r)[:120]}
    ctx.ob('corr:kde.plan', bad_plan is None, 'tie', bad_plan or 'ok')
    ctx.ob('tv:kde.model', bad_model is None, 'tie', bad_model or 'ok')
    ctx.ob('tv:kde.density', bad_pdf is None, 'tie', bad_pdf or f'{nvals} densities within 1e-10')
    ctx.ob('corr:kde.fit_constant', bad_c is None, 'tie', bad_c or 'ok')


# ============================================================================== search: oracle on the real code
def band(n):
    return math.sqrt(math.log(2.0 / DELTA) / (2.0 * n))


def band_d(n):
    return math.sqrt(math.log(2.0 / DELTA_DATASET) / (2.0 * n))


def sup_dists(cdf_fit, dist, X, max_pts=None, rs=None):
    """(sup|F_fit - F_true|, sup|F_fit - ECDF|) over the sample points (+ a quantile grid for the first)."""
    xs = np.sort(np.asarray(X, dtype=float))
    n = len(xs)
    idx = np.arange(n)
    if max_pts is not None and n > max_pts:
        idx = np.unique(np.concatenate([[0, n - 1], rs.choice(n, size=max_pts, replace=False)]))
    pts = xs[idx]
    with np.errstate(all='ignore'):
        F = np.asarray(cdf_fit(pts), dtype=float)
        d_emp = max(np.max(np.abs(F - (idx + 1) / n)), np.max(np.abs(F - idx / n)))
        grid = np.asarray(dist.ppf(np.linspace(0.002, 0.998, 167)), dtype=float)
        grid = grid[np.isfinite(grid)]
        G = np.asarray(cdf_fit(grid), dtype=float)
        d_true = max(np.max(np.abs(F - dist.cdf(pts))), np.max(np.abs(G - dist.cdf(grid))) if len(grid) else 0.0)
    d_emp, d_true = float(d_emp), float(d_true)
    return (d_true if d_true == d_true else float('inf')), (d_emp if d_emp == d_emp else float('inf'))


def fixed_design(family, k):
    """generating parameters of the experiment: a fixed design, independent of VERIF_SEED"""
    r = random.Random(f'C04-design/{family}')
    out = []
    for _ in range(k):
        p = {'loc': r.uniform(-100, 100), 'scale': lognu(r, 1e-2, 1e2)}
        if family == 'beta':
            p['shapes'] = [lognu(r, 0.5, 10), lognu(r, 0.5, 10)]
        elif family == 'gamma':
            p['shapes'] = [lognu(r, 0.5, 20)]
        elif family == 'studentT':
            p['shapes'] = [lognu(r, 2, 30)]
        elif family == 'logLaplace':
            p['shapes'] = [lognu(r, 1, 8)]
        elif family == 'beta@unit':            # support a proper sub-interval of (0, 1)
            loc = r.uniform(0.05, 0.6)
            p.update(loc=loc, scale=r.uniform(0.05, min(0.35, 0.95 - loc)), shapes=[lognu(r, 0.5, 10), lognu(r, 0.5, 10)])
        elif family == 'beta@unit-moderate':   # same, bell-shaped members only (quick support-width oracle)
            p.update(loc=r.uniform(0.05, 0.6), scale=r.uniform(0.05, 0.2), shapes=[lognu(r, 1.5, 4), lognu(r, 1.5, 4)])
        elif family == 'beta@U-shaped':        # a, b < 1, support starting at 0 (scipy's default start fails here)
            p.update(loc=0.0, scale=r.choice([1.0, 1.0, 0.1, 25.0]), shapes=[r.uniform(0.2, 0.9), r.uniform(0.2, 0.9)])
        elif family == 'logLaplace@origin':
            p.update(loc=0.0, scale=lognu(r, 0.1, 10), shapes=[lognu(r, 1, 8)])
        elif family == 'gaussian':
            p.update(loc=r.uniform(-1000, 1000), scale=lognu(r, 1e-3, 1e3), shapes=[])
        elif family == 'uniform':
            p.update(loc=r.uniform(-1000, 1000), scale=lognu(r, 1e-3, 1e3), shapes=[])
        elif family == 'truncated':
            a = r.uniform(-2.5, 0.5)
            p['shapes'] = [a, a + r.uniform(0.8, 4.0)]
            p['user_bounds'] = r.choice(['both', 'both', 'none', 'min'])
        out.append(p)
    return out


SCIPY_OF = {'beta': 'beta', 'beta@U-shaped': 'beta', 'beta@U-quick': 'beta', 'beta@unit': 'beta', 'beta@unit-moderate': 'beta', 'gamma': 'gamma', 'studentT': 't', 'logLaplace': 'loglaplace', 'logLaplace@origin': 'loglaplace',
            'gaussian': 'norm', 'uniform': 'uniform', 'truncated': 'truncnorm'}
CLASS_OF = {'beta': 'BetaUnivariate', 'beta@U-shaped': 'BetaUnivariate', 'beta@U-quick': 'BetaUnivariate',
            'beta@unit': 'BetaUnivariate', 'beta@unit-moderate': 'BetaUnivariate', 'gamma': 'GammaUnivariate', 'studentT': 'StudentTUnivariate', 'logLaplace': 'LogLaplace',
            'logLaplace@origin': 'LogLaplace', 'gaussian': 'GaussianUnivariate', 'uniform': 'UniformUnivariate',
            'truncated': 'TruncatedGaussian'}


def true_dist(family, p):
    return getattr(stats, SCIPY_OF[family])(*p['shapes'], loc=p['loc'], scale=p['scale'])


def draw(seed, family, idx, n, p):
    rs = vc.np_rng(seed, 'C04', 'dkw', family, idx, n)
    return np.asarray(true_dist(family, p).rvs(n, random_state=rs), dtype=float)


def fit_one(family, p, X):
    """-> (model, ctor kwargs)"""
    kw = {}
    if family == 'truncated':
        lo = p['loc'] + p['shapes'][0] * p['scale']
        hi = p['loc'] + p['shapes'][1] * p['scale']
        if p['user_bounds'] in ('both', 'min'):
            kw['minimum'] = lo
        if p['user_bounds'] == 'both':
            kw['maximum'] = hi
    m = _cls(CLASS_OF[family])(**kw)
    m.fit(X)
    return m, kw


def support_check(family, p, m, kw, X):
    """bounded families: no mass outside the fitted support -> None or (what, observed)"""
    with np.errstate(all='ignore'):
        if family.startswith('beta') or family == 'uniform':
            loc, scale = float(m._params['loc']), float(m._params['scale'])
            d = 1e-9 * max(abs(scale), abs(loc) * 1e-3, 1e-300)
            lo, hi = m.cumulative_distribution(np.array([loc - d, loc + scale + d]))
            if not (lo == 0.0 and hi == 1.0):
                return 'mass-outside-support', {'loc': loc, 'scale': scale, 'cdf(loc-d)': float(lo), 'cdf(loc+scale+d)': float(hi)}
            if family == 'uniform' and not (loc <= X.min() and X.max() <= loc + scale * (1 + 4 * U)):
                return 'training-point-outside-support', {'loc': loc, 'scale': scale, 'min': float(X.min()), 'max': float(X.max())}
        if family == 'truncated':
            lo = kw.get('minimum', float(X.min()) - EPS32)
            hi = kw.get('maximum', float(X.max()) + EPS32)
            c = m.cumulative_distribution(np.array([lo, hi]))
            pr = m._params
            tol = 1e-9 * max(abs(lo), abs(hi), hi - lo)
            if not (same(m.min, lo) and same(m.max, hi)):
                return 'bounds-not-honoured', {'expected': [lo, hi], 'self.min/max': [float(m.min), float(m.max)]}
            if not (abs(c[0]) <= 1e-12 and abs(c[1] - 1) <= 1e-12):
                return 'mass-outside-bounds', {'bounds': [lo, hi], 'cdf': [float(c[0]), float(c[1])]}
            if not (abs(pr['loc'] + pr['a'] * pr['scale'] - lo) <= tol and abs(pr['loc'] + pr['b'] * pr['scale'] - hi) <= tol):
                return 'support-not-bounds', {'bounds': [lo, hi], 'params': vc.jsonable(pr)}
            if not (lo <= X.min() and X.max() <= hi):
                return 'sample-outside-bounds', {'bounds': [lo, hi]}
    return None


def dkw_eval(family, p, X, rule='every'):
    """fit the real class and evaluate the property on one dataset -> dict.  rule 'every': the dataset itself must pass at
    false-alarm level DELTA (2x / 3x band); rule 'cell': per-dataset band at DELTA_DATASET (1x / 2x), the cell decides."""
    n = len(X)
    try:
        m, kw = fit_one(family, p, X)
        d_true, d_emp = sup_dists(m.cumulative_distribution, true_dist(family, p), X)
        sup = support_check(family, p, m, kw, X)
        params = vc.jsonable(m._params)
    except Exception as e:  # noqa
        return {'ok': False, 'exc': f'{type(e).__name__}: {e}'[:160], 'support': None, 'params': None, 'ctor': {}}
    e = band(n) if rule == 'every' else band_d(n)
    ok = (d_true <= 2 * e and d_emp <= 3 * e) if rule == 'every' else (d_true <= e and d_emp <= 2 * e)
    return {'ok': ok, 'd_true': d_true, 'd_emp': d_emp, 'band': e, 'support': sup,
            'params': params, 'ctor': kw, 'model': m}


def closed_oracle_one(ctx, X):
    from copulas.univariate import GaussianUnivariate, UniformUnivariate
    n = len(X)
    mean = math.fsum(X) / n
    std = math.sqrt(math.fsum((x - mean) ** 2 for x in X) / n)
    absmean = math.fsum(abs(x) for x in X) / n
    m = GaussianUnivariate()
    m.fit(X)
    inp = {'X': X.tolist()}
    if not abs(float(m._params['loc']) - mean) <= 4 * n * U * absmean:
        ctx.fail_input('GaussianUnivariate.fit', inp, {'loc': float(m._params['loc'])}, f'loc = sample mean = {mean!r}',
                       'GaussianUnivariate.fit:loc-not-sample-mean')
    if not abs(float(m._params['scale']) - std) <= 4 * n * U * std + 4 * U * absmean:
        ctx.fail_input('GaussianUnivariate.fit', inp, {'scale': float(m._params['scale'])},
                       f'scale = population standard deviation = {std!r}', 'GaussianUnivariate.fit:scale-not-population-std')
    m = UniformUnivariate()
    m.fit(X)
    lo, hi = min(X.tolist()), max(X.tolist())
    if not (float(m._params['loc']) == lo and float(m._params['scale']) == hi - lo):
        ctx.fail_input('UniformUnivariate.fit', inp, vc.jsonable(m._params), f'loc = min = {lo!r}, scale = max - min = {hi - lo!r}',
                       'UniformUnivariate.fit:not-min-and-range')
    return 3


def exact_oracles(ctx, deep, seed):
    """closed-form estimators / param maps / KDE density are EXACT: independent recomputation in Python."""
    rng, nprng = vc.rng_for(seed, 'C04', 'exact'), vc.np_rng(seed, 'C04', 'exact')
    checked = 0
    for _ in range(12 * (5 if deep else 1)):
        kind, X = tie_sample(rng, nprng, 300)
        checked += closed_oracle_one(ctx, X)
    checked += mle_map_oracle(ctx, rng, nprng, deep)
    checked += kde_oracle(ctx, rng, nprng, deep)
    return checked


class FitProxy:
    """stands in for the module-global scipy distribution of a family module; records what `.fit` returned."""

    def __init__(self, real):
        self._real, self.returned = real, []

    def fit(self, *a, **k):
        out = self._real.fit(*a, **k)
        self.returned.append(tuple(out))
        return out

    def __getattr__(self, name):
        return getattr(self._real, name)


def mle_map_oracle(ctx, rng, nprng, deep):
    import importlib
    mods = {'beta': 'beta', 'gamma': 'gamma', 'studentT': 'student_t', 'logLaplace': 'log_laplace'}
    checked = 0
    for fam, (clsname, dist, shapes) in MLE.items():
        mod = importlib.import_module(f'copulas.univariate.{mods[fam]}')
        real = getattr(mod, dist, None)
        if real is None:
            continue
        for _ in range(3 if deep else 1):
            n = rng.choice([40, 120])
            X = np.asarray(getattr(stats, dist).rvs(*[lognu(rng, 1.5, 5) for _ in shapes], loc=rng.uniform(-3, 3),
                                                    scale=lognu(rng, 0.3, 3), size=n, random_state=nprng), dtype=float)
            proxy = FitProxy(real)
            setattr(mod, dist, proxy)
            try:
                m = _cls(clsname)()
                m.fit(X)
            except Exception:  # noqa
                continue
            finally:
                setattr(mod, dist, real)
            checked += 1
            names = shapes + ['loc', 'scale']
            ok = len(proxy.returned) == 1 and len(proxy.returned[0]) == len(names) and \
                params_equal(m._params, dict(zip(names, proxy.returned[0])))
            if not ok:
                ctx.fail_input(f'{clsname}.fit', {'X': X.tolist()}, {'_params': vc.jsonable(m._params),
                               'scipy_fit_returned': vc.jsonable(proxy.returned)},
                               f'_params = scipy\'s tuple under the names {names}', f'{clsname}.fit:param-map')
            # the stored parameters must be what MODEL_CLASS evaluates
            with np.errstate(all='ignore'):
                want = getattr(stats, dist).cdf(X[:5], **{k: float(v) for k, v in m._params.items()}) if ok else None
                if ok and not np.array_equal(np.asarray(m.cumulative_distribution(X[:5])), want, equal_nan=True):
                    ctx.fail_input(f'{clsname}.cumulative_distribution', {'X': X.tolist()}, 'cdf differs from scipy cdf(**_params)',
                                   'cdf = MODEL_CLASS.cdf(**_params)', f'{clsname}.fit:model-class')
    return checked


def np_kernel_estimate(ds, bw, w, pts):
    n = len(ds)
    w = np.full(n, 1.0 / n) if w is None else np.asarray(w, dtype=float) / float(np.sum(w))
    neff = 1.0 / float(np.sum(w * w))
    if bw is None or bw == 'scott':
        factor = neff ** -0.2
    elif bw == 'silverman':
        factor = (neff * 0.75) ** -0.2
    else:
        factor = float(bw)
    mu = float(np.sum(w * ds))
    var = float(np.sum(w * (ds - mu) ** 2)) / (1.0 - float(np.sum(w * w)))
    h = math.sqrt(var) * factor
    z = (np.asarray(pts)[:, None] - ds[None, :]) / h
    return factor, h, (np.exp(-0.5 * z * z) * w[None, :]).sum(axis=1) / (h * math.sqrt(2 * math.pi))


def kde_oracle(ctx, rng, nprng, deep):
    from copulas.univariate import GaussianKDE
    checked = 0
    for i in range(8 * (4 if deep else 1)):
        n = rng.choice([10, 60, 200])
        scale = lognu(rng, 1e-2, 1e2)
        X = rng.uniform(-30, 30) * scale + scale * nprng.normal(size=n)
        bw = [None, 'scott', 'silverman', round(rng.uniform(0.1, 1.0), 3)][i % 4]
        weighted = (i // 4) % 2 == 1
        w = nprng.uniform(0.05, 1.0, size=n) if weighted else None
        ss = rng.choice([None, n if weighted else rng.choice([7, n, 2 * n])])
        inp = {'X': X.tolist(), 'bw_method': bw, 'weights': None if w is None else w.tolist(), 'sample_size': ss}
        checked += kde_oracle_one(ctx, inp)
    return checked


def kde_oracle_one(ctx, inp):
    from copulas.univariate import GaussianKDE
    X = np.asarray(inp['X'], dtype=float)
    w = None if inp['weights'] is None else np.asarray(inp['weights'], dtype=float)
    bw, ss = inp['bw_method'], inp['sample_size']
    m = GaussianKDE(sample_size=ss, bw_method=bw, weights=w)
    st = np.random.get_state()
    try:
        np.random.seed(12345)          # resample() draws from the global numpy stream: make the replay deterministic
        m.fit(X)
    finally:
        np.random.set_state(st)
    ds = np.ravel(np.asarray(m._params['dataset'], dtype=float))
    if len(ds) != (ss or len(X)) or (not ss and not np.array_equal(ds, X)):
        ctx.fail_input('GaussianKDE.fit', inp, {'stored': len(ds)}, 'stored dataset = training data, or a resample of exactly '
                       'sample_size points', 'GaussianKDE.fit:stored-dataset')
        return 1
    factor, h, _ = np_kernel_estimate(ds, bw, w, [0.0])
    r = random.Random(len(ds))
    pts = [float(ds[r.randrange(len(ds))]) + r.uniform(-4, 4) * h for _ in range(6)]
    _, _, want = np_kernel_estimate(ds, bw, w, pts)
    got = np.asarray(m.probability_density(np.array(pts)), dtype=float)
    if not all(close(a, b, 1e-9, 1e-290) for a, b in zip(got, want)):
        ctx.fail_input('GaussianKDE.probability_density', inp, {'x': pts, 'density': got.tolist(), 'factor': float(m._model.factor)},
                       f'(weighted) Gaussian kernel estimate of the stored dataset with the requested bandwidth rule: factor {factor!r}, '
                       f'density {want.tolist()}', 'GaussianKDE.fit:density-not-kernel-estimate')
    return 1


KDE_LAWS = {  # name -> (frozen dist factory(loc, scale), sup density for scale 1)
    'normal': (lambda loc, s: stats.norm(loc, s), 1 / math.sqrt(2 * math.pi)),
    'uniform': (lambda loc, s: stats.uniform(loc, s), 1.0),
    'gamma3': (lambda loc, s: stats.gamma(3.0, loc=loc, scale=s), 4 * math.exp(-2) / 2),
    'logistic': (lambda loc, s: stats.logistic(loc, s), 0.25),
}


def kde_dkw(ctx, seed, deep, ns):
    from copulas.univariate import GaussianKDE
    r = random.Random('C04-design/kde')
    n_fail = n_all = 0
    for n in ns:
        for j in range(8 if deep else 4):
            law = r.choice(sorted(KDE_LAWS))
            loc, scale = r.uniform(-100, 100), lognu(r, 1e-2, 1e2)
            bw = [None, 'silverman', 'scott', round(r.uniform(0.2, 1.0), 2)][j % 4]
            dist = KDE_LAWS[law][0](loc, scale)
            fmax = KDE_LAWS[law][1] / scale
            rs = vc.np_rng(seed, 'C04', 'dkw', 'kde', j, n)
            X = np.asarray(dist.rvs(n, random_state=rs), dtype=float)
            m = GaussianKDE(bw_method=bw)
            m.fit(X)
            _, h, _ = np_kernel_estimate(X, bw, None, [0.0])
            d_true, d_emp = sup_dists(m.cumulative_distribution, dist, X, 300, rs)
            b = h * math.sqrt(2 / math.pi) * fmax + 1e-5
            e = band(n)
            n_all += 1
            ctx.count(f'dkw.kde.n={n}')
            if not (d_true <= e + b and d_emp <= 2 * e + b):
                n_fail += 1
                ctx.fail_input('GaussianKDE.fit', {'law': law, 'loc': loc, 'scale': scale, 'n': n, 'bw_method': bw,
                                                   'data_path': ['dkw', 'kde', j, n], 'seed': seed},
                               {'sup|F-Ftrue|': d_true, 'sup|F-ECDF|': d_emp, 'band': e, 'bandwidth_allowance': b},
                               'sup|F_kde-F_true| <= eps_n + b and sup|F_kde-ECDF| <= 2 eps_n + b', 'GaussianKDE.fit:dkw')
    return n_all, n_fail


def trunc_zero_bounds_oracle(ctx, seed, deep):
    """TruncatedGaussian honours user-supplied bounds - also a bound that is exactly 0 (falsy in Python): data strictly
    inside the bounds; cdf(minimum) = 0, cdf(maximum) = 1, self.min/max unchanged, loc + a*scale / loc + b*scale = bounds."""
    import copulas.univariate.truncated_gaussian as tg
    r = random.Random('C04-design/trunc-zero')
    checked = 0
    for j in range(12 if deep else 6):
        scale = lognu(r, 0.5, 50)
        a = r.uniform(-2.0, 0.5)
        b = a + r.uniform(1.0, 3.5)
        which = ['min', 'max', 'min-int', 'max-only', 'min-only', 'max-int'][j % 6]
        loc = -a * scale if which.startswith('min') else -b * scale        # puts the lower / upper end of the support at 0
        rs = vc.np_rng(seed, 'C04', 'trunc-zero', j)
        X = np.asarray(stats.truncnorm.rvs(a, b, loc=loc, scale=scale, size=150, random_state=rs), dtype=float)
        lo, hi = loc + a * scale, loc + b * scale
        X = X[(X > lo) & (X < hi)]
        zero = 0 if which.endswith('int') else 0.0
        if which.startswith('min'):
            kw = {'minimum': zero} if which == 'min-only' else {'minimum': zero, 'maximum': hi}
        else:
            kw = {'maximum': zero} if which == 'max-only' else {'minimum': lo, 'maximum': zero}
        m = tg.TruncatedGaussian(**kw)
        m.fit(X)
        checked += 1
        ctx.count(f'support.truncated.zero-bound.{which}')
        bad = support_check('truncated', None, m, {k: float(v) for k, v in kw.items()}, X)
        if bad:
            ctx.fail_input('TruncatedGaussian.fit', {'ctor': kw, 'X': X.tolist()}, bad[1],
                           'user-supplied bounds (including a bound equal to 0) are honoured: self.min/max unchanged, '
                           'cdf(minimum) = 0, cdf(maximum) = 1, loc + a*scale = minimum, loc + b*scale = maximum',
                           f'TruncatedGaussian.fit:{bad[0]}')
    return checked


def beta_unit_width_oracle(ctx, seed, deep):
    """data of a bell-shaped Beta whose support is a proper sub-interval of (0,1): the fitted support [loc, loc+scale] must
    not be much wider than the data range (scale <= 3 * range; clean tree: <= 2.1 over 2400 fits)."""
    checked = 0
    for idx, p in enumerate(fixed_design('beta@unit-moderate', 10 if deep else 4)):
        X = draw(seed, 'beta@unit-moderate', idx, 1000, p)
        res = dkw_eval('beta@unit-moderate', p, X, rule='cell')
        checked += 1
        ctx.count('support.beta@unit.width')
        inp = {'family': 'beta@unit-moderate', 'design_index': idx, 'params': p, 'n': 1000, 'seed': seed}
        if res.get('exc'):
            ctx.fail_input('BetaUnivariate.fit', inp, res['exc'], 'fit succeeds', 'BetaUnivariate.fit:raises')
            continue
        if res.get('support'):
            ctx.fail_input('BetaUnivariate.fit', inp, res['support'][1], 'no mass outside the fitted support',
                           f'BetaUnivariate.fit:{res["support"][0]}')
        rng_ = float(X.max() - X.min())
        sc = float(res['params']['scale'])
        if not sc <= 3 * rng_:
            ctx.fail_input('BetaUnivariate.fit', inp, {'fitted': res['params'], 'data_range': [float(X.min()), float(X.max())],
                                                       'd_true': res['d_true']},
                           'fitted support not wider than 3x the data range (generating support '
                           f'[{p["loc"]:.3f}, {p["loc"] + p["scale"]:.3f}] inside (0,1))', 'BetaUnivariate.fit:support-much-wider-than-data')
    return checked


def heavy_t_oracle(ctx, seed, deep):
    """StudentT generating laws heavier-tailed than Cauchy (df 0.5, 0.7), n = 1000: (1) exact - the stored df/loc/scale are what
    scipy.stats.t.fit returned (recording proxy); (2) DKW, 80 %-family style: a dataset passes iff sup|F_fit - F_true| <= eps'_n and
    sup|F_fit - ECDF| <= 2 eps'_n (clean tree: sqrt(n)*sup <= 1.0 against 1.95 / 3.9 on 16 datasets); flagged when fewer than
    half of the datasets pass."""
    import copulas.univariate.student_t as st
    from copulas.univariate import StudentTUnivariate
    n = 1000
    e = band_d(n)
    checked = passed = 0
    worst = []
    cases = [(df, j) for df in (0.5, 0.7) for j in range(4 if deep else 3)]
    for df, j in cases:
        loc, scale = [(3.0, 2.0), (-40.0, 0.5), (0.0, 10.0), (7.0, 1.0)][j]
        dist = stats.t(df, loc=loc, scale=scale)
        X = np.asarray(dist.rvs(n, random_state=vc.np_rng(seed, 'C04', 'heavy-t', df, j)), dtype=float)
        real = st.t
        proxy = FitProxy(real)
        st.t = proxy
        try:
            m = StudentTUnivariate()
            m.fit(X)
        finally:
            st.t = real
        checked += 1
        ctx.count('dkw.studentT.heavy-tailed')
        inp = {'df': df, 'loc': loc, 'scale': scale, 'n': n, 'seed': seed, 'data_path': ['heavy-t', df, j]}
        if len(proxy.returned) == 1 and not params_equal(m._params, dict(zip(['df', 'loc', 'scale'], proxy.returned[0]))):
            ctx.fail_input('StudentTUnivariate.fit', inp, {'_params': vc.jsonable(m._params), 'scipy_fit_returned': vc.jsonable(proxy.returned)},
                           '_params = the tuple scipy.stats.t.fit returned, under the names df, loc, scale', 'StudentTUnivariate.fit:param-map')
        d_true, d_emp = sup_dists(m.cumulative_distribution, dist, X)
        ok = d_true <= e and d_emp <= 2 * e
        passed += ok
        if not ok:
            worst.append(dict(inp, d_true=d_true, d_emp=d_emp, fitted=vc.jsonable(m._params)))
    if passed < 0.5 * len(cases):
        ctx.fail_input('StudentTUnivariate.fit', {'generating': 'StudentT df in {0.5, 0.7}', 'n': n, 'seed': seed, 'datasets': len(cases)},
                       {'passed': passed, 'of': len(cases), 'band': e, 'failing': worst[:4]},
                       'heavy-tailed StudentT samples: fitted CDF within eps\'_n / 2 eps\'_n of the generating / empirical CDF',
                       'StudentTUnivariate.fit:dkw:heavy-tailed')
    return checked


SWEEP_SIZES = [1023, 1024, 1025, 2049, 4097, 5000]


def size_sweep_oracle(ctx, seed, deep):
    """sample-size sweep around block boundaries for every closed-form quantity, an extreme value in the LAST row (and one in
    the first): Gaussian loc/scale = np.mean/np.std, Uniform loc/scale = min / max - min, the data-derived bounds of
    TruncatedGaussian = min - EPSILON / max + EPSILON, the KDE dataset = all n rows.  rtol 1e-12 (min/max: exact)."""
    from copulas.univariate import GaussianKDE, GaussianUnivariate, TruncatedGaussian, UniformUnivariate
    rs = vc.np_rng(seed, 'C04', 'size-sweep')
    checked = 0
    sizes = SWEEP_SIZES + ([3073, 2048, 1026] if deep else [])
    for n in sizes:
        sigma = float(np.exp(rs.uniform(-2, 3)))
        X = rs.normal(rs.uniform(-5, 5) * sigma, sigma, size=n)
        X[-1] = X.max() + 40 * sigma          # the largest value sits in the last row
        X[0] = X.min() - 25 * sigma           # the smallest in the first
        mean, std, lo, hi = float(np.mean(X)), float(np.std(X)), float(np.min(X)), float(np.max(X))
        ctx.count('sweep.closed-form')
        found = []
        m = GaussianUnivariate()
        m.fit(X.copy())
        if not (abs(float(m._params['loc']) - mean) <= 1e-12 * max(abs(mean), std) and close(m._params['scale'], std, 1e-12)):
            found.append(('GaussianUnivariate', {'loc': float(m._params['loc']), 'scale': float(m._params['scale'])},
                          f'loc = np.mean = {mean!r}, scale = np.std = {std!r}'))
        m = UniformUnivariate()
        m.fit(X.copy())
        if not (float(m._params['loc']) == lo and float(m._params['scale']) == hi - lo):
            found.append(('UniformUnivariate', vc.jsonable(m._params), f'loc = min = {lo!r}, scale = max - min = {hi - lo!r}'))
        if n <= 2049 or deep:
            m = TruncatedGaussian()
            m.fit(X.copy())
            if not (same(m.min, lo - EPS32) and same(m.max, hi + EPS32)):
                found.append(('TruncatedGaussian', {'self.min': float(m.min), 'self.max': float(m.max)},
                              f'default bounds = min - EPSILON = {lo - EPS32!r}, max + EPSILON = {hi + EPS32!r}'))
        m = GaussianKDE()
        m.fit(X.copy())
        ds = np.ravel(np.asarray(m._params['dataset'], dtype=float))
        if not (len(ds) == n and np.array_equal(ds, X) and m._model.n == n):
            found.append(('GaussianKDE', {'stored rows': len(ds), 'model rows': int(m._model.n)}, f'the stored dataset is all {n} training rows'))
        checked += 4
        for clsname, obs, req in found:
            ctx.fail_input(f'{clsname}.fit', {'n': n, 'X': X.tolist()}, obs, f'n = {n}, extreme values in the first and last row: {req}',
                           f'{clsname}.fit:closed-form-not-exact:size-sweep')
    return checked


def large_offset_oracle(ctx, seed, deep):
    """data with a huge location relative to its spread (|loc| up to 1.2e8, scale <= 1).  Calibrated on the clean tree
    (n = 1000, sqrt(n)*sup|F_fit - F_true|): Gaussian 0.6, Uniform 0.1, KDE 0.8, TruncatedGaussian 0.6 (user and data-derived
    bounds) up to |loc| = 1.2e8 - these are the every-dataset families: required sup|F_fit - F_true| <= 2 eps'_n and
    sup|F_fit - ECDF| <= 3 eps'_n.  Beta / Gamma (80 % families; clean 1.2 / 0.5 up to 1.2e8): only required to return finite
    parameters with scale > 0.  NOT in domain on the unchanged tree (reported, not exercised): TruncatedGaussian and Gamma stop
    converging from |loc| ~ 1.5e8, StudentT from |loc| ~ 1e6 (sqrt(n)*sup ~ 20), LogLaplace (recorded finding)."""
    from copulas.univariate import BetaUnivariate, GammaUnivariate, GaussianKDE, GaussianUnivariate, TruncatedGaussian, UniformUnivariate
    r = random.Random('C04-design/large-offset')
    checked = 0
    n = 1000
    locs = [9e7, -1.1e8, 1.2e8, 1e6] if deep else [9e7, -1.1e8, 1.2e8]
    members = []
    for i, loc in enumerate(locs):
        sc = [1.0, 0.3, 0.7, 1.0][i % 4]
        a, b = [(-2.0, 2.0), (-0.5, 2.5), (-2.0, 0.3), (0.0, 3.0)][i % 4]
        members.append(('truncated', TruncatedGaussian, stats.truncnorm(a, b, loc=loc, scale=sc), {'minimum': loc + a * sc, 'maximum': loc + b * sc}))
        members.append(('truncated', TruncatedGaussian, stats.truncnorm(a, b, loc=loc, scale=sc), {}))
        members.append(('gaussian', GaussianUnivariate, stats.norm(loc, sc), {}))
        if i < 2 or deep:
            members.append(('uniform', UniformUnivariate, stats.uniform(loc, sc), {}))
            members.append(('kde', GaussianKDE, stats.norm(loc, sc), {}))
            members.append(('beta', BetaUnivariate, stats.beta(2.0, 3.0, loc=loc, scale=sc), {}))
            members.append(('gamma', GammaUnivariate, stats.gamma(3.0, loc=loc, scale=sc), {}))
    e = band_d(n)
    for idx, (fam, cls, dist, kw) in enumerate(members):
        rs = vc.np_rng(seed, 'C04', 'large-offset', idx)
        X = np.asarray(dist.rvs(n, random_state=rs), dtype=float)
        checked += 1
        ctx.count(f'dkw.large-offset.{fam}')
        inp = {'family': fam, 'generating': {'dist': dist.dist.name, 'args': list(dist.args), 'kwds': dist.kwds}, 'ctor': kw, 'n': n,
               'seed': seed, 'data_path': ['large-offset', idx]}
        try:
            m = cls(**kw)
            m.fit(X)
            if fam in ('beta', 'gamma'):
                vals = [float(v) for v in m._params.values()]
                ok = all(math.isfinite(v) for v in vals) and float(m._params['scale']) > 0
                obs = vc.jsonable(m._params)
                req = 'finite parameters with scale > 0'
            else:
                d_true, d_emp = sup_dists(m.cumulative_distribution, dist, X, 300, rs)
                ok = d_true <= 2 * e and d_emp <= 3 * e
                obs = {'d_true': d_true, 'd_emp': d_emp, 'params': vc.jsonable(m._params) if fam != 'kde' else None}
                req = f'sup|F_fit - F_true| <= {2 * e:.4f} and sup|F_fit - ECDF| <= {3 * e:.4f}'
        except Exception as ex:  # noqa
            ok, obs, req = False, f'{type(ex).__name__}: {ex}'[:200], 'fit succeeds'
        if not ok:
            ctx.fail_input(f'{cls.__name__}.fit', inp, obs, f'data with location {dist.kwds.get("loc", dist.args[0] if dist.args else 0)!r} '
                           f'and spread <= 1: {req}', f'{cls.__name__}.fit:dkw:large-offset')
    return checked


def _plain_leaves(v, path, bad):
    """every leaf a Python int/float (np.float64 is a float subclass; np.int64 / ndarray are not), containers plain lists"""
    if isinstance(v, list):
        for i, x in enumerate(v):
            _plain_leaves(x, f'{path}[{i}]', bad)
            if len(bad) > 3:
                return
    elif isinstance(v, bool) or not isinstance(v, (int, float)):
        bad.append(f'{path}: {type(v).__module__}.{type(v).__name__}')


def stored_form_oracle(ctx, seed, deep):
    """FORM of the stored / reported parameters: every value of _params and to_dict() is a Python number (or a plain, possibly
    nested, list of them), json.dumps(to_dict()) works, and for GaussianKDE the density is the kernel estimate of the REPORTED
    dataset (np.ravel(to_dict()['dataset'])) with the configured options and survives a JSON round trip (default options).
    Data: float, integer-valued float and (where the unchanged tree already complies: all but UniformUnivariate, non-constant)
    int64 arrays; KDE also x sample_size x weights.  Reported, not exercised: constant int64 columns (every family stores
    np.unique(X)[0] as np.int64) and UniformUnivariate on int64 data (np.int64 loc/scale) are not JSON-serialisable on the
    unchanged tree."""
    import json
    from copulas.univariate import GaussianKDE
    r = vc.rng_for(seed, 'C04', 'forms')
    rs = vc.np_rng(seed, 'C04', 'forms')
    checked = 0
    n = 60
    Xi = rs.randint(0, 25, size=n)
    datasets = {'float': rs.normal(3.0, 2.0, size=n) + 6.0, 'integer-valued float': Xi.astype(float), 'int64': Xi.astype(np.int64)}
    cases = []
    for clsname in STATE_FAMILIES:
        for dname in datasets:
            if dname == 'int64' and clsname == 'UniformUnivariate':
                continue
            cases.append((clsname, dname, {}))
    w = rs.uniform(0.1, 1.0, size=n)
    for dname in datasets:
        cases.append(('GaussianKDE', dname, {'sample_size': r.choice([9, 2 * n])}))
        cases.append(('GaussianKDE', dname, {'weights': w, 'bw_method': 'silverman'}))
        cases.append(('GaussianKDE', dname, {'sample_size': n, 'weights': w}))
    for clsname, dname, kw in cases:
        X = datasets[dname]
        checked += 1
        ctx.count(f'form.{clsname}.{dname}')
        inp = {'class': clsname, 'data': dname, 'X': X.tolist(), 'ctor': {k: (v.tolist() if isinstance(v, np.ndarray) else v) for k, v in kw.items()}}
        bad = []
        try:
            m = _cls(clsname)(**kw)
            m.fit(X.copy())
            d = m.to_dict()
            for k, v in m._params.items():
                _plain_leaves(v, f'_params[{k!r}]', bad)
            for k, v in d.items():
                if k != 'type':
                    _plain_leaves(v, f'to_dict()[{k!r}]', bad)
            try:
                js = json.dumps(d)
            except Exception as ex:  # noqa
                js = None
                bad.append(f'json.dumps(to_dict()): {type(ex).__name__}: {ex}'[:120])
            if clsname == 'GaussianKDE' and not bad:
                ds = np.ravel(np.asarray(d['dataset'], dtype=float))
                if 'sample_size' in kw and len(ds) != kw['sample_size']:
                    bad.append(f'reported dataset has {len(ds)} values, sample_size = {kw["sample_size"]}')
                obs = _kde_matches(m.probability_density, ds, kw.get('bw_method'), kw.get('weights'), 'direct')
                if obs:
                    bad.append(f'density is not the kernel estimate of the reported dataset: {obs["density"][:3]} vs '
                               f'{obs["kernel_estimate_with_configured_options"][:3]}')
                if not kw and js is not None:
                    m2 = GaussianKDE.from_dict(json.loads(js))
                    pts = ds[:5] + 0.1
                    if not np.array_equal(np.asarray(m2.probability_density(pts)), np.asarray(m.probability_density(pts))):
                        bad.append('density changes over a JSON round trip of to_dict()')
        except Exception as ex:  # noqa
            bad.append(f'{type(ex).__name__}: {ex}'[:160])
        if bad:
            ctx.fail_input(f'{clsname}.fit', inp, bad[:5],
                           'stored / reported parameters are Python numbers or plain lists of them, json.dumps(to_dict()) works, and the '
                           'KDE density is the kernel estimate of the reported dataset', f'{clsname}.fit:stored-params-not-plain')
    return checked


def models_alive_oracle(ctx, seed, deep):
    """several models alive at once: fit one fresh model per dataset FIRST, then check every model against its OWN data
    (parameters and cdf unchanged since its own fit, and equal to a model fitted alone)."""
    rs = vc.np_rng(seed, 'C04', 'alive')
    checked = 0
    for clsname in STATE_FAMILIES:
        cls = _cls(clsname)
        datas = [rs.normal(0.0, 1.0, size=70) * sc + loc for loc, sc in ((2.0, 1.0), (40.0, 6.0), (-15.0, 0.4))]
        if clsname in ('BetaUnivariate', 'GammaUnivariate', 'LogLaplace'):
            datas = [stats.gamma.rvs(3.0, loc=loc, scale=sc, size=70, random_state=rs) for loc, sc in ((0.0, 1.0), (5.0, 4.0), (1.0, 0.3))]
        alone = []
        for D in datas:
            alone.append(_fit_params(cls(), np.asarray(D, dtype=float)))
        models = [cls() for _ in datas]
        for m, D in zip(models, datas):          # all fits first ...
            try:
                m.fit(np.asarray(D, dtype=float))
            except Exception:  # noqa
                pass
        for i, (m, D) in enumerate(zip(models, datas)):        # ... then every model against its own data
            checked += 1
            ctx.count(f'alive.{clsname}')
            now = ('ok', {k: np.asarray(v, dtype=float).ravel().tolist() for k, v in m._params.items()}) \
                if getattr(m, 'fitted', False) else ('err', 'not fitted')
            if alone[i][0] == 'ok' and now != alone[i]:
                ctx.fail_input(f'{clsname}.fit', {'class': clsname, 'datasets': [np.asarray(x).tolist() for x in datas], 'model_index': i},
                               {'params_now': now, 'params_of_a_model_fitted_alone_on_its_data': alone[i]},
                               f'model {i} still holds the estimate of ITS data after {len(datas) - 1 - i} later fits of other instances',
                               f'{clsname}.fit:models-share-state')
    return checked


def _bw_of(spec):
    """replayable description of a bw_method -> the object"""
    if spec is None or isinstance(spec, str) and not spec.startswith('callable:'):
        return spec
    if isinstance(spec, str):
        c = float(spec.split(':', 1)[1])
        return lambda kde, c=c: c * kde.neff ** -0.2          # a callable rule: c times Scott's factor
    return float(spec)


def kde_resample_oracle(ctx, seed, deep):
    """option COMBINATIONS: GaussianKDE(sample_size=k, bw_method=b[, weights=w]) - the stored dataset must be the resample
    `scipy.stats.gaussian_kde(X, bw_method=b, weights=w).resample(k)` of the REQUESTED kernel estimate.  The clean source calls
    `.resample(k)` without a seed, i.e. it draws from numpy's global stream: seeding np.random identically before the fit and
    before the harness-side reference makes the two bit-identical."""
    r = vc.rng_for(seed, 'C04', 'kde-resample')
    rs = vc.np_rng(seed, 'C04', 'kde-resample')
    checked = 0
    specs = [round(r.uniform(0.03, 0.12), 3), 'silverman', f'callable:{round(r.uniform(0.1, 0.4), 3)}', 'scott', None,
             round(r.uniform(1.5, 3.0), 2)]
    for j, spec in enumerate(specs if deep else specs[:4]):
        n = r.choice([30, 90])
        X = np.concatenate([rs.normal(-4.0, 0.3, size=n // 2), rs.normal(5.0, 0.3, size=n - n // 2)]) * lognu(r, 0.1, 10)
        weighted = j % 2 == 1
        w = rs.uniform(0.1, 1.0, size=n) if weighted else None
        k = n if weighted else r.choice([7, n // 2, 2 * n])       # weights are re-used on the stored dataset: k = n there
        checked += kde_resample_one(ctx, {'X': X.tolist(), 'bw_method': spec, 'weights': None if w is None else w.tolist(),
                                          'sample_size': k, 'np_random_seed': r.randrange(2 ** 31)})
    return checked


def kde_resample_one(ctx, inp):
    from copulas.univariate import GaussianKDE
    X = np.asarray(inp['X'], dtype=float)
    w = None if inp['weights'] is None else np.asarray(inp['weights'], dtype=float)
    k, s0 = inp['sample_size'], inp['np_random_seed']
    ctx.count(f'kde.resample.bw={"scalar" if isinstance(inp["bw_method"], float) else str(inp["bw_method"]).split(":")[0]}'
              f'.w={w is not None}')
    st = np.random.get_state()
    try:
        np.random.seed(s0)
        m = GaussianKDE(sample_size=k, bw_method=_bw_of(inp['bw_method']), weights=w)
        m.fit(X)
        stored = np.ravel(np.asarray(m._params['dataset'], dtype=float))
        np.random.seed(s0)
        ref = np.ravel(stats.gaussian_kde(X, bw_method=_bw_of(inp['bw_method']), weights=w).resample(k))
    finally:
        np.random.set_state(st)
    if not (len(stored) == k and np.array_equal(stored, ref)):
        h_req = math.sqrt(float(stats.gaussian_kde(X, bw_method=_bw_of(inp['bw_method']), weights=w).covariance[0, 0]))
        near = lambda v: float(np.median(np.min(np.abs(np.asarray(v)[:, None] - X[None, :]), axis=1)))   # noqa: E731
        ctx.fail_input('GaussianKDE.fit', inp,
                       {'stored_dataset_head': stored[:6].tolist(), 'reference_resample_head': ref[:6].tolist(), 'stored_len': len(stored),
                        'requested_kernel_width': h_req, 'median_distance_to_nearest_training_point': {'stored': near(stored), 'reference': near(ref)}},
                       'with sample_size set the stored dataset is gaussian_kde(X, bw_method=<requested>, weights=<requested>)'
                       '.resample(sample_size) - bit-identical under the same numpy global seed',
                       'GaussianKDE.fit:resample-not-from-requested-estimate')
    return 1


BOUND_FORMS = {
    'int': lambda v: int(v), 'float': lambda v: float(v), 'np.float64': lambda v: np.float64(v),
    'np.float32': lambda v: np.float32(v), 'np.int64': lambda v: np.int64(v), 'np.int32': lambda v: np.int32(v),
    '0-d array': lambda v: np.array(float(v)), '0-d int array': lambda v: np.array(int(v)),
}


def trunc_bound_forms_oracle(ctx, seed, deep):
    """numeric FORMS of user-supplied bounds (Python int/float, numpy scalars, 0-d arrays; keyword and positional), data
    strictly inside the bounds: the implied support loc + a*scale / loc + b*scale (also read back through to_dict) equals the
    supplied bounds, self.min/max keep the value, cdf(minimum) = 0, cdf(maximum) = 1."""
    import copulas.univariate.truncated_gaussian as tg
    r = random.Random('C04-design/trunc-forms')
    checked = 0
    forms = sorted(BOUND_FORMS)
    for j, form in enumerate(forms):
        lo, hi = float(r.randrange(-6, 2)), float(r.randrange(4, 12))      # integral: exact in every form
        rs = vc.np_rng(seed, 'C04', 'trunc-forms', j)
        X = rs.uniform(lo + 0.4, hi - 0.4, size=120) if j % 2 else \
            np.clip(rs.normal((lo + hi) / 2, (hi - lo) / 8, size=120), lo + 0.3, hi - 0.3)
        other = forms[(j + 3) % len(forms)]
        vlo, vhi = BOUND_FORMS[form](lo), BOUND_FORMS[other](hi)
        positional = j % 2 == 1
        m = tg.TruncatedGaussian(vlo, vhi) if positional else tg.TruncatedGaussian(minimum=vlo, maximum=vhi)
        checked += 1
        ctx.count(f'support.truncated.bound-form.{form}')
        inp = {'minimum': [form, lo], 'maximum': [other, hi], 'positional': positional, 'X': X.tolist()}
        try:
            m.fit(X)
            bad = support_check('truncated', None, m, {'minimum': lo, 'maximum': hi}, X)
            if not bad:
                d = m.to_dict()
                a_, b_, loc_, sc_ = (float(np.asarray(d[k])) for k in ('a', 'b', 'loc', 'scale'))
                if not (abs(loc_ + a_ * sc_ - lo) <= 1e-9 * (hi - lo) and abs(loc_ + b_ * sc_ - hi) <= 1e-9 * (hi - lo)):
                    bad = ('to_dict-support-not-bounds', {'to_dict': vc.jsonable(d), 'bounds': [lo, hi]})
        except Exception as e:  # noqa
            bad = ('raises', f'{type(e).__name__}: {e}'[:200])
        if bad:
            numpy_form = form not in ('int', 'float') or other not in ('int', 'float')
            ctx.fail_input('TruncatedGaussian.fit', inp, bad[1],
                           'user-supplied bounds are honoured whatever their numeric type: support = [minimum, maximum], '
                           'cdf(minimum) = 0, cdf(maximum) = 1, to_dict truncation points reproduce the bounds',
                           f'TruncatedGaussian.fit:{bad[0]}' + (':numpy-scalar' if numpy_form else ''))
    return checked


def _kde_matches(model_pdf, ds, bw, w, tag):
    """density of a fitted model vs the independent kernel estimate with the CONFIGURED rule -> None or observed"""
    factor, h, _ = np_kernel_estimate(ds, bw, w, [0.0])
    r = random.Random(len(ds))
    pts = [float(ds[r.randrange(len(ds))]) + r.uniform(-3, 3) * h for _ in range(5)]
    _, _, want = np_kernel_estimate(ds, bw, w, pts)
    got = np.asarray(model_pdf(np.array(pts)), dtype=float)
    if all(close(a, b, 1e-9, 1e-290) for a, b in zip(got, want)):
        return None
    return {'route': tag, 'x': pts, 'density': got.tolist(), 'kernel_estimate_with_configured_options': want.tolist(),
            'configured_factor': factor}


def wrapper_route_oracle(ctx, seed, deep):
    """the estimator reached through the selection wrapper: a CONFIGURED candidate instance must keep its constructor
    options (KDE: bandwidth rule / weights; TruncatedGaussian: bounds) on every route."""
    import pandas as pd
    from copulas.multivariate import GaussianMultivariate
    from copulas.univariate import GaussianKDE, TruncatedGaussian, Univariate
    r = vc.rng_for(seed, 'C04', 'routes')
    rs = vc.np_rng(seed, 'C04', 'routes')
    checked = 0
    n = 80
    X = rs.normal(r.uniform(-5, 5), lognu(r, 0.2, 5), size=n)
    Z = rs.normal(size=n)
    w = rs.uniform(0.1, 1.0, size=n)
    configs = [{'bw_method': 'silverman'}, {'bw_method': round(r.uniform(0.15, 0.6), 3)}, {'bw_method': 'silverman', 'weights': w}]
    for cfg in (configs if deep else configs[:3]):
        bw, ww = cfg.get('bw_method'), cfg.get('weights')
        routes = {}
        try:
            m = GaussianKDE(**cfg)
            m.fit(X)
            routes['direct'] = m.probability_density
            u = Univariate(candidates=[GaussianKDE(**cfg)])
            u.fit(X)
            routes['Univariate(candidates=[instance])'] = u.probability_density
            routes['Univariate(candidates=[instance])._instance'] = u._instance.probability_density
            gm = GaussianMultivariate(distribution=Univariate(candidates=[GaussianKDE(**cfg)]))
            gm.fit(pd.DataFrame({'x': X, 'z': Z}))
            routes['GaussianMultivariate(distribution=Univariate(candidates=[instance])).univariates[0]'] = \
                gm.univariates[0].probability_density
            gm2 = GaussianMultivariate(distribution=GaussianKDE(**cfg))
            gm2.fit(pd.DataFrame({'x': X, 'z': Z}))
            routes['GaussianMultivariate(distribution=instance).univariates[0]'] = gm2.univariates[0].probability_density
        except Exception as e:  # noqa
            ctx.fail_input('Univariate.fit', {'X': X.tolist(), 'kde_options': vc.jsonable(cfg)}, f'{type(e).__name__}: {e}'[:200],
                           'fit through the wrapper succeeds', 'Univariate.fit:candidate-instance-raises')
            continue
        for tag, pdf in routes.items():
            checked += 1
            ctx.count('route.kde')
            obs = _kde_matches(pdf, X, bw, ww, tag)
            if obs:
                ctx.fail_input('Univariate.fit' if tag != 'direct' else 'GaussianKDE.fit',
                               {'X': X.tolist(), 'kde_options': vc.jsonable(cfg), 'route': tag}, obs,
                               'density = (weighted) Gaussian kernel estimate of the training data with the CONFIGURED bandwidth '
                               'rule / weights, on every route to the estimator',
                               'Univariate.fit:candidate-instance-options-lost' if tag != 'direct'
                               else 'GaussianKDE.fit:density-not-kernel-estimate')
    # TruncatedGaussian bounds through the wrapper
    lo, hi = -3.0, 9.0
    Y = rs.uniform(lo + 1.5, hi - 2.0, size=n)
    try:
        u = Univariate(candidates=[TruncatedGaussian(minimum=lo, maximum=hi)])
        u.fit(Y)
        gm = GaussianMultivariate(distribution=Univariate(candidates=[TruncatedGaussian(lo, hi)]))
        gm.fit(pd.DataFrame({'y': Y, 'z': Z}))
        insts = {'Univariate(candidates=[instance])._instance': u._instance,
                 'GaussianMultivariate(distribution=Univariate(candidates=[instance])).univariates[0]._instance':
                     gm.univariates[0]._instance}
        for tag, inst in insts.items():
            checked += 1
            ctx.count('route.truncated')
            bad = support_check('truncated', None, inst, {'minimum': lo, 'maximum': hi}, Y) \
                if type(inst).__name__ == 'TruncatedGaussian' else ('wrong-class', type(inst).__name__)
            if bad:
                ctx.fail_input('Univariate.fit', {'Y': Y.tolist(), 'bounds': [lo, hi], 'route': tag}, bad[1],
                               'the configured candidate keeps its bounds: support = [minimum, maximum]',
                               'Univariate.fit:candidate-instance-options-lost')
    except Exception as e:  # noqa
        ctx.fail_input('Univariate.fit', {'Y': Y.tolist(), 'bounds': [lo, hi]}, f'{type(e).__name__}: {e}'[:200],
                       'fit through the wrapper succeeds', 'Univariate.fit:candidate-instance-raises')
    return checked


STATE_FAMILIES = ['GaussianUnivariate', 'UniformUnivariate', 'BetaUnivariate', 'GammaUnivariate', 'StudentTUnivariate', 'LogLaplace',
                  'TruncatedGaussian', 'GaussianKDE']


def _fit_params(m, X):
    try:
        m.fit(X)
        return ('ok', {k: np.asarray(v, dtype=float).ravel().tolist() for k, v in m._params.items()})
    except Exception as e:  # noqa
        return ('err', type(e).__name__)


def state_oracle(ctx, seed, deep):
    """object STATES: the estimate after the last fit must not depend on what the instance held before - fresh instance,
    re-fitted (A, then B with another support / location / scale), re-fitted after a constant fit, restored with from_dict then
    fitted, get_instance clone then fitted: parameters bit-identical to a fresh instance's fit on the same data (all
    estimators are deterministic given the data).  Not exercised here (recorded under C19): TruncatedGaussian WITHOUT user
    bounds and GaussianKDE re-fitted / fitted after from_dict (bounds / sample size remembered across fits)."""
    from copulas.utils import get_instance
    r = vc.rng_for(seed, 'C04', 'states')
    rs = vc.np_rng(seed, 'C04', 'states')
    checked = 0
    n = 150
    for clsname in STATE_FAMILIES:
        cls = _cls(clsname)
        if clsname == 'BetaUnivariate':
            A = stats.beta.rvs(2.0, 3.0, loc=0.0, scale=1.0, size=n, random_state=rs)
            B = stats.beta.rvs(r.uniform(1.5, 4), r.uniform(1.5, 4), loc=r.uniform(20, 60), scale=r.uniform(5, 15), size=n, random_state=rs)
        elif clsname in ('GammaUnivariate', 'LogLaplace'):
            A = stats.gamma.rvs(3.0, loc=0.0, scale=1.0, size=n, random_state=rs)
            B = stats.gamma.rvs(r.uniform(2, 5), loc=r.uniform(3, 8), scale=r.uniform(3, 9), size=n, random_state=rs)
        elif clsname == 'TruncatedGaussian':
            A = rs.uniform(-1.0, 1.0, size=n)
            B = rs.uniform(2.0, 6.5, size=n)
        else:
            A = rs.normal(0.0, 1.0, size=n)
            B = rs.normal(r.uniform(20, 60), r.uniform(5, 15), size=n)
        A, B = np.asarray(A, dtype=float), np.asarray(B, dtype=float)
        kw = {'minimum': -2.0, 'maximum': 8.0} if clsname == 'TruncatedGaussian' else {}
        fresh = _fit_params(cls(**kw), B)
        states = {}
        m = cls(**kw)
        m.fit(A)
        if clsname != 'GaussianKDE':
            states['re-fitted (A then B)'] = m
            m2 = cls(**kw)
            m2.fit(A)
            try:
                restored = cls.from_dict(m2.to_dict())
                if clsname == 'TruncatedGaussian':      # bounds are constructor options, not part of to_dict
                    restored.min, restored.max = kw['minimum'], kw['maximum']
                states['restored with from_dict, then fitted'] = restored
            except Exception:  # noqa
                pass
        mc = cls(**kw)
        mc.fit(np.full(12, float(A[0])))
        states['re-fitted after a constant fit'] = mc
        m3 = cls(**kw)
        m3.fit(A)
        states['get_instance clone of a fitted instance, then fitted'] = get_instance(m3)
        for tag, inst in states.items():
            got = _fit_params(inst, B)
            checked += 1
            ctx.count(f'state.{clsname}')
            if got != fresh:
                d_true = None
                ctx.fail_input(f'{clsname}.fit', {'class': clsname, 'ctor': kw, 'state': tag, 'A': A.tolist(), 'B': B.tolist()},
                               {'params_after_last_fit': got, 'fresh_instance_params': fresh},
                               'the estimate after the last fit equals a fresh instance\'s estimate on the same data (bit-identical '
                               'parameters)', f'{clsname}.fit:estimate-depends-on-previous-fit')
    return checked


TRUNC_ASYM = [(0.0, 3.0), (-3.0, 0.0), (-0.5, 2.5), (-2.0, 0.3), (-0.3, 3.0)]


def trunc_large_scale_oracle(ctx, seed, deep):
    """TruncatedGaussian (own optimiser: EVERY dataset) on data with a large absolute spread and asymmetric truncation
    a <= 0 <= b (the loc bound [min, max] and the squared-range cap on scale are then inactive): parent scale 1e2 and 1e3,
    user-supplied and data-derived bounds, n = 5000 (deep: also 2000).  Required: sup|F_fit - F_true| <= 2 eps'_n and
    sup|F_fit - ECDF| <= 3 eps'_n, eps'_n = 1.95/sqrt(n) (clean tree: sqrt(n)*sup|F_fit - F_true| <= 0.81 over 320 fits; an
    optimiser stopped early gives 4.2 - 7.6).  Scale 1e4 is only RECORDED in ctx.support: the unchanged SLSQP run already
    degrades there (sqrt(n)*sup up to 6.2 at n = 5000, loc = 5*scale), see the report."""
    checked = 0
    members = []
    for i, (a, b) in enumerate(TRUNC_ASYM if deep else TRUNC_ASYM[:4]):
        for scale in ((1e3, 1e2) if deep else (1e3,)):
            for n in ((5000, 2000) if deep else (5000,)):
                members.append((a, b, scale, 0.0 if i % 2 == 0 else 5 * scale, 'both' if (i + (scale == 1e2)) % 2 == 0 else 'none', n))
                if deep:
                    members.append((a, b, scale, 5 * scale if i % 2 == 0 else 0.0, 'none' if (i + (scale == 1e2)) % 2 == 0 else 'both', n))
    worst = 0.0
    for idx, (a, b, scale, loc, ub, n) in enumerate(members):
        p = {'loc': loc, 'scale': scale, 'shapes': [a, b], 'user_bounds': ub}
        X = np.asarray(true_dist('truncated', p).rvs(n, random_state=vc.np_rng(seed, 'C04', 'trunc-large', idx, n)), dtype=float)
        res = dkw_eval('truncated', p, X, rule='cell')
        checked += 1
        ctx.count(f'dkw.truncated.large-scale.scale={scale:g}')
        e = band_d(n)
        inp = {'family': 'truncated', 'params': p, 'n': n, 'seed': seed, 'data_path': ['trunc-large', idx, n], 'ctor': res.get('ctor')}
        if res.get('support'):
            ctx.fail_input('TruncatedGaussian.fit', inp, res['support'][1], 'user bounds honoured / no mass outside',
                           f'TruncatedGaussian.fit:{res["support"][0]}')
        if res.get('exc') or not (res['d_true'] <= 2 * e and res['d_emp'] <= 3 * e):
            ctx.fail_input('TruncatedGaussian.fit', inp, {k: res.get(k) for k in ('d_true', 'd_emp', 'params', 'exc')},
                           f'truncnorm(a={a}, b={b}, loc={loc}, scale={scale}), n = {n}: sup|F_fit - F_true| <= {2 * e:.4f} and '
                           f'sup|F_fit - ECDF| <= {3 * e:.4f} for EVERY dataset', 'TruncatedGaussian.fit:dkw:large-scale-asymmetric')
        if not res.get('exc'):
            worst = max(worst, res['d_true'] * math.sqrt(n))
    stats_ = {'members': len(members), 'worst sqrt(n)*sup|F_fit-F_true| (scale 1e2, 1e3)': round(worst, 3)}
    if deep:                       # recorded only
        w4 = 0.0
        for idx, (a, b) in enumerate(TRUNC_ASYM):
            for loc in (0.0, 5e4):
                p = {'loc': loc, 'scale': 1e4, 'shapes': [a, b], 'user_bounds': 'both' if idx % 2 else 'none'}
                X = np.asarray(true_dist('truncated', p).rvs(5000, random_state=vc.np_rng(seed, 'C04', 'trunc-1e4', idx, loc)), dtype=float)
                res = dkw_eval('truncated', p, X, rule='cell')
                if not res.get('exc'):
                    w4 = max(w4, res['d_true'] * math.sqrt(5000))
        stats_['recorded only: worst sqrt(n)*sup at scale 1e4, n=5000'] = round(w4, 3)
    return checked, stats_


U_QUICK = [(0.5, 0.35), (0.45, 0.45), (0.35, 0.5), (0.4, 0.6), (0.5, 0.5)]


def beta_u_shaped_oracle(ctx, seed, deep):
    """moderately U-shaped Beta members on [0, 1] (a, b in [0.35, 0.6]), n = 5000: the data-driven start makes scipy's MLE
    reliable here (clean tree: sup distances <= 0.025 over 200 fits), so EVERY dataset must give
    sup|F_fit - F_true| <= 2 eps'_n and sup|F_fit - ECDF| <= 2 eps'_n (eps'_5000 = 0.0276)."""
    checked = 0
    n = 5000
    for idx, (a, b) in enumerate(U_QUICK if deep else U_QUICK[:4]):
        p = {'loc': 0.0, 'scale': 1.0, 'shapes': [a, b]}
        X = draw(seed, 'beta@U-quick', idx, n, p)
        res = dkw_eval('beta@U-quick', p, X, rule='cell')
        checked += 1
        ctx.count('dkw.beta@U-quick')
        inp = {'family': 'beta@U-quick', 'design_index': idx, 'params': p, 'n': n, 'seed': seed}
        e = band_d(n)
        if res.get('exc') or not (res['d_true'] <= 2 * e and res['d_emp'] <= 2 * e):
            ctx.fail_input('BetaUnivariate.fit', inp, {k: res.get(k) for k in ('d_true', 'd_emp', 'params', 'exc')},
                           f'U-shaped Beta({a}, {b}) on [0, 1], n = {n}: sup|F_fit - F_true| and sup|F_fit - ECDF| <= {2 * e:.4f}',
                           'BetaUnivariate.fit:dkw:U-shaped')
    return checked


def kde_alias_oracle(ctx, seed, deep):
    """history: the fitted density must not depend on what the caller does to the training array afterwards."""
    r = vc.rng_for(seed, 'C04', 'kde-alias')
    rs = vc.np_rng(seed, 'C04', 'kde-alias')
    checked = 0
    for j in range(6 if deep else 3):
        n = r.choice([20, 80, 200])
        X = rs.normal(r.uniform(-5, 5), lognu(r, 0.1, 10), size=n)
        X2 = rs.uniform(-3, 3, size=n) * lognu(r, 0.1, 10)
        bw = [None, 'silverman', 0.4][j % 3]
        w = rs.uniform(0.1, 1.0, size=n) if j % 2 else None
        checked += kde_alias_one(ctx, {'X': X.tolist(), 'X_overwrite': X2.tolist(), 'bw_method': bw,
                                       'weights': None if w is None else w.tolist()})
    return checked


def kde_alias_one(ctx, inp):
    from copulas.univariate import GaussianKDE
    orig = np.asarray(inp['X'], dtype=float)
    X = orig.copy()
    w = None if inp['weights'] is None else np.asarray(inp['weights'], dtype=float)
    m = GaussianKDE(bw_method=inp['bw_method'], weights=w)
    m.fit(X)
    _, h, _ = np_kernel_estimate(orig, inp['bw_method'], w, [0.0])
    r = random.Random(len(orig))
    probes = np.array([float(orig[r.randrange(len(orig))]) + r.uniform(-3, 3) * h for _ in range(6)])
    d0 = np.asarray(m.probability_density(probes), dtype=float).copy()
    c0 = np.asarray(m.cumulative_distribution(probes), dtype=float).copy()
    X[:] = np.asarray(inp['X_overwrite'], dtype=float)          # the caller reuses its buffer, in place
    d1 = np.asarray(m.probability_density(probes), dtype=float)
    c1 = np.asarray(m.cumulative_distribution(probes), dtype=float)
    _, _, want = np_kernel_estimate(orig, inp['bw_method'], w, probes)
    ok = np.array_equal(d0, d1) and np.array_equal(c0, c1) and all(close(a, b, 1e-9, 1e-290) for a, b in zip(d1, want))
    if not ok:
        ctx.fail_input('GaussianKDE.probability_density', inp,
                       {'probes': probes.tolist(), 'density_before': d0.tolist(), 'density_after_overwrite': d1.tolist(),
                        'cdf_before': c0.tolist(), 'cdf_after_overwrite': c1.tolist()},
                       f'density unchanged (bitwise) after the caller overwrites the training array in place, and equal to the '
                       f'kernel estimate of the ORIGINAL training data {want.tolist()}', 'GaussianKDE.fit:model-aliases-caller-array')
    return 1


def binom_tail(passes, n_cell):
    """P(Bin(N, 0.8) <= passes): the cell is a violation iff this is <= DELTA"""
    return float(stats.binom.cdf(passes, n_cell, 0.8))


def search(ctx, deep, seed=None):
    """deep=False (quick tier): only the deterministic oracles (exactness, support of the bounded families on a few
    fits).  deep=True: + the statistical C04 experiment."""
    seed = ctx.seed if seed is None else seed
    checked = exact_oracles(ctx, deep, seed)
    ns = [200, 1000, 5000] if deep else [200]
    cells = {}
    # --- every dataset: closed form + own optimiser
    for family in ('gaussian', 'uniform', 'truncated'):
        design = fixed_design(family, 16 if deep else 6)
        for n in ns:
            for idx, p in enumerate(design):
                X = draw(seed, family, idx, n, p)
                res = dkw_eval(family, p, X)
                checked += 1
                ctx.count(f'{"dkw" if deep else "support"}.{family}.n={n}')
                cls = CLASS_OF[family]
                inp = {'family': family, 'design_index': idx, 'params': p, 'n': n, 'seed': seed, 'ctor': res['ctor']}
                if res.get('exc'):
                    ctx.fail_input(f'{cls}.fit', inp, res['exc'], 'fit and cdf succeed on a sample of the family', f'{cls}.fit:raises')
                    continue
                if res.get('support'):
                    ctx.fail_input(f'{cls}.fit', inp, res['support'][1], 'no mass outside the fitted support / user bounds honoured',
                                   f'{cls}.fit:{res["support"][0]}')
                if not deep:
                    continue
                if not res['ok']:
                    key = f'{cls}.fit:dkw'
                    if family == 'truncated' and res.get('params'):
                        mn, mx = res['model'].min, res['model'].max
                        if float(res['params']['scale']) >= (1 - 1e-6) * (mx - mn) ** 2:
                            key += ':scale-at-squared-range-cap'
                    ctx.fail_input(f'{cls}.fit', inp, {k: res.get(k) for k in ('d_true', 'd_emp', 'band', 'params')},
                                   'sup|F_fit-F_true| <= 2 eps_n and sup|F_fit-ECDF| <= 3 eps_n for EVERY dataset', key)
                cells.setdefault(f'{family}/n={n}', [0, 0])
                cells[f'{family}/n={n}'][0] += 1
                cells[f'{family}/n={n}'][1] += bool(res['ok'])
    checked += trunc_zero_bounds_oracle(ctx, seed, deep)
    checked += beta_unit_width_oracle(ctx, seed, deep)
    checked += beta_u_shaped_oracle(ctx, seed, deep)
    checked += kde_alias_oracle(ctx, seed, deep)
    c_, large_stats = trunc_large_scale_oracle(ctx, seed, deep)
    checked += c_
    checked += trunc_bound_forms_oracle(ctx, seed, deep)
    checked += kde_resample_oracle(ctx, seed, deep)
    checked += large_offset_oracle(ctx, seed, deep)
    checked += size_sweep_oracle(ctx, seed, deep)
    checked += heavy_t_oracle(ctx, seed, deep)
    checked += stored_form_oracle(ctx, seed, deep)
    checked += models_alive_oracle(ctx, seed, deep)
    checked += wrapper_route_oracle(ctx, seed, deep)
    checked += state_oracle(ctx, seed, deep)
    # --- bounded scipy-MLE family: support of the fitted Beta (deterministic)
    if not deep:
        for idx, p in enumerate(fixed_design('beta', 4)):
            res = dkw_eval('beta', p, draw(seed, 'beta', idx, 200, p))
            checked += 1
            ctx.count('support.beta.n=200')
            if res.get('support'):
                ctx.fail_input('BetaUnivariate.fit', {'family': 'beta', 'design_index': idx, 'params': p, 'n': 200, 'seed': seed},
                               res['support'][1], 'no mass outside the fitted support', f'BetaUnivariate.fit:{res["support"][0]}')
        ctx.support = {'oracle_checks': checked, 'deep': False, 'note': 'quick tier: deterministic oracles only (exact estimators, '
                       'param maps, KDE density, supports); the statistical experiment runs in the thorough tier',
                       'truncated large-scale asymmetric': large_stats, 'failures': len(ctx.failing)}
        return
    ka, kf = kde_dkw(ctx, seed, deep, ns)
    checked += ka
    # --- >= 80 % of the datasets of a cell: scipy generic MLE
    for family in ('beta', 'beta@unit', 'beta@U-shaped', 'gamma', 'studentT', 'logLaplace@origin', 'logLaplace'):
        design = fixed_design(family, 40)
        for n in ns:
            passed, worst = 0, []
            for idx, p in enumerate(design):
                res = dkw_eval(family, p, draw(seed, family, idx, n, p), rule='cell')
                checked += 1
                passed += bool(res['ok'])
                cls = CLASS_OF[family]
                if res.get('support'):
                    ctx.fail_input(f'{cls}.fit', {'family': family, 'design_index': idx, 'params': p, 'n': n, 'seed': seed},
                                   res['support'][1], 'no mass outside the fitted support', f'{cls}.fit:{res["support"][0]}')
                if not res['ok']:
                    worst.append({'design_index': idx, 'params': p, 'd_true': res.get('d_true'), 'd_emp': res.get('d_emp'),
                                  'fitted': res.get('params'), 'exc': res.get('exc')})
            cells[f'{family}/n={n}'] = [len(design), passed]
            ctx.count(f'dkw.{family}.n={n}', len(design))
            tail = binom_tail(passed, len(design))
            shifted = family == 'logLaplace'
            # LogLaplace on shifted data: plain 80 % rule under its own (recorded) class; every other cell: the population
            # pass rate is < 80 % with false-alarm probability <= DELTA (exact binomial tail)
            if (passed < 0.8 * len(design)) if shifted else (tail <= DELTA):
                key = f'{CLASS_OF[family]}.fit:dkw-80%' + (':shifted-data' if shifted else '') + \
                    (':data-inside-unit-interval' if family == 'beta@unit' else '') + \
                    (':U-shaped' if family == 'beta@U-shaped' else '')
                ctx.fail_input(f'{CLASS_OF[family]}.fit', {'family': family, 'n': n, 'seed': seed, 'datasets': len(design)},
                               {'passed': passed, 'of': len(design), 'binomial_tail': tail, 'band': band_d(n), 'failing': worst[:6]},
                               'fitted CDF within the DKW band of the generating and empirical CDF for >= 80 % of the datasets of '
                               'the cell', key)
    ctx.support = {'oracle_checks': checked, 'deep': deep, 'delta': DELTA, 'rule': SEARCH_RULE,
                   'cells(passed/of)': {k: f'{v[1]}/{v[0]}' for k, v in sorted(cells.items())},
                   'kde(passed/of)': f'{ka - kf}/{ka}', 'truncated large-scale asymmetric': large_stats,
                   'failures': len(ctx.failing)}


def replay(ctx, payload):
    cls = payload.get('class', '')
    inp = payload.get('input', {})
    before = len(ctx.failing)
    if cls == 'GaussianKDE.fit:resample-not-from-requested-estimate' and 'np_random_seed' in inp:
        kde_resample_one(ctx, inp)
    elif cls == 'GaussianKDE.fit:model-aliases-caller-array' and 'X_overwrite' in inp:
        kde_alias_one(ctx, inp)
    elif cls.startswith('GaussianKDE.fit:') and 'X' in inp:
        kde_oracle_one(ctx, inp)
    elif 'X' in inp and cls.split(':')[0] in ('GaussianUnivariate.fit', 'UniformUnivariate.fit'):
        closed_oracle_one(ctx, np.asarray(inp['X'], dtype=float))
    else:
        search(ctx, True, seed=inp.get('seed', payload.get('seed', 0)))
    return any(f['class'] == cls for f in ctx.failing[before:])
