"""C02 — Fitted Gaussian-copula correlation is a valid, correctly computed matrix."""
import hashlib
import math
import warnings

import numpy as np
import pandas as pd

import vcommon as vc

warnings.filterwarnings('ignore')

GEN_TARGETS = ('Tables',)
DRIVER_MAIN = 'Main/Pearson.lean'
DRIVER_TARGETS = ['CopVerif.Driver.Pearson']
ALWAYS_SEARCH = True
RULE = ('[table-size sweep n = 1024, 1025, 2049, 4097, 1500 x 3 columns under Gaussian / Uniform marginals (fixed '
        'probes in search)] [smallest legal tables: exactly 2 and 3 rows x 2-4 non-constant columns under every marginal configuration '
        '(fixed probes in search)] [input forms: every third tie table and 25% of search tables are given to fit as list of rows / Fortran / '
        'strided / read-only ndarray or a frame with Datetime / string / offset / shuffled row index (search also 1-d, '
        '(n,1), Series, single-column frame) and compared with the plain DataFrame / ndarray of the same values; object '
        'states: every search table is also examined restored through from_dict (both routes), save/load and as a '
        'get_instance clone] ''tables of 2-6 columns x 20-300 rows: 1-3 base columns (normal / uniform / gamma / beta / bimodal / '
        'integer-valued, random location and scale 1e-3..1e3) plus derived columns: exact duplicate, sign flip, '
        'affine image a*x+b, sum of two columns, constant, near-constant (c*(1+1e-9 noise) or constant except '
        '1-2 rows), noisy copy; column labels are shuffled strings or ints; crossed with every marginal '
        'a quarter of the tables are stored in narrow / mixed dtypes (float32, float16, int8/16/32, uint8, one float32 '
        'column beside float64) and a column kind puts 1-3 observations at +4.5..+5.1 fitted sd; '
        'configuration form: class, qualified-name string, instance, per-column dict (complete / partial), '
        'default Univariate (sparingly) over Gaussian/Beta/Gamma/Uniform/GaussianKDE; every third table is fitted on '
        'an estimator instance that was fitted before on 1-2 other tables of the same width (refit history: same labels, '
        'renamed labels, all arrays, DataFrame(named or permuted int labels) -> ndarray, ndarray -> DataFrame).  '
        'Per table the model is '
        'fitted with np.linalg.cond wrapped by a recorder; the driver receives the real normal scores and the '
        'recorded cond value.  A case is distinct by (configuration, table digest) and non-trivial when the table '
        'has at least one derived (dependent / constant / near-constant) column')
PARTIAL = ['finite: proved on any carrier (incl. Float) only GIVEN the IEEE facts bundled in Pearson.UnitFinite '
           '(Props/C02b.entry_unit_form / entry_finite); for binary64 itself tie + search only',
           'unit diagonal is proved for every non-constant SCORE column (pearson_diag_one), exactly characterised for '
           'raw columns (C02b.diag_raw_exact / diag_one_raw_iff; sufficient conditions diag_one_raw_partial, '
           'C02b.diag_one_raw, diag_one_raw_of_separating, diag_one_raw_of_straddle); for arbitrary fitted marginals the '
           'raw-column reading is false (diag_one_raw_counterexample; finding '
           'fit:diag-nonconstant-column:scores-constant)',
           'sampling and density evaluation still work after regularisation: over the reals the ridged matrix has '
           'det > 0, a Cholesky factor and a defined textbook density (C02b.ridge_density_defined); that scipy/numpy '
           'multivariate normal do not raise / return no NaN is search only',
           'np.linalg.cond is an external symbol: the ridge decision is proved as a function of its value; that a '
           'numerically singular matrix has cond > 2^52 is numpy behaviour, observed in the tie',
           'storage dtype of the training table: the theorems are about real / binary64 scores; narrow dtypes '
           '(float32, float16, int8 ...) are covered by tie + search only: entries are the Pearson correlation of the '
           'scores of the marginal CDF as the library evaluates it on the stored values (deviation from a float64 '
           're-evaluation is counted, not a failure); degenerate marginal fits that exist only in narrow storage are '
           'findings keyed by cause: fit:integer-dtype-wraparound-in-range:*, fit:narrow-float-overflow-in-moments:*, '
           'fit:narrow-float-underflow-in-moments:*, fit:narrow-float-nonfinite-scipy-mle:*']
ASSUMPTIONS = ['real-number semantics of binary64 formulas (DESIGN 3.1)',
               'pandas DataFrame.corr() (method=pearson) = libalgos.nancorr = Model.pearson; validated bit-for-bit '
               'every run (obligation corr:pandas-corr)',
               'scipy.stats.norm.ppf and the fitted marginal cdfs are arbitrary external functions in the theorems',
               'np.linalg.cond value is recorded from the real call during fit']

ATOL = 1e-12
BASE_CLASSES = ('GaussianUnivariate', 'BetaUnivariate', 'GammaUnivariate', 'UniformUnivariate', 'GaussianKDE')
FQN = {'GaussianUnivariate': 'copulas.univariate.gaussian.GaussianUnivariate',
       'BetaUnivariate': 'copulas.univariate.beta.BetaUnivariate',
       'GammaUnivariate': 'copulas.univariate.gamma.GammaUnivariate',
       'UniformUnivariate': 'copulas.univariate.uniform.UniformUnivariate',
       'GaussianKDE': 'copulas.univariate.gaussian_kde.GaussianKDE',
       'Univariate': 'copulas.univariate.base.Univariate'}


# ------------------------------------------------------------------------------------------ generators
def _base_column(rng, nr, n):
    kind = rng.choice(['normal', 'uniform', 'gamma', 'beta', 'bimodal', 'ints'])
    if kind == 'normal':
        x = nr.randn(n)
    elif kind == 'uniform':
        x = nr.rand(n)
    elif kind == 'gamma':
        x = nr.gamma(rng.choice([0.7, 2.0, 6.0]), 1.0, size=n)
    elif kind == 'beta':
        x = nr.beta(rng.choice([0.6, 2.0]), rng.choice([0.8, 3.0]), size=n)
    elif kind == 'bimodal':
        x = np.where(nr.rand(n) < 0.4, nr.randn(n) - 3, nr.randn(n) * 0.5 + 2)
    else:
        x = nr.randint(0, rng.choice([2, 3, 10]), size=n).astype(float)
        if np.all(x == x[0]):
            x[0] += 1.0
    scale = 10.0 ** rng.choice([-3, -1, 0, 0, 0, 1, 3])
    loc = rng.choice([0.0, 0.0, 1.0, -5.0, 100.0]) * scale
    return kind, x * scale + loc


def _standardised(nr, src):
    sd = float(np.std(src))
    if not sd > 0 or not np.isfinite(sd):
        return nr.randn(len(src))
    return (src - float(np.mean(src))) / sd


def tiny_spread_column(rng, nr, src):
    """NON-constant column whose spread is tiny relative to its magnitude (or tiny in absolute terms):
    epoch timestamps within hours, level 1000 + 1e-3*y, readings in 1e-9 units, large serial numbers."""
    n = len(src)
    z = 0.8 * _standardised(nr, src) + 0.6 * nr.randn(n)
    kind = rng.choice(['epoch', 'level', 'nano', 'serial'])
    if kind == 'epoch':
        x = 1.7e9 + np.round(3 * 3600 * (0.5 + 0.2 * z))
    elif kind == 'level':
        x = 1000.0 + 1e-3 * z
    elif kind == 'nano':
        x = 1e-9 * (3.0 + z)
    else:
        x = 5e8 + 3.0 * np.argsort(np.argsort(z))
    x = np.asarray(x, dtype=float)
    if len(np.unique(x)) < 2:
        x[0] = np.nextafter(x[0], np.inf)
    return x


def outlier_column(rng, nr, src):
    """roughly normal column (correlated with src) with ONE far-tail observation at 5.3 - 7.5 FITTED standard
    deviations (needs n > z^2; for small n the largest reachable z is used)."""
    n = len(src)
    y = 0.7 * _standardised(nr, src) + 0.7 * nr.randn(n)
    y = (y - y.mean()) / y.std()
    zmax = 0.93 * (n - 1) / math.sqrt(n)
    z = min(rng.uniform(5.4, 7.5), zmax)
    k = z / math.sqrt(max(1e-9, 1.0 - z * z / n))          # raw offset giving fitted z-score ~ z
    y[rng.randrange(n)] = k if rng.random() < 0.5 else -k
    a = rng.choice([1.0, 2.0, 100.0, 0.01])
    b = rng.choice([0.0, 10.0, -3.0])
    return a * y + b


def upper_tail_column(rng, nr, src):
    """roughly normal column (correlated with src) with 1-3 observations at +4.5 ... +5.1 FITTED standard deviations:
    far in the upper tail but still inside the clip bounds (cdf in (1 - 4e-6, 1 - 1.2e-7))."""
    n = len(src)
    y = 0.6 * _standardised(nr, src) + 0.8 * nr.randn(n)
    y = (y - y.mean()) / y.std()
    m = rng.choice([1, 2, 3])
    zmax = 0.9 * (n - 1) / math.sqrt(n) / math.sqrt(m)
    rows = rng.sample(range(n), m)
    for r in rows:
        z = min(rng.uniform(4.5, 5.1), zmax)
        y[r] = z / math.sqrt(max(1e-9, 1.0 - m * z * z / n))
    a = rng.choice([1.0, 3.0, 10.0])
    b = rng.choice([0.0, 20.0, -3.0])
    return a * y + b


NARROW_DTYPES = ('float32', 'float16', 'int8', 'int16', 'int32', 'uint8')
_INT_SCALE = {'int8': (18.0, 0.0), 'uint8': (18.0, 110.0), 'int16': (1500.0, 0.0), 'int32': (1e5, 0.0)}


def cast_column(c, dt):
    """the column as it would be STORED with dtype `dt` (integers: standardised, scaled into the range, rounded)."""
    c = np.asarray(c, dtype=float)
    if dt in ('float64', 'int64'):
        return c if dt == 'float64' else np.round(c).astype('int64')
    if dt in ('float32', 'float16'):
        if dt == 'float16' and np.max(np.abs(c)) > 6e4:          # float16 overflows at 65504
            c = c / (np.max(np.abs(c)) / 1e3)
        return c.astype(dt)
    s, off = _INT_SCALE[dt]
    sd = float(np.std(c))
    if not sd > 0:
        v = np.full(len(c), off + float(np.clip(np.round(c[0]), -100, 100)))
    else:
        v = np.round((c - float(np.mean(c))) / sd * s + off)
    info = np.iinfo(dt)
    return np.clip(v, info.min, info.max).astype(dt)


def gen_dtypes(rng, k):
    """storage dtypes of the training table: one narrow dtype for the whole table, or a mixed frame."""
    r = rng.random()
    if r < 0.6:
        return [rng.choice(NARROW_DTYPES)] * k
    if r < 0.8:                                                 # one float32 column beside float64
        d = ['float64'] * k
        d[rng.randrange(k)] = 'float32'
        return d
    return [rng.choice(('float64', 'int64') + NARROW_DTYPES) for _ in range(k)]


def dtype_names(cols):
    return [str(np.asarray(c).dtype) for c in cols]


def gen_table(rng, nr, quick_rows=False):
    """-> (names, dict name -> ndarray, kinds list).  Column order = list order (not sorted)."""
    k = rng.choice([2, 3, 3, 4, 4, 5, 6])
    n = rng.choice([20, 21, 30, 50, 64, 100]) if quick_rows else rng.choice([20, 25, 40, 64, 100, 150, 200, 300])
    nbase = rng.choice([1, 1, 2, 2, 3])
    nbase = min(nbase, k)
    cols, kinds = [], []
    for _ in range(nbase):
        kd, x = _base_column(rng, nr, n)
        cols.append(x)
        kinds.append('base:' + kd)
    while len(cols) < k:
        src = cols[rng.randrange(len(cols))]
        d = rng.choice(['dup', 'neg', 'affine', 'affine', 'sum', 'const', 'const', 'nearconst', 'nearconst',
                        'noisy', 'base', 'tinyspread', 'tinyspread', 'outlier', 'uppertail'])
        if d == 'dup':
            x = src.copy()
        elif d == 'neg':
            x = -src if rng.random() < 0.5 else (float(np.max(src)) + float(np.min(src))) - src
        elif d == 'affine':
            a = rng.choice([2.0, -3.0, 0.5, 1e-3, 7.25, -1.0, 1e3])
            b = rng.choice([0.0, 1.0, -2.5, 100.0])
            x = a * src + b
        elif d == 'sum':
            other = cols[rng.randrange(len(cols))]
            x = src + other
        elif d == 'const':
            x = np.full(n, rng.choice([0.0, 1.0, -3.5, 5.0, 1e6, 0.1]))
        elif d == 'nearconst':
            c = rng.choice([1.0, 5.0, -3.5, 1e3, 0.1])
            if rng.random() < 0.5:
                x = c * (1.0 + 10.0 ** rng.choice([-9, -7, -5]) * nr.randn(n))
            else:
                x = np.full(n, c)
                for _ in range(rng.choice([1, 2])):
                    x[rng.randrange(n)] = c + rng.choice([1.0, -0.5, 1e-6])
        elif d == 'noisy':
            x = src + 10.0 ** rng.choice([-6, -2, 0]) * float(np.std(src) + 1e-12) * nr.randn(n)
        elif d == 'tinyspread':
            x = tiny_spread_column(rng, nr, src)
        elif d == 'outlier':
            x = outlier_column(rng, nr, src)
        elif d == 'uppertail':
            x = upper_tail_column(rng, nr, src)
        else:
            kd, x = _base_column(rng, nr, n)
            d = 'base:' + kd
        cols.append(np.asarray(x, dtype=float))
        kinds.append(d)
    order = list(range(k))
    rng.shuffle(order)
    cols = [cols[i] for i in order]
    kinds = [kinds[i] for i in order]
    if rng.random() < 0.25:
        names = rng.sample(range(0, 40), k)            # integer labels, unsorted
    else:
        pool = ['a', 'B', 'c3', 'z', 'x_1', 'col', 'y', 'M', 'k9', 'w w', 'é', '0']
        names = rng.sample(pool, k)
    return names, cols, kinds


def gen_config(rng, names, allow_default):
    """-> JSON-able spec.  ('class', N) | ('str', N) | ('inst', N) | ('default',) | ('dict', {label: spec}, partial)"""
    def leaf():
        return [rng.choice(['class', 'str', 'inst']), rng.choice(BASE_CLASSES)]
    r = rng.random()
    if allow_default and r < 0.08:
        return ['default']
    if r < 0.55:
        return leaf()
    d = {}
    partial = allow_default and rng.random() < 0.25
    for i, nm in enumerate(names):
        if partial and i == 0:
            continue                                    # missing -> DEFAULT_DISTRIBUTION (Univariate)
        d[repr(nm)] = leaf()
    return ['dict', d]


def build_config(spec, names):
    import copulas.univariate as U

    def leaf(s):
        form, cname = s
        if form == 'class':
            return getattr(U, cname)
        if form == 'str':
            return FQN[cname]
        return getattr(U, cname)()
    if spec[0] == 'default':
        return None
    if spec[0] == 'dict':
        by = {repr(nm): nm for nm in names}
        return {by[k]: leaf(v) for k, v in spec[1].items()}
    return leaf(spec)


def table_digest(names, cols):
    h = hashlib.sha256(repr(names).encode())
    for c in cols:
        h.update(np.ascontiguousarray(c, dtype='<f8').tobytes())
    return h.hexdigest()[:16]


# ------------------------------------------------------------------------------------------ real code
class CondRecorder:
    """Wraps np.linalg.cond while the real `fit` runs: the value the code under test really got."""

    def __init__(self):
        self.calls = []

    def __enter__(self):
        self.orig = np.linalg.cond

        def rec(x, *a, **kw):
            r = self.orig(x, *a, **kw)
            self.calls.append((np.array(x, dtype=float, copy=True), float(r)))
            return r
        np.linalg.cond = rec
        return self

    def __exit__(self, *a):
        np.linalg.cond = self.orig


def fit_real(names, cols, spec, seed=7, hist=None):
    """Fit the real model.  `hist` = {'tables': [cols_0, ...], 'as_array': bool}: the SAME instance is first fitted
    on the earlier tables (same labels, other data); the recorder only sees the last fit.  With `as_array` every
    fit receives a bare ndarray (labels are then 0..k-1 = `names`).  `hist['form']` = input form of the LAST fit
    (see `apply_form`); the reference is always the plain DataFrame / plain ndarray of the same values."""
    from copulas.multivariate import GaussianMultivariate
    X = pd.DataFrame({nm: c for nm, c in zip(names, cols)}, columns=list(names))
    cfg = build_config(spec, names)
    model = GaussianMultivariate(random_state=seed) if cfg is None else \
        GaussianMultivariate(distribution=cfg, random_state=seed)
    as_array = bool(hist and hist.get('as_array'))
    tables = hist['tables'] if hist else []
    conts = (hist.get('containers') if hist else None) or [None] * len(tables)
    if hist and hist.get('inplace'):
        # ONE container object (DataFrame / ndarray buffer): fit, overwrite some or all columns in place (same shape),
        # fit again on the same model ... ; afterwards ANOTHER model is fitted on the same updated object
        steps = [list(t) for t in tables] + [list(cols)]
        if as_array:
            obj = np.column_stack([np.asarray(c, dtype=float) for c in steps[0]])
        else:
            obj = pd.DataFrame({nm: np.asarray(c, dtype=float).copy() for nm, c in zip(names, steps[0])},
                               columns=list(names))
        with np.errstate(all='ignore'), warnings.catch_warnings():
            warnings.simplefilter('ignore')
            rec = None
            for si, t in enumerate(steps):
                if si > 0:
                    for j, nm in enumerate(names):
                        new = np.asarray(t[j], dtype=float)
                        if np.array_equal(new, np.asarray(steps[si - 1][j], dtype=float)):
                            continue
                        if as_array:
                            obj[:, j] = new
                        elif (si + j) % 2:
                            obj[nm] = new.copy()
                        else:
                            obj.loc[:, nm] = new
                if si == len(steps) - 1:
                    with CondRecorder() as rec:
                        model.fit(obj)
                else:
                    model.fit(obj)
            other = GaussianMultivariate(random_state=seed) if cfg is None else \
                GaussianMultivariate(distribution=build_config(spec, names), random_state=seed)
            other.fit(obj)
            hist['_other_model'] = other
        return X, model, rec.calls
    with np.errstate(all='ignore'), warnings.catch_warnings():
        warnings.simplefilter('ignore')
        for hc, ct in zip(tables, conts):
            # container of an EARLIER fit: None = same as the last fit; {'array': True} = bare ndarray;
            # {'labels': [...]} = DataFrame with these labels
            labels, arr = list(names), as_array
            if ct is not None:
                arr = bool(ct.get('array'))
                labels = list(ct.get('labels') or range(len(hc)))
            H = pd.DataFrame({nm: c for nm, c in zip(labels, hc)}, columns=labels)
            model.fit(H.to_numpy() if arr else H)
        form = (hist.get('form') if hist else None) or ('ndarray' if as_array else 'frame')
        with CondRecorder() as rec:
            model.fit(apply_form(X, form))
    return X, model, rec.calls


# input forms of the training table.  ARRAY forms carry no labels (the columns are 0..k-1); ONE_COLUMN forms need k = 1
ARRAY_FORMS = ('ndarray', '1d-ndarray', 'n1-ndarray', 'list-of-lists', 'fortran', 'strided', 'readonly')
FRAME_FORMS = ('frame', 'series', 'single-column-frame', 'index-datetime', 'index-strings', 'index-offset',
               'index-shuffled')
ONE_COLUMN_FORMS = ('1d-ndarray', 'n1-ndarray', 'series', 'single-column-frame')
MULTI_COLUMN_FORMS = ('list-of-lists', 'fortran', 'strided', 'readonly', 'index-datetime', 'index-strings',
                      'index-offset', 'index-shuffled')


def apply_form(X, form):
    """the same values as the plain DataFrame X (plain ndarray for ARRAY forms) in another container / layout."""
    n, k = X.shape
    if form == 'frame' or form == 'single-column-frame':
        return X
    if form == 'ndarray' or form == 'n1-ndarray':
        return X.to_numpy()
    if form == '1d-ndarray':
        return X.iloc[:, 0].to_numpy()
    if form == 'series':
        return X.iloc[:, 0]
    if form == 'list-of-lists':
        return X.to_numpy().tolist()
    if form == 'fortran':
        return np.asfortranarray(X.to_numpy())
    if form == 'strided':
        a = X.to_numpy()
        big = np.zeros((n, 2 * k), dtype=a.dtype)
        big[:, ::2] = a
        return big[:, ::2]
    if form == 'readonly':
        a = np.array(X.to_numpy(), copy=True)
        a.setflags(write=False)
        return a
    if form == 'index-datetime':
        return X.set_axis(pd.date_range('2020-01-01', periods=n, freq='h'), axis=0)
    if form == 'index-strings':
        return X.set_axis([f'r{i}' for i in range(n)], axis=0)
    if form == 'index-offset':
        return X.set_axis(list(range(1000, 1000 + n)), axis=0)
    if form == 'index-shuffled':
        return X.set_axis(list(np.random.RandomState(n).permutation(n)), axis=0)
    raise ValueError(form)


def gen_form(rng, names, cols, spec, form=None):
    """-> (names, cols, spec, hist) for the same table given to `fit` in another input form."""
    judged = [f for f in MULTI_COLUMN_FORMS if f != 'list-of-lists']
    form = form or rng.choice(list(ONE_COLUMN_FORMS) + judged + judged)
    if form in ONE_COLUMN_FORMS:
        j = rng.randrange(len(names))
        spec = restrict_config(spec, [names[j]])
        names, cols = [names[j]], [cols[j]]
    if form in ARRAY_FORMS:
        spec = remap_config(spec, names, list(range(len(names))))
        names = list(range(len(names)))
    return names, cols, spec, {'tables': [], 'as_array': form in ARRAY_FORMS, 'form': form}


def remap_config(spec, old, new):
    """per-column dict keyed by the labels the LAST input implies."""
    if spec[0] != 'dict':
        return spec
    m = {repr(o): repr(n) for o, n in zip(old, new)}
    return ['dict', {m[k]: v for k, v in spec[1].items() if k in m}]


HISTORY_VARIANTS = ('frames-same', 'frames-renamed', 'arrays', 'named->array', 'intperm->array', 'array->named',
                    'inplace-frame', 'inplace-array')


def gen_mixed_history(rng, nr, names, spec, variant=None, cols=None):
    """-> (names, spec, hist, variant): the estimator instance was fitted before on 1-2 tables of the same width in
    the SAME or ANOTHER container (DataFrame with the same / other / permuted-integer labels, bare ndarray); when the
    last input is a bare array its labels are 0..k-1 and a per-column dict is re-keyed by position."""
    k = len(names)
    variant = variant or rng.choice(HISTORY_VARIANTS)
    if variant.startswith('inplace'):
        if cols is None or set(dtype_names(cols)) != {'float64'}:
            variant = 'frames-same'
        else:
            # buffer reuse: the caller keeps ONE DataFrame / ndarray, fits, overwrites some or all columns in place
            # (same shape) and fits again; the earlier contents differ from the last in a random subset of columns
            n = len(cols[0])
            tables = []
            for _ in range(rng.choice([1, 1, 2])):
                changed = set(rng.sample(range(k), rng.choice([1, k]) if k > 1 else 1))
                tables.append([_base_column(rng, nr, n)[1] if j in changed else np.array(cols[j], dtype=float)
                               for j in range(k)])
            last_array = variant == 'inplace-array'
            if last_array:
                spec = remap_config(spec, names, list(range(k)))
                names = list(range(k))
            return names, spec, {'tables': tables, 'as_array': last_array, 'containers': None, 'inplace': True}, variant
    tables = [gen_history(rng, nr, names) for _ in range(rng.choice([1, 1, 2]))]
    pool = ['height', 'weight', 'age', 'q', 'R', 's_2', 'tt', 'v']
    if variant == 'frames-same':
        conts, last_array = [None] * len(tables), False
    elif variant == 'frames-renamed':
        conts, last_array = [{'labels': rng.sample(pool, k)} for _ in tables], False
    elif variant == 'arrays':
        conts, last_array = [None] * len(tables), True
    elif variant == 'named->array':
        conts, last_array = [{'labels': rng.sample(pool, k)} for _ in tables], True
    elif variant == 'intperm->array':
        perm = list(range(k))
        while perm == list(range(k)):
            rng.shuffle(perm)
        conts, last_array = [{'labels': list(perm)} for _ in tables], True
    else:
        conts, last_array = [{'array': True} for _ in tables], False
    if last_array:
        spec = remap_config(spec, names, list(range(k)))
        names = list(range(k))
    return names, spec, {'tables': tables, 'as_array': last_array, 'containers': conts}, variant


def gen_history(rng, nr, names):
    """an earlier table with the same labels: other data, other marginal shapes, other number of rows."""
    n = rng.choice([20, 30, 50, 80])
    return [_base_column(rng, nr, n)[1] for _ in names]


def bits_equal(a, b):
    a = np.ascontiguousarray(a, dtype='<f8')
    b = np.ascontiguousarray(b, dtype='<f8')
    if a.shape != b.shape:
        return False
    ia, ib = a.view('<u8'), b.view('<u8')
    return bool(np.all((ia == ib) | (np.isnan(a) & np.isnan(b))))


def first_diff(A, B, atol):
    """first entry with |Δ| > atol (NaN equal to NaN) or None."""
    A, B = np.asarray(A, dtype=float), np.asarray(B, dtype=float)
    if A.shape != B.shape:
        return f'shape {A.shape} vs {B.shape}'
    for idx in np.ndindex(A.shape):
        a, b = float(A[idx]), float(B[idx])
        if (a != a) or (b != b):
            if (a != a) != (b != b):
                return f'{idx}: {a!r} vs {b!r}'
            continue
        if math.isinf(a) or math.isinf(b):
            if a != b:
                return f'{idx}: {a!r} vs {b!r}'
            continue
        if abs(a - b) > atol:
            return f'{idx}: {a!r} vs {b!r}'
    return None


def lean_matrix(lean, op, S, cond=None):
    """scores S (n x k ndarray) -> driver reply parsed."""
    n, k = S.shape
    flat = ' '.join(vc.f2h(v) for j in range(k) for v in S[:, j])
    if op == 'corr':
        r = lean.ask(f'gc corr {k} {n} {vc.f2h(cond)} {flat}')
        ws = r.split()
        if not ws or ws[0] != 'ok' or len(ws) != 2 + 2 * k + k * k or int(ws[1]) != k:
            return None, r[:120]
        idx = [int(w) for w in ws[2:2 + k]]
        cl = [int(w) for w in ws[2 + k:2 + 2 * k]]
        M = np.array([vc.h2f(w) for w in ws[2 + 2 * k:]], dtype=float).reshape(k, k)
        return (idx, cl, M), None
    r = lean.ask(f'gc pearson {k} {n} {flat}')
    ws = r.split()
    if not ws or ws[0] != 'ok' or len(ws) != 1 + k * k:
        return None, r[:120]
    return np.array([vc.h2f(w) for w in ws[1:]], dtype=float).reshape(k, k), None


# ------------------------------------------------------------------------------------------ tie
def run(ctx, lean):
    names_ob = ['corr:bounds', 'corr:clip', 'corr:scores', 'corr:pandas-corr', 'corr:pre-ridge',
                'corr:cond-recorded', 'corr:correlation', 'corr:to_dict', 'corr:labels', 'corr:refit-equals-fresh']
    if lean is None:
        for nm in names_ob:
            ctx.ob(nm, False, 'tie', 'driver unavailable')
        return
    from scipy import stats
    bad = {nm: None for nm in names_ob}

    def fail(nm, detail):
        if bad[nm] is None:
            bad[nm] = detail

    # generated constants as the driver sees them
    st, b = lean.floats('gc bounds')
    if st != 'ok' or len(b) != 5:
        for nm in names_ob:
            ctx.ob(nm, False, 'tie', f'driver bounds: {b}')
        return
    lo, hi, nanrep, thr, ridge = b
    # the generated constants must be of the kind the property speaks about; their exact values are validated
    # behaviourally below (scores bit-equality uses lo/hi, the final matrix uses thr/ridge/nanrep)
    if not (0.0 < lo <= 1e-6 and 1 - 1e-6 <= hi < 1.0 and nanrep == 0.0 and 1e10 <= thr < float('inf')
            and 0.0 < ridge <= 1e-6):
        fail('corr:bounds', {'driver': b, 'required': 'clip bounds strictly inside (0,1) within 1e-6 of the ends, '
                             'nan replacement 0, finite threshold >= 1e10, ridge in (0, 1e-6]'})
    ctx.case(('bounds',), nontrivial=True)

    rng = ctx.rng('tie')
    nr = ctx.nprng('tie')
    ntables = 60 * ctx.scale
    ndefault = 0
    bit_tot = bit_eq = 0
    for t in range(ntables):
        names, cols, kinds = gen_table(rng, nr, quick_rows=(ctx.scale == 1 and t % 3 != 0))
        if t % 4 == 2:                       # the training table is stored in narrow / mixed dtypes
            cols = [cast_column(c, dt) for c, dt in zip(cols, gen_dtypes(rng, len(cols)))]
        for dt in sorted(set(dtype_names(cols))):
            ctx.count('dtype:' + dt)
        allow_default = ndefault < 2 * ctx.scale and len(names) <= 3
        spec = gen_config(rng, names, allow_default)
        if spec[0] == 'default' or (spec[0] == 'dict' and len(spec[1]) < len(names)):
            ndefault += 1
        key = (repr(spec), table_digest(names, cols))
        derived = [kd for kd in kinds if not kd.startswith('base')]
        ctx.case(key, nontrivial=bool(derived))
        ctx.count('cfg:' + spec[0] + ('' if spec[0] in ('default', 'dict') else ':' + spec[1]))
        for kd in kinds:
            ctx.count('col:' + kd.split(':')[0])
        # every third table: the SAME estimator instance was fitted before on other tables of the same width, in
        # the same or another container (mixed DataFrame / ndarray histories included)
        hist = None
        if t % 3 == 1:
            names, spec, hist, variant = gen_mixed_history(rng, nr, names, spec, cols=cols)
            ctx.count('history:' + variant)
        elif t % 3 == 2:                     # the same table in another container / layout / row index
            names, cols, spec, hist = gen_form(rng, names, cols, spec,
                                               rng.choice([f for f in MULTI_COLUMN_FORMS if f != 'list-of-lists']))
            ctx.count('form:' + hist['form'])
        else:
            ctx.count('history:first-fit')
        inp = {'names': names, 'kinds': kinds, 'config': spec, 'n': len(cols[0])}
        if set(dtype_names(cols)) != {'float64'}:
            inp['dtypes'] = dtype_names(cols)
        if hist is not None:
            inp['refit_history'] = {'rows': [len(h[0]) for h in hist['tables']], 'containers': hist.get('containers'),
                                    'last_is_array': hist['as_array'], 'form': hist.get('form')}
        try:
            X, model, calls = fit_real(names, cols, spec, hist=hist)
        except Exception as e:  # noqa: a fit that raises is not a correspondence question (see search)
            ctx.count('fit:raises:' + type(e).__name__)
            continue
        if hist is not None:
            try:
                _, fresh, _ = fit_real(names, cols, spec, hist={'tables': [], 'as_array': hist['as_array']})
                d = first_diff(fresh.correlation.to_numpy(), model.correlation.to_numpy(), ATOL)
                if d:
                    fail('corr:refit-equals-fresh', dict(inp, diff='fresh instance vs refitted instance ' + d))
                lf, lm = labels_of(fresh), labels_of(model)
                if lf != lm:
                    fail('corr:refit-equals-fresh', dict(inp, diff=f'labels: fresh {lf!r} vs refitted {lm!r}'))
            except Exception as e:  # noqa
                fail('corr:refit-equals-fresh', dict(inp, diff=f'fresh fit raises {type(e).__name__}'))
        k, n = len(names), len(cols[0])
        # --- scores: cdf -> clip(generated bounds) -> norm.ppf, bit-equal with _transform_to_normal
        try:
            with np.errstate(all='ignore'):
                S = np.asarray(model._transform_to_normal(X), dtype=float)
                Us = [np.asarray(u.cdf(X.iloc[:, i].to_numpy()), dtype=float) for i, u in enumerate(model.univariates)]
                S2 = stats.norm.ppf(np.column_stack([np.clip(u, lo, hi) for u in Us]))
        except Exception as e:  # noqa
            fail('corr:scores', dict(inp, diff=f'_transform_to_normal(training table) raises {type(e).__name__}: '
                                                f'{str(e)[:80]}'))
            continue
        if not bits_equal(S, S2):
            d = first_diff(S, S2, 0.0)
            fail('corr:scores', dict(inp, diff=d))
        # driver's clip on one column of cdf values plus the edge values
        u0 = list(Us[t % k][:40]) + [0.0, 1.0, lo, hi, lo / 2, 1 - lo / 4, -1.0, 2.0, 0.5]
        stc, cl = lean.floats('gc clip ' + ' '.join(vc.f2h(v) for v in u0))
        if stc != 'ok' or not bits_equal(np.array(cl), np.asarray(u0, dtype=float).clip(lo, hi)):
            fail('corr:clip', dict(inp, u=u0[:5], driver=str(cl)[:100]))
        if S.shape != (n, k):
            fail('corr:scores', dict(inp, diff=f'shape {S.shape}'))
            continue
        ctx.count('scores:nan' if np.isnan(S).any() else 'scores:finite')
        # --- pandas corr == Model.pearson  (NaN pattern included)
        P, err = lean_matrix(lean, 'pearson', S)
        if P is None:
            fail('corr:pandas-corr', dict(inp, driver=err))
            continue
        with np.errstate(all='ignore'):
            Ppd = pd.DataFrame(S).corr().to_numpy()
        d = first_diff(Ppd, P, ATOL)
        if d:
            fail('corr:pandas-corr', dict(inp, diff='pandas vs model ' + d))
        bit_tot += k * k
        bit_eq += int(np.sum((Ppd == P) | (np.isnan(Ppd) & np.isnan(P))))
        ctx.count('pearson:nan-entries', int(np.isnan(P).sum()))
        # --- recorded cond
        if len(calls) != 1:
            fail('corr:cond-recorded', dict(inp, calls=len(calls)))
            continue
        pre_real, cond = calls[0]
        pre, err = lean_matrix(lean, 'corr', S, 0.0)
        if pre is None:
            fail('corr:pre-ridge', dict(inp, driver=err))
            continue
        d = first_diff(pre_real, pre[2], ATOL)
        if d:
            fail('corr:pre-ridge', dict(inp, diff='argument of np.linalg.cond vs model ' + d))
        ctx.count('ridge:applied' if cond > thr else 'ridge:not-applied')
        if thr / 16 < cond < thr * 16:
            ctx.count('ridge:cond-near-threshold')
        # --- final matrix
        out, err = lean_matrix(lean, 'corr', S, cond)
        if out is None:
            fail('corr:correlation', dict(inp, driver=err))
            continue
        idx, cl_ids, M = out
        C = model.correlation.to_numpy()
        d = first_diff(C, M, ATOL)
        if d:
            fail('corr:correlation', dict(inp, cond=cond, diff='real vs model ' + d))
        dct = model.to_dict()
        d = first_diff(np.array(dct['correlation'], dtype=float), M, ATOL)
        if d:
            fail('corr:to_dict', dict(inp, cond=cond, diff='to_dict vs model ' + d))
        # --- labels
        want = list(names)
        got = {'model.index': [want[i] for i in idx], 'model.columns': [want[i] for i in cl_ids],
               'real.index': list(model.correlation.index), 'real.columns': list(model.correlation.columns),
               'real.self.columns': list(model.columns), 'to_dict.columns': list(dct['columns'])}
        for nm, v in got.items():
            if v != want or [type(a) for a in v] != [type(a) for a in want]:
                fail('corr:labels', dict(inp, which=nm, got=repr(v), want=repr(want)))
        if t < 4:
            ctx.sample({'names': names, 'kinds': kinds, 'config': spec, 'n': n, 'cond': cond,
                        'correlation_row0': C[0].tolist()})
    ctx.count('pearson:entries', bit_tot)
    ctx.count('pearson:bit-identical', bit_eq)
    for nm in names_ob:
        ctx.ob(nm, bad[nm] is None, 'tie', bad[nm] or 'ok')


# ------------------------------------------------------------------------------------------ oracle
RIDGE_TOL = 1e-6       # "up to a regularisation ridge of order 1e-7"


DTYPE_PRIORITY = ('float16', 'int8', 'uint8', 'int16', 'int32', 'float32')
NOTE_NATIVE = 'note:narrow-dtype:matches-native-not-float64'


def storage_cause(u, col):
    """Why the marginal fitted to a column stored in a narrow dtype is degenerate, as a class key
    `fit:<cause>:<fitted family>`, or None.  Causes (all absent when the same values are stored as float64):
    * integer-dtype-wraparound-in-range: `np.max(X) - np.min(X)` evaluated in the column's signed integer dtype wraps
      (span > dtype max): the fitted scale is not max - min;
    * narrow-float-overflow-in-moments / narrow-float-underflow-in-moments: `np.mean` / `np.std` (`X.mean()`,
      `X.std()`) evaluated in float16 / float32 overflow to inf (nan) / underflow to 0 for a non-constant column;
    * narrow-float-nonfinite-scipy-mle: scipy's generic MLE run on float16 / float32 data returns a non-finite shape."""
    inst = getattr(u, '_instance', None) or u
    fam = type(inst).__name__
    params = getattr(inst, '_params', None)
    if not isinstance(params, dict):
        return None
    col = np.asarray(col)
    dt = col.dtype
    nonconst = len(np.unique(col)) > 1

    def num(k):
        try:
            return float(params[k])
        except Exception:  # noqa
            return None
    if dt.kind == 'i' and dt.itemsize < 8 and fam == 'UniformUnivariate' and nonconst:
        true_span = float(col.max()) - float(col.min())
        if num('scale') is not None and num('scale') != true_span and true_span > np.iinfo(dt).max:
            return f'fit:integer-dtype-wraparound-in-range:{fam}'
    if dt.kind == 'f' and dt.itemsize < 8 and nonconst and np.isfinite(col.astype(np.float64)).all():
        if fam in ('GaussianUnivariate', 'TruncatedGaussian'):
            loc, scale = num('loc'), num('scale')
            if (loc is not None and not math.isfinite(loc)) or (scale is not None and not math.isfinite(scale)):
                return f'fit:narrow-float-overflow-in-moments:{fam}'
            if scale == 0.0:
                return f'fit:narrow-float-underflow-in-moments:{fam}'
        else:
            vals = [num(k) for k in params if k != 'dataset']
            if any(v is not None and not math.isfinite(v) for v in vals):
                return f'fit:narrow-float-nonfinite-scipy-mle:{fam}'
    return None


def oracle(names, cols, spec, hist=None):
    """The property on the real code -> list of (class, observed, required); classes starting with `note:` are
    conforming observations, not failures.

    Narrow storage dtypes: entries are checked against the Pearson correlation of the clipped normal scores of the
    fitted marginal CDF as the library evaluates it on the STORED values (that is the statement); when they also
    differ from the float64 evaluation a `note:` records the size.  Entries matching NEITHER are
    `fit:entry-not-pearson-of-clipped-scores:narrow-dtype`.  A degenerate outcome (NaN / constant scores, non-unit
    diagonal, NaN samples or densities, exceptions) that does NOT occur when the same values are stored as float64 is
    reported under its cause `storage_cause(...)` = `fit:<cause>:<fitted family>`; if no cause is recognised it stays
    the unexplained `fit:storage-dtype-dependent:<dtype>:degenerate`."""
    info = {}
    res = _oracle_core(names, cols, spec, hist, info)
    dts = dtype_names(cols)
    narrow = [d for d in DTYPE_PRIORITY if d in dts]
    if not res or not narrow:
        return res
    keep = [r for r in res if r[0].startswith('note:') or r[0].endswith(':narrow-dtype') or 'fit-history' in r[0]]
    rest = [r for r in res if r not in keep]
    if not rest:
        return res
    res64 = {r[0] for r in _oracle_core(names, [np.asarray(c).astype(np.float64) for c in cols], spec, hist)}
    out, grouped = list(keep), {}
    by_repr = {repr(nm): d for nm, d in zip(names, dts)}
    causes = info.get('storage_causes', {})
    for cls, obs, req in rest:
        if cls in res64:
            out.append((cls, obs, req))
            continue
        offenders = []
        if isinstance(obs, dict):
            offenders = [obs.get(key) for key in ('column', 'i', 'j') if obs.get(key) in by_repr] + \
                [c for c in (obs.get('columns') or []) if c in by_repr]
        offenders = [c for c in offenders if by_repr[c] in DTYPE_PRIORITY]
        keys = sorted({causes[c] for c in offenders if causes.get(c)})
        if not keys and not offenders:            # no column identified: any explained narrow column of the table
            keys = sorted({k for c, k in causes.items() if k and by_repr.get(c) in DTYPE_PRIORITY})
        if not keys:
            cand = [by_repr[c] for c in offenders]
            dt = ([d for d in DTYPE_PRIORITY if d in cand] or narrow)[0]
            keys = [f'fit:storage-dtype-dependent:{dt}:degenerate']
        for k in keys:
            grouped.setdefault(k, []).append((cls, obs))
    for key, items in grouped.items():
        first = items[0][1]
        out.append((key, {'symptoms': sorted({c for c, _ in items}), 'first_observed': first, 'dtypes': dts,
                          'fitted': info.get('fitted', {})},
                    'the property holds whatever the storage dtype of the training table (the same values stored as '
                    'float64 satisfy it): finite marginal parameters, unit diagonal for a non-constant column, no NaN'))
    return out


def _oracle_core(names, cols, spec, hist=None, info=None):
    """(the fit under test is the LAST one of the history)"""
    out = []
    try:
        X, model, calls = fit_real(names, cols, spec, hist=hist)
    except Exception as e:  # noqa
        if hist and hist.get('form') == 'list-of-lists' and isinstance(e, AttributeError) and 'dtype' in str(e):
            # cause: the `check_valid_values` decorator reads `X.dtype` before `_validate_input` wraps the list
            # OUT of the property's domain (fit documents a DataFrame / array-like with a dtype): counted, not judged
            return [('note:form-rejected-by-the-code:list-of-lists', {'error': f'{type(e).__name__}: {str(e)[:80]}'}, '')]
        return [('fit:raises', f'{type(e).__name__}: {str(e)[:120]}', 'fit succeeds on a numeric table')]
    k = len(names)
    Cdf = model.correlation
    C = np.asarray(Cdf.to_numpy(), dtype=float)
    history_dependent = False
    if hist is not None and hist.get('form') and not hist['tables']:
        # the learned correlation is a function of the VALUES and column labels of the table, not of its container,
        # memory layout or row index
        try:
            _, plain, _ = fit_real(names, cols, spec, hist={'tables': [], 'as_array': hist.get('as_array')})
            F = np.asarray(plain.correlation.to_numpy(), dtype=float)
            d = first_diff(F, C, ATOL)
            lf, lm = labels_of(plain), labels_of(model)
        except Exception as e:  # noqa
            d, F, lf, lm = f'plain fit raises {type(e).__name__}', None, None, None
        if d or lf != lm:
            out.append(('fit:depends-on-input-form',
                        {'form': hist['form'], 'shape': list(C.shape), 'plain_shape': list(F.shape) if F is not None else None,
                         'labels': lm, 'plain_labels': lf, 'entries_first_difference(plain vs form)': d},
                        'the correlation (shape, labels, entries) learned from a 1-d / (n,1) array, Series, list of '
                        'lists, Fortran / strided / read-only array or a frame with a non-default row index equals the '
                        'one learned from the same values as a plain DataFrame / ndarray (entrywise 1e-12)'))
            return out
    if hist is not None and hist['tables'] and C.shape == (k, k):
        # the learned correlation (labels and entries) is a function of the input of THIS fit call only
        try:
            _, fresh, _ = fit_real(names, cols, spec, hist={'tables': [], 'as_array': hist.get('as_array')})
            F = np.asarray(fresh.correlation.to_numpy(), dtype=float)
            d = first_diff(F, C, ATOL)
            lf, lm = labels_of(fresh), labels_of(model)
        except Exception as e:  # noqa
            d, F, lf, lm = f'fresh fit raises {type(e).__name__}', None, None, None
        if lf != lm:
            out.append(('fit:labels-depend-on-fit-history',
                        {'refitted': lm, 'fresh': lf, 'last_input': 'ndarray' if hist.get('as_array') else 'DataFrame',
                         'earlier_containers': hist.get('containers'), 'entries_first_difference': d,
                         'refitted_univariates': [marg_name(u) for u in model.univariates],
                         'fresh_univariates': [marg_name(u) for u in fresh.univariates] if F is not None else None},
                        'correlation index / columns, self.columns and to_dict()["columns"] are the training columns '
                        'of the LAST input in order (0..k-1 for a bare array), exactly as on a fresh instance'))
            return out          # stale labels also re-key a per-column distribution dict: same cause
        other = hist.get('_other_model')
        if not d and other is not None and F is not None:
            d2 = first_diff(F, np.asarray(other.correlation.to_numpy(), dtype=float), ATOL)
            if d2:
                d = 'ANOTHER model fitted on the same in-place updated object: ' + d2
        if d:
            history_dependent = True
            out.append(('fit:correlation-depends-on-fit-history',
                        {'first_difference(fresh vs refitted)': d,
                         'same_object_updated_in_place': bool(hist.get('inplace')),
                         'max_abs_diff': float(np.nanmax(np.abs(F - C))) if F is not None and F.shape == C.shape else None,
                         'earlier_fits_rows': [len(h[0]) for h in hist['tables']], 'as_array': bool(hist.get('as_array')),
                         'earlier_containers': hist.get('containers'),
                         'current_univariates': [marg_name(u) for u in model.univariates]},
                        'fit(B) on an instance fitted before (same column labels) gives the same correlation as a '
                        'fresh instance fitted on B (entrywise 1e-12): Pearson correlation of B mapped through the '
                        'marginals fitted by THIS fit'))
            return out          # everything else observed on this model is a symptom of the same cause
    want = list(names)
    if C.shape != (k, k):
        return [('fit:shape', str(C.shape), f'({k},{k})')]
    if list(Cdf.index) != want or list(Cdf.columns) != want or list(model.to_dict()['columns']) != want:
        out.append(('fit:labels', {'index': repr(list(Cdf.index)), 'columns': repr(list(Cdf.columns))},
                    f'labels = training columns in order {want!r}'))
    if not np.isfinite(C).all():
        out.append(('fit:not-finite', C.tolist(), 'all entries finite'))
        return out
    if not np.array_equal(np.array(model.to_dict()['correlation'], dtype=float), C):
        out.append(('to_dict:differs', None, 'to_dict()["correlation"] = correlation'))
    if np.max(np.abs(C - C.T)) > 1e-15:
        out.append(('fit:asymmetric', float(np.max(np.abs(C - C.T))), 'symmetric'))
    const = [bool(np.all(c == c[0])) for c in cols]
    off = C - np.diag(np.diag(C))
    if np.max(np.abs(off)) > 1.0 + 1e-12:
        out.append(('fit:range', float(np.max(np.abs(off))), 'entries in [-1, 1]'))
    Sref = reference_scores(model, X)
    if info is not None and len(model.univariates) == k:
        info['storage_causes'] = {repr(nm): storage_cause(u, c) for nm, u, c in zip(names, model.univariates, cols)}
        info['fitted'] = {repr(nm): {'family': marg_name(u),
                                     'params': {kk: (float(v) if np.ndim(v) == 0 else '...')
                                                for kk, v in (getattr(getattr(u, '_instance', None) or u, '_params', None)
                                                              or {}).items() if kk != 'dataset'}}
                          for nm, u, c in zip(names, model.univariates, cols) if str(np.asarray(c).dtype) in DTYPE_PRIORITY}
    for i in range(k):
        dgi = float(C[i, i])
        if const[i]:
            row = np.abs(C[i]).max()
            colm = np.abs(C[:, i]).max()
            if max(row, colm) > RIDGE_TOL:
                out.append(('fit:constant-column-nonzero', {'column': repr(names[i]), 'row': C[i].tolist()},
                            'a constant column has zero correlation with everything (up to the ridge on its '
                            'diagonal entry)'))
        elif abs(dgi - 1.0) > RIDGE_TOL:
            s = Sref[:, i]
            if in_constant_mode(model.univariates[i]):
                why = 'fitted-as-constant'       # >1 distinct values, yet the marginal is the degenerate point mass
            elif np.isnan(s).all():
                why = 'scores-nan'
            elif np.nanmax(s) == np.nanmin(s):
                why = 'scores-constant'          # a genuine non-constant model whose scores collapsed (degenerate MLE)
            else:
                why = 'other'
            out.append((f'fit:diag-nonconstant-column:{why}',
                        {'column': repr(names[i]), 'diag': dgi, 'univariate': marg_name(model.univariates[i]),
                         'distinct_values': int(len(np.unique(cols[i]))),
                         'raw_min': float(np.min(cols[i])), 'raw_max': float(np.max(cols[i])),
                         'score_min': float(np.nanmin(s)) if not np.isnan(s).all() else 'nan',
                         'score_max': float(np.nanmax(s)) if not np.isnan(s).all() else 'nan'},
                        'unit diagonal (up to a ridge of order 1e-7) for every non-constant column'))
    # cause tag: a NON-constant score column whose spread is tiny relative to its magnitude makes the Pearson
    # computation ill-conditioned (entries only accurate to ~eps * kappa^2), e.g. a two-valued column under a
    # degenerate (U-shaped, a,b ~ 1e-11) Beta fit
    with np.errstate(all='ignore'):
        fin = np.isfinite(Sref).all(axis=0)
        zc = Sref - np.where(fin, Sref.mean(axis=0), 0.0)
        ssq = np.sqrt((zc * zc).sum(axis=0))
        kappa = np.where(fin & (ssq > 0), np.sqrt((Sref * Sref).sum(axis=0)) / np.where(ssq > 0, ssq, 1.0), 1.0)
    cause = ':near-constant-scores' if bool(np.any(kappa > 1e3)) else ''
    ev = np.linalg.eigvalsh((C + C.T) / 2)
    if ev[0] < -1e-9:
        out.append(('fit:not-psd' + cause, {'eig_min': float(ev[0]), 'cond_recorded': calls[0][1] if calls else None,
                                            'score_kappa': [float(v) for v in kappa]},
                    'positive semi-definite: eigvalsh >= -1e-9'))
    # "a numerically singular matrix is regularised": the code's own notion of numerically singular
    import sys
    with np.errstate(all='ignore'):
        cfinal = float(np.linalg.cond(C))
    if not cfinal <= 1.0 / sys.float_info.epsilon:
        out.append(('fit:singular-not-regularised', {'cond': cfinal, 'eig_min': float(ev[0])},
                    'a numerically singular correlation (cond > 1/eps) is regularised'))
    # entry = Pearson correlation of the INDEPENDENTLY recomputed clipped normal scores
    # (fitted cdf -> clip with the property's epsilon -> norm.ppf -> two-pass Pearson = np.corrcoef)
    with np.errstate(all='ignore'):
        if np.isfinite(Sref).all() and not history_dependent:
            Z = Sref - Sref.mean(axis=0)
            ss = np.sqrt((Z * Z).sum(axis=0))
            sconst = Sref.max(axis=0) == Sref.min(axis=0)                     # 0/0 -> NaN -> 0
            kap = np.sqrt((Sref * Sref).sum(axis=0)) / np.where(ss > 0, ss, 1.0)   # conditioning of the centring
            worst = None
            for i in range(k):
                for j in range(k):
                    if sconst[i] or sconst[j]:
                        r = 0.0
                    elif kap[i] > 1e4 or kap[j] > 1e4 or ss[i] == 0 or ss[j] == 0:
                        continue
                    else:
                        r = float((Z[:, i] * Z[:, j]).sum() / (ss[i] * ss[j]))
                    # off-diagonal entries carry no ridge: 1e-9 sized by the conditioning of the centring
                    base = RIDGE_TOL if i == j else 1e-9
                    tol = base + 1e-9 * (kap[i] ** 2 + kap[j] ** 2) if not (sconst[i] or sconst[j]) else RIDGE_TOL
                    err = abs(r - float(C[i, j]))
                    if err > tol and (worst is None or err > worst[0]):
                        worst = (err, i, j, r)
            if worst is not None:
                err, i, j, r = worst
                dts = dtype_names(cols)
                narrow = [d for d in dts if d not in ('float64', 'int64')]
                sub, sens = '', []
                if narrow:
                    # do the entries at least equal the Pearson correlation of the clipped cdf values that the
                    # marginals return for the values AS STORED (promoted to float64)?
                    sub = ':narrow-dtype'
                    Sn = reference_scores(model, X, native=True)
                    if np.isfinite(Sn).all() and Sn[:, i].max() > Sn[:, i].min() and Sn[:, j].max() > Sn[:, j].min():
                        Zn = Sn - Sn.mean(axis=0)
                        rn = float((Zn[:, i] * Zn[:, j]).sum() / math.sqrt((Zn[:, i] ** 2).sum() * (Zn[:, j] ** 2).sum()))
                        if abs(rn - float(C[i, j])) <= (RIDGE_TOL if i == j else 1e-9) + 1e-9 * (kap[i] ** 2 + kap[j] ** 2):
                            sub = ':cdf-at-storage-precision'
                    sens = [dts[c] for c in (i, j) if not np.array_equal(Sn[:, c], Sref[:, c])]
                obs_ = {'i': repr(names[i]), 'j': repr(names[j]), 'real': float(C[i, j]), 'dtypes': dts,
                        'offending_dtypes': sens if narrow else [],
                        'pearson_of_clipped_scores(float64 cdf)': r, 'abs_diff': err,
                        'score_i_range': [float(Sref[:, i].min()), float(Sref[:, i].max())],
                        'score_j_range': [float(Sref[:, j].min()), float(Sref[:, j].max())]}
                if sub == ':cdf-at-storage-precision':
                    # conforming: the entries ARE the Pearson correlation of the columns mapped through their fitted
                    # marginal CDF as evaluated on the stored values; only the float64 re-evaluation differs
                    out.append((NOTE_NATIVE, obs_, ''))
                else:
                    out.append(('fit:entry-not-pearson-of-clipped-scores' + sub, obs_,
                                'each entry = Pearson correlation (float64) of the two columns after fitted marginal '
                                'cdf (as the marginal evaluates it on the stored values), clip to [EPSILON, 1-EPSILON], '
                                'standard normal quantile (NaN -> 0; diagonal up to the ridge)'))
    out.extend(object_states(model, X, hist, C, calls))
    # sampling / density after regularisation
    try:
        with np.errstate(all='ignore'), warnings.catch_warnings():
            warnings.simplefilter('ignore')
            smp = model.sample(5)
        if list(smp.columns) != want or len(smp) != 5:
            out.append(('sample:shape', {'columns': repr(list(smp.columns)), 'rows': len(smp)},
                        '5 rows, training columns in order'))
        elif np.isnan(smp.to_numpy(dtype=float)).any():
            arr = smp.to_numpy(dtype=float)
            out.append(('sample:nan', {'columns': [repr(nm) for nm, bad_ in zip(names, np.isnan(arr).any(axis=0)) if bad_],
                                       'sample': arr.tolist()}, 'sampling works: no NaN'))
    except Exception as e:  # noqa
        out.append(('sample:raises', f'{type(e).__name__}: {str(e)[:160]}', 'sampling works after regularisation'))
    try:
        with np.errstate(all='ignore'), warnings.catch_warnings():
            warnings.simplefilter('ignore')
            p = np.asarray(model.probability_density(X.iloc[:5]), dtype=float)
        if p.shape != (min(5, len(X)),) or np.isnan(p).any() or (p < 0).any():
            with np.errstate(all='ignore'):
                Sn_ = reference_scores(model, X, native=True)
            out.append(('pdf:nan', {'columns': [repr(nm) for nm, bad_ in zip(names, np.isnan(Sn_).any(axis=0)) if bad_],
                                    'density': p.tolist()}, 'density evaluation works: one non-negative number per row'))
    except Exception as e:  # noqa
        sub = (':not-psd' + cause) if 'positive semidefinite' in str(e) else ''
        out.append(('pdf:raises' + sub, f'{type(e).__name__}: {str(e)[:160]}',
                    'density evaluation works after regularisation'))
    return out


PROP_EPS = float(np.finfo(np.float32).eps)     # the property's clip: copulas.utils.EPSILON = 2^-23 ("order 1e-7")


def reference_scores(model, X, native=False):
    """fitted marginal cdf (evaluated on the float64 values; `native`: on the values as stored, result promoted to
    float64) -> clip [eps, 1-eps] -> standard normal quantile in float64, per TRAINING column in order; independent
    of GaussianMultivariate._transform_to_normal."""
    from scipy import stats
    out = []
    with np.errstate(all='ignore'):
        for nm, u in zip(list(X.columns), model.univariates):
            v = X[nm].to_numpy()
            uu = np.asarray(u.cdf(v if native else v.astype(np.float64))).astype(np.float64)
            out.append(stats.norm.ppf(np.clip(uu, PROP_EPS, 1.0 - PROP_EPS)))
    return np.column_stack(out)


def in_constant_mode(u):
    """the fitted univariate behaves as the degenerate point mass."""
    inst = getattr(u, '_instance', None) or u
    if getattr(inst, '_constant_value', None) is not None:
        return True
    if any(m in getattr(inst, '__dict__', {}) for m in ('cumulative_distribution', 'percent_point')):
        return True
    params = getattr(inst, '_params', None)
    if isinstance(params, dict) and 'scale' in params:
        try:
            return float(params['scale']) == 0.0
        except Exception:  # noqa
            return False
    return False


def object_states(model, X, hist, C, calls):
    """The matrix the model HOLDS in every legitimate object state is the learned one: restored through
    to_dict/from_dict (class route and generic `Multivariate.from_dict`), through save/load, and learned again by a
    `get_instance` clone from the same input.  Bitwise for the restored states (entrywise 1e-12 for the clone), same
    labels; in particular an added ridge is kept, so the held matrix stays regularised."""
    import os
    import sys
    import tempfile
    from copulas.multivariate import GaussianMultivariate, Multivariate
    from copulas.utils import get_instance
    out = []
    ridge_applied = bool(calls) and calls[0][1] > 1.0 / sys.float_info.epsilon
    states = []
    with np.errstate(all='ignore'), warnings.catch_warnings():
        warnings.simplefilter('ignore')
        try:
            d = model.to_dict()
            for tag, f in (('from_dict', GaussianMultivariate.from_dict), ('from_dict', Multivariate.from_dict)):
                try:
                    states.append((tag, 'class route' if f.__self__ is GaussianMultivariate else 'generic route', f(d)))
                except Exception as e:  # noqa: restoring the univariates is another property's subject
                    states.append(('note', f'from_dict raises {type(e).__name__}', None))
        except Exception as e:  # noqa
            states.append(('note', f'to_dict raises {type(e).__name__}', None))
        try:
            os.makedirs('/scratch/c02/tmp', exist_ok=True)
            with tempfile.TemporaryDirectory(dir='/scratch/c02/tmp') as td:
                path = os.path.join(td, 'm.pkl')
                model.save(path)
                states.append(('load', 'save/load', GaussianMultivariate.load(path)))
        except Exception as e:  # noqa
            states.append(('note', f'save/load raises {type(e).__name__}', None))
        try:
            clone = get_instance(model)
            form = (hist.get('form') if hist else None) or ('ndarray' if hist and hist.get('as_array') else 'frame')
            clone.fit(apply_form(X, form))
            states.append(('clone', 'get_instance clone fitted on the same input', clone))
        except Exception as e:  # noqa
            states.append(('note', f'clone raises {type(e).__name__}', None))
    want = labels_of(model)
    for tag, how, m in states:
        if tag == 'note':
            out.append(('note:object-state:' + how.replace(' ', '-'), {}, ''))
            continue
        try:
            R = np.asarray(m.correlation.to_numpy(), dtype=float)
            same = bits_equal(R, C) if tag != 'clone' else first_diff(C, R, ATOL) is None
            lab = labels_of(m)
        except Exception as e:  # noqa
            same, R, lab = False, None, f'{type(e).__name__}'
        if not same or lab != want:
            ok_shape = R is not None and R.shape == C.shape
            out.append((f'{tag}:correlation-not-the-learned-matrix',
                        {'state': how, 'ridge_was_added_by_fit': ridge_applied,
                         'first_difference(learned vs held)': first_diff(C, R, 0.0) if ok_shape else 'shape/exception',
                         'max_abs_diff': float(np.nanmax(np.abs(R - C))) if ok_shape else None,
                         'held_min_eigenvalue': float(np.linalg.eigvalsh((R + R.T) / 2)[0]) if ok_shape else None,
                         'held_cond': float(np.linalg.cond(R)) if ok_shape else None,
                         'labels_equal': lab == want},
                        'the model restored / cloned in this state holds exactly the learned correlation (same '
                        'labels, bitwise; an added ridge is kept so the matrix stays regularised)'))
    return out


def labels_of(model):
    """every place the fitted model shows its column labels, with the label types."""
    def lab(v):
        return [(type(a).__name__ if not isinstance(a, (int, np.integer)) else 'int', a if not isinstance(a, np.integer)
                 else int(a)) for a in v]
    return {'index': lab(model.correlation.index), 'columns': lab(model.correlation.columns),
            'self.columns': lab(model.columns), 'to_dict.columns': lab(model.to_dict()['columns'])}


def marg_name(u):
    inst = getattr(u, '_instance', None)
    return type(u).__name__ + ('' if inst is None else f'[{type(inst).__name__}]')


def payload_of(names, cols, spec, kinds=None, hist=None):
    d = {'names': list(names), 'cols': [[float(v) for v in c] for c in cols], 'config': spec, 'kinds': kinds,
         'dtypes': dtype_names(cols)}
    if hist is not None:
        d['refit_history'] = {'as_array': bool(hist.get('as_array')), 'containers': hist.get('containers'),
                              'form': hist.get('form'), 'inplace': bool(hist.get('inplace')),
                              'tables': [[[float(v) for v in c] for c in h] for h in hist['tables']]}
    return d


def from_payload(p):
    names = [n for n in p['names']]
    cols = [np.array(c, dtype=float) for c in p['cols']]
    if p.get('dtypes'):
        cols = [c.astype(dt) for c, dt in zip(cols, p['dtypes'])]
    hist = None
    if p.get('refit_history') is not None:
        h = p['refit_history']
        hist = {'as_array': bool(h.get('as_array')), 'containers': h.get('containers'), 'form': h.get('form'),
                'inplace': bool(h.get('inplace')),
                'tables': [[np.array(c, dtype=float) for c in t] for t in h['tables']]}
    return names, cols, p['config'], hist


def restrict_config(spec, names):
    if spec[0] != 'dict':
        return spec
    keep = {repr(n) for n in names}
    return ['dict', {k: v for k, v in spec[1].items() if k in keep}]


def shrink(names, cols, spec, cls, budget=14, hist=None):
    """drop columns / rows while the same class still fails (k >= 2, n >= 20 kept).  Tables fitted from bare
    arrays keep their labels 0..k-1, so their columns are not dropped."""
    def fails(nm, cs, sp, hs):
        try:
            return any(c == cls for c, _, _ in oracle(nm, cs, sp, hs))
        except Exception:  # noqa
            return False
    i = 0
    while budget > 0 and len(names) > 2 and i < len(names) and not (hist and hist.get('as_array')):
        nm = names[:i] + names[i + 1:]
        cs = cols[:i] + cols[i + 1:]
        sp = restrict_config(spec, nm)
        hs = None if hist is None else dict(
            hist, tables=[h[:i] + h[i + 1:] for h in hist['tables']],
            containers=[ct if ct is None or not ct.get('labels') else
                        dict(ct, labels=ct['labels'][:i] + ct['labels'][i + 1:])
                        for ct in (hist.get('containers') or [None] * len(hist['tables']))])
        budget -= 1
        if fails(nm, cs, sp, hs):
            names, cols, spec, hist = nm, cs, sp, hs
        else:
            i += 1
    while budget > 0 and len(cols[0]) >= 40:
        h = max(20, len(cols[0]) // 2)
        cs = [c[:h] for c in cols]
        hs = hist
        if hist and hist.get('inplace'):               # the reused buffer keeps ONE shape
            hs = dict(hist, tables=[[c[:h] for c in t] for t in hist['tables']])
        budget -= 1
        if fails(names, cs, spec, hs):
            cols, hist = cs, hs
        else:
            break
    return names, cols, spec, hist


def fixed_probes():
    """seed-independent tables for the degenerate situations the property names (and for recorded findings)."""
    r0, r1 = np.random.RandomState(0), np.random.RandomState(1)
    a = r0.randn(25)
    b = r1.randn(25)
    p = 100.0 + a
    return [
        (['a', 'dup', 'neg', 'aff', 'const', 'b'], [a, a.copy(), -a, 2 * a + 3, np.full(25, 5.0), b],
         ['class', 'GaussianUnivariate'], ['probe:singular']),
        (['c1', 'c2'], [np.full(20, 1.0), np.full(20, -2.0)], ['class', 'GaussianUnivariate'], ['probe:all-constant']),
        (['x', 'k'], [a, np.full(25, 0.0)], ['default'], ['probe:default-constant']),
        (['u', 'v', 'w'], [b, a, a + b], ['str', 'GaussianKDE'], ['probe:rank-deficient']),
        (['p', 'q'], [p, 2 * p + 0.5 * b], ['class', 'BetaUnivariate'], ['probe:beta-offset']),
        (['a', 'k2', 'd', 'k1'], _binary_beta_probe(), ['inst', 'BetaUnivariate'], ['probe:binary-beta']),
    ] + tiny_and_outlier_probes()


def dtype_probes():
    """narrow / mixed storage dtypes with a few far-upper-tail observations (z ~ 4.5 - 5.7), Gaussian / Uniform / KDE."""
    r = np.random.RandomState(3)
    g_, u_, k_ = ['class', 'GaussianUnivariate'], ['class', 'UniformUnivariate'], ['str', 'GaussianKDE']
    n = 120
    g = r.normal(size=n)
    h = 0.4 * g + r.normal(size=n)
    g[:3] = [4.9, 5.3, 5.6]
    h[:3] = [5.1, 4.8, 5.7]
    k = r.normal(size=n)
    p = r.poisson(20, size=n).astype(float)
    q = p + r.poisson(5, size=n)
    p[:3] = [52, 55, 58]
    q[:3] = [60, 57, 66]
    rr = r.poisson(7, size=n).astype(float)
    t = r.uniform(0.5, 20.0, size=n)
    x = -1e-6 * t
    x[0] = -1.0
    y = -1e-6 * (0.7 * t + 0.3 * r.uniform(0.5, 20.0, size=n))
    y[1] = -1.0
    w = r.normal(size=n) + 0.1 * t

    def cast(cols, dts):
        return [np.asarray(c, dtype=float).astype(d) for c, d in zip(cols, dts)]
    return [
        (['g', 'h', 'k'], cast([g, h, k], ['float32'] * 3), g_, ['probe:dtype-float32-right-tail']),
        (['g', 'h', 'k'], cast([g, h, k], ['float64', 'float32', 'float64']), g_, ['probe:dtype-mixed-float32']),
        (['g', 'h', 'k'], cast([g, h, k], ['float32'] * 3), k_, ['probe:dtype-float32-kde']),
        (['p', 'q', 'r'], cast([p, q, rr], ['int16'] * 3), g_, ['probe:dtype-int16-counts']),
        (['p', 'q', 'r'], cast([p, q, rr], ['uint8', 'int8', 'int32']), g_, ['probe:dtype-small-ints']),
        (['x', 'y', 'w'], cast([x, y, w], ['float32'] * 3), u_, ['probe:dtype-float32-packed-top-uniform']),
        (['g', 'h', 'k'], cast([g, h, k], ['float16'] * 3), g_, ['probe:dtype-float16']),
    ] + storage_cause_probes()


def storage_cause_probes():
    """one deterministic table per recorded (cause, fitted family) of a degenerate fit that exists ONLY in narrow
    storage: a narrow column `x` next to a float64 column `y`."""
    r = np.random.RandomState(0)
    n = 60
    z = r.randn(n)
    y = 0.5 * z + r.randn(n)
    z01 = (z - z.min()) / (z.max() - z.min())

    def pr(tag, vals, dt, fam):
        return (['x', 'y'], [np.asarray(vals, dtype=float).astype(dt), y], ['class', fam], ['probe:storage:' + tag])
    return [
        pr('int8-span200-uniform', np.round(-100 + 200 * z01), 'int8', 'UniformUnivariate'),
        pr('int16-span40000-uniform', np.round(-20000 + 40000 * z01), 'int16', 'UniformUnivariate'),
        pr('int32-span3e9-uniform', np.round(-1.5e9 + 3e9 * z01), 'int32', 'UniformUnivariate'),
        pr('float16-1500-gaussian', 1500 + 100 * z, 'float16', 'GaussianUnivariate'),
        pr('float32-1e20-gaussian', 1e20 * (3 + z), 'float32', 'GaussianUnivariate'),
        pr('float16-1500-gamma-falls-back-to-gaussian', 1500 + 100 * z, 'float16', 'GammaUnivariate'),
        pr('float16-1e-5-gaussian', 1e-5 * (3 + z), 'float16', 'GaussianUnivariate'),
        pr('float32-1e-25-gaussian', 1e-25 * (3 + z), 'float32', 'GaussianUnivariate'),
        pr('float32-1e20-truncated', 1e20 * (3 + z), 'float32', 'TruncatedGaussian'),
        pr('float16-1e-5-truncated', 1e-5 * (3 + z), 'float16', 'TruncatedGaussian'),
        pr('float16-0.01-gamma', 0.01 * z, 'float16', 'GammaUnivariate'),
    ]


def size_probes():
    """table-size sweep around block boundaries (n = 1024, 1024k + 1, 1500), 3 correlated columns, cheap marginals:
    every ROW takes part in the Pearson correlation of the clipped normal scores."""
    out = []
    for q, n in enumerate((1024, 1025, 2049, 4097, 1500)):
        r = np.random.RandomState(700 + n)
        a = r.randn(n)
        b = 0.6 * a + 0.8 * r.randn(n)
        c = r.rand(n) + 0.3 * a
        spec = ['class', 'GaussianUnivariate'] if q % 2 == 0 else ['class', 'UniformUnivariate']
        out.append((['a', 'b', 'c'], [10 + 2 * a, b, 100 * c], spec, [f'probe:size:{n}-rows']))
    return out


def tiny_probes():
    """the smallest legal tables: exactly 2 and 3 rows, 2-4 NON-constant columns, every marginal configuration
    (a column with two distinct values is non-constant: unit diagonal; 2 rows: every correlation is +-1)."""
    out = []
    fams = [['class', f] for f in BASE_CLASSES] + [['default'], None]
    for nrows in (2, 3):
        for q, spec in enumerate(fams):
            r = np.random.RandomState(100 * nrows + q)
            k = 2 + q % 3
            cols = [r.randn(nrows) * 10.0 ** r.randint(-2, 3) + r.choice([0.0, 5.0, -100.0]) for _ in range(k)]
            if q % 2:
                cols[1] = np.array([1.0, 0.0, 1.0][:nrows])                 # indicator column
            for c in cols:
                if len(np.unique(c)) < 2:
                    c[0] += 1.0
            names = [f'c{i}' for i in range(k)]
            if spec is None:                                                # per-column dict, mixed forms
                spec = ['dict', {repr(nm): [['class', 'str', 'inst'][i % 3], BASE_CLASSES[(i + nrows) % len(BASE_CLASSES)]]
                                 for i, nm in enumerate(names)}]
            out.append((names, cols, spec, [f'probe:tiny:{nrows}-rows']))
    return out


def form_probes():
    """every input form once (deterministic), on a table with a duplicated column (ridge added) where possible."""
    r = np.random.RandomState(21)
    n = 40
    a = r.randn(n)
    b = 0.5 * a + r.randn(n)
    g = ['class', 'GaussianUnivariate']
    out = []
    for form in ONE_COLUMN_FORMS:
        nm = [0] if form in ARRAY_FORMS else ['a']
        out.append((nm, [a], g, ['probe:form:' + form], {'tables': [], 'as_array': form in ARRAY_FORMS, 'form': form}))
    for form in MULTI_COLUMN_FORMS:
        nm = [0, 1, 2] if form in ARRAY_FORMS else ['a', 'b', 'dup']
        out.append((nm, [a, b, a.copy()], g, ['probe:form:' + form],
                    {'tables': [], 'as_array': form in ARRAY_FORMS, 'form': form}))
    return out


def history_probes():
    """the same estimator instance fitted twice on tables with identical labels but different data / marginal
    shapes (DataFrames, and bare arrays of the same width).  (names, cols, spec, kinds, hist)"""
    from scipy import stats

    def tab(seed, n, scale, rho):
        r = np.random.RandomState(seed)
        z = r.multivariate_normal([0, 0, 0], [[1, rho, 0.3], [rho, 1, -0.2], [0.3, -0.2, 1]], n)
        u = stats.norm.cdf(z)
        return [stats.gamma.ppf(u[:, 0], 2.0) * scale, u[:, 1] * scale * 3 + scale,
                stats.beta.ppf(u[:, 2], 2.0, 5.0) * scale - scale]
    A, B, C3 = tab(11, 60, 1.0, 0.7), tab(12, 80, 25.0, -0.5), tab(13, 40, 0.01, 0.1)
    A2, B2 = tab(14, 50, 1.0, 0.7), tab(15, 50, 25.0, -0.5)          # same number of rows: one buffer
    g, u = ['class', 'GaussianUnivariate'], ['inst', 'UniformUnivariate']
    return [
        (['a', 'b', 'c'], B, g, ['probe:refit-same-labels'], {'tables': [A], 'as_array': False}),
        (['a', 'b', 'c'], B, ['dict', {"'a'": ['class', 'GammaUnivariate'], "'b'": u, "'c'": ['str', 'GaussianKDE']}],
         ['probe:refit-same-labels-dict'], {'tables': [C3, A], 'as_array': False}),
        ([0, 1, 2], B, g, ['probe:refit-arrays'], {'tables': [A], 'as_array': True}),
        # mixed containers: DataFrame(named) -> ndarray; DataFrame(permuted int labels) -> ndarray with a per-column
        # dict keyed by position; ndarray -> DataFrame(named) with a dict keyed by name
        ([0, 1, 2], B, g, ['probe:refit-named-then-array'],
         {'tables': [A], 'as_array': True, 'containers': [{'labels': ['height', 'weight', 'age']}]}),
        ([0, 1, 2], B, ['dict', {'0': ['class', 'GammaUnivariate'], '1': u, '2': g}],
         ['probe:refit-intperm-then-array-dict'],
         {'tables': [A], 'as_array': True, 'containers': [{'labels': [2, 0, 1]}]}),
        ([0, 1, 2], B, g, ['probe:refit-intperm-then-array'],
         {'tables': [C3, A], 'as_array': True, 'containers': [{'labels': [1, 2, 0]}, {'labels': [2, 0, 1]}]}),
        # buffer reuse: one object, columns overwritten in place between the fits
        (['a', 'b', 'c'], [B2[0], B2[1], B2[2]], g, ['probe:inplace-frame-one-column'],
         {'tables': [[B2[0], A2[1], B2[2]]], 'as_array': False, 'inplace': True}),
        (['a', 'b', 'c'], B2, ['dict', {"'a'": ['class', 'GammaUnivariate'], "'b'": u, "'c'": ['str', 'GaussianKDE']}],
         ['probe:inplace-frame-all-columns'], {'tables': [A2, [A2[0], B2[1], A2[2]]], 'as_array': False, 'inplace': True}),
        ([0, 1, 2], B2, g, ['probe:inplace-array'], {'tables': [A2], 'as_array': True, 'inplace': True}),
        (['a', 'b', 'c'], B, ['dict', {"'a'": ['class', 'GammaUnivariate'], "'b'": u, "'c'": g}],
         ['probe:refit-array-then-named-dict'],
         {'tables': [A], 'as_array': False, 'containers': [{'array': True}]}),
    ]


def _binary_beta_probe():
    r = np.random.RandomState(0)
    a = r.rand(21) - 0.3
    k1 = np.full(21, 5.0)
    k1[3] = k1[17] = 6.0                     # a two-valued (indicator-like) column
    return [a, -3 * k1 + 1, a.copy(), k1]


def tiny_and_outlier_probes():
    """non-constant columns with tiny relative / absolute spread, and far-tail observations."""
    r = np.random.RandomState(5)
    n = 120
    x = r.normal(size=n)
    y = 0.7 * x + 0.5 * r.normal(size=n)
    seconds = np.round(3 * 3600 * (0.5 + 0.2 * x + 0.1 * r.normal(size=n)))
    g, u = ['class', 'GaussianUnivariate'], ['class', 'UniformUnivariate']
    out = [
        (['x', 'timestamp', 'y'], [x, 1.7e9 + seconds, y], g, ['probe:tinyspread-epoch']),
        (['serial', 'x'], [5e8 + 3.0 * np.arange(n), x], u, ['probe:tinyspread-serial']),
        (['x', 'current', 'y'], [x, 1e-9 * (3 + y), y], g, ['probe:tinyspread-nano']),
        (['k', 'level', 'x'], [np.full(n, 7.0), 1000.0 + 1e-3 * y, x], g, ['probe:tinyspread-level']),
        (['level', 'x'], [1000.0 + 1e-3 * y, x], ['str', 'GaussianKDE'], ['probe:tinyspread-level-kde']),
    ]
    for seed, m, outl, spec in ((2, 300, [('a', 0, 10 + 2 * 6.9)], g), (3, 400, [('b', 1, -7.4)], g),
                                (5, 300, [('b', 1, 7.0)],
                                 ['dict', {"'a'": u, "'b'": g, "'c'": g}])):
        rr = np.random.RandomState(seed)
        a = rr.normal(size=m)
        bb = 0.6 * a + 0.8 * rr.normal(size=m)
        c = -0.3 * a + rr.normal(size=m)
        cols = [10 + 2 * a, bb, 100 * c]
        for row, (_, ci, val) in enumerate(outl):
            cols[ci][row] = val
        out.append((['a', 'b', 'c'], cols, spec, ['probe:outlier']))
    return out


def search(ctx, deep):
    rng = ctx.rng('search')
    nr = ctx.nprng('search')
    ntables = (40 * 12) if deep else 14
    checked = found = 0
    ndefault = 0
    seen_cls = set()
    noted, max_native_dev = False, 0.0
    probes = fixed_probes() + history_probes() + dtype_probes() + form_probes() + tiny_probes() + size_probes()
    for t in range(len(probes) + ntables):
        hist = None
        if t < len(probes):
            names, cols, spec, kinds = probes[t][:4]
            hist = probes[t][4] if len(probes[t]) > 4 else None
        else:
            names, cols, kinds = gen_table(rng, nr, quick_rows=not deep)
            if rng.random() < 0.3:           # narrow / mixed storage dtypes
                cols = [cast_column(c, dt) for c, dt in zip(cols, gen_dtypes(rng, len(cols)))]
                for dt in sorted(set(dtype_names(cols))):
                    ctx.count('search:dtype:' + dt)
            allow_default = ndefault < (24 if deep else 1) and len(names) <= 3
            spec = gen_config(rng, names, allow_default)
            if spec[0] == 'default' or (spec[0] == 'dict' and len(spec[1]) < len(names)):
                ndefault += 1
            r_ = rng.random()
            if r_ < 0.35:                  # the estimator instance was fitted before (same / mixed containers)
                names, spec, hist, variant = gen_mixed_history(rng, nr, names, spec, cols=cols)
                ctx.count('search:history:' + variant)
            elif r_ < 0.6:                 # the same table in another input form
                names, cols, spec, hist = gen_form(rng, names, cols, spec)
                ctx.count('search:form:' + hist['form'])
        res = oracle(names, cols, spec, hist)
        checked += 1
        ctx.count('search:tables')
        if hist is None:
            ctx.count('search:history:none')
        for cls, obs, req in res:
            if cls.startswith('note:'):
                ctx.count(cls[len('note:'):])
                dev = obs.get('abs_diff', 0.0) if isinstance(obs, dict) else 0.0
                if dev > max_native_dev:
                    max_native_dev = dev
                if not noted and cls == NOTE_NATIVE:
                    noted = True
                    ctx.samples.append({'note': cls, 'names': list(names), 'config': spec, 'observed': obs})
                continue
            found += 1
            ctx.count('search:fail:' + cls)
            if cls in seen_cls:
                continue
            seen_cls.add(cls)
            nm, cs, sp, hs = shrink(list(names), list(cols), spec, cls, hist=hist)
            res2 = [r for r in oracle(nm, cs, sp, hs) if r[0] == cls]
            if res2:
                obs, req = res2[0][1], res2[0][2]
            else:
                nm, cs, sp, hs = names, cols, spec, hist
            ctx.fail_input('GaussianMultivariate.fit', payload_of(nm, cs, sp, kinds if nm == names else None, hs),
                           obs, req, cls)
    ctx.support = {'tables_checked': checked, 'failures': found, 'deep': deep,
                   'narrow_dtype_max_deviation_native_vs_float64_cdf': max_native_dev,
                   'oracle': 'finite, symmetric, range, diagonal, constant columns, eigvalsh>=-1e-9, cond<=1/eps, labels, '
                             'entry=pearson(independently recomputed clipped scores), refit history (same / mixed containers): labels and entries same as a fresh instance, sample(5)/probability_density do not raise / no NaN'}


def replay(ctx, payload):
    names, cols, spec, hist = from_payload(payload['input'])
    # JSON turned int labels into ints already; keep as is
    res = oracle(names, cols, spec, hist)
    return any(cls == payload.get('class') for cls, _, _ in res)
