"""C15 — Sampling is reproducible per model seed and never perturbs the global RNG.

tie    : random histories over 2-4 real models executed in-process; sha256 digests of the global
         numpy state, of every model's random_state, of every caller-owned RandomState and of
         every output are logged after each op; the Lean model (Model/Rng.lean, run in the free
         term algebra by Driver/Rng.lean) predicts which of them must coincide and which must be
         different; the two equality patterns are compared.
tv     : (translator tie, tools/gen_rngscope.py -> Gen/RngScope.lean, bridged to the hand model in Props/C15c) the
         class table generated from the class statements is compared with introspection of the imported classes
         (effective `sample` owner, @random_state, effective `set_random_state` owner), and every history of the tie
         is also executed by the step function generated from utils.set_random_state / random_state /
         validate_random_state / the set_random_state methods (`rng genrun`) and compared with the real log.
search : the property's own statement as an oracle on the real code (no Lean), including result ownership:
         two calls never return the same object / shared memory, and after the caller overwrites every result
         in place the same (size, seed) / the same seeded call sequence still gives the first result bit for
         bit -- directly and through every generator that composes another (positional and keyword calls).
"""
import copy
import hashlib
import warnings

import numpy as np
import pandas as pd

import vcommon as vc

warnings.filterwarnings('ignore')

GEN_TARGETS = ('RngScope',)
DRIVER_MAIN = 'Main/Rng.lean'
DRIVER_TARGETS = ['CopVerif.Driver.Rng']
ALWAYS_SEARCH = True
RULE = ('random histories (quick: length <= 40, thorough: <= 90) over 2-4 models drawn from every scipy-backed '
        'univariate, GaussianKDE, the Univariate wrapper, Clayton/Frank/Gumbel (valid, tau out of range, theta out of '
        'range), GaussianMultivariate (plain/conditional), VineCopula center/regular/direct (3 columns) and an unfitted '
        'model; seeds None / int / own RandomState / one RandomState shared by two models; twins (same prototype, same '
        'seed, same per-model script, independent interleaving) forced in ~70% of the histories; ops: sample(n in '
        '0,1,2,3,5), raising sample (n=-1, n="abc", unknown condition, bad tau: before any draw; bad theta: after the '
        'draws), set_random_state(None|int|RandomState), caller draws from its RandomState, np.random.seed, dataset '
        'generators; random prior global state. A case is one history; distinct by its op list; non-trivial when it '
        'contains >= 2 sample calls on a seeded model')
PARTIAL = ['Props/C15c (translator tie): translated = utils.set_random_state, utils.random_state, utils.validate_random_state, the set_random_state methods of Univariate/Bivariate/Multivariate and the sampler class table (effective sample owner, decorators, setter owner, delegation, constructor); NOT translated (hand model + correspondence only): the sampler bodies, the scopes of copulas/datasets.py, np.random.seed and caller-owned RandomState objects',
           'Props/C15b: the wrapper clause is proved iff the sampler is decorated (true for the repaired table, refuted for the as-found one), every history clause restated for all classes incl. the wrapper, and dataset_rows: every generator returns exactly `size` rows in the shape model Model/DatasetShape, tied every run by corr:dataset-shape (rows, columns, ordered numpy draw calls)',
           'dataset_rows_partial: numpy size= semantics / pandas constructors not modelled; "exactly size rows" checked '
           'on the real code only',
           'univariate_wrapper_partial: for Univariate (as found) the clauses "function of the seed", "global untouched" '
           'and "own stream advances" are false (univariate_wrapper_counterexample); proved of the Repaired variant',
           'stream_advances_distinct: needs the hypothesis Acyclic (a non-empty draw never returns MT19937 to the same '
           'state); the transform applied to the draws is outside the model (a function of the fitted parameters)']
ASSUMPTIONS = ['numpy legacy generator: get_state/set_state are exact inverses; RandomState(s) == state after np.random.seed(s)',
               'MT19937 streams: states reached from different seeds / the prior state, and a state and a later state of '
               'the same stream, are different (Acyclic); continuous samplers return different values from different states',
               'scipy rvs / gaussian_kde.resample(seed=None) / np.random.multivariate_normal draw from the global legacy '
               'RandomState (validated at run time: corr:draws-from-global-legacy)',
               'a sampler body is a deterministic function of (fitted parameters, arguments, global stream)']
TRUSTED_EXTRA = ['sha256 over (MT19937 key bytes, pos, has_gauss, cached_gaussian if has_gauss) as the identity of a generator state']

SEEDS = (1, 2, 3, 4)
# seed-value variety: both sides of the int32 / uint32 boundaries (all valid for RandomState / np.random.seed)
SEED_VALUES = (0, 1, 42, 2 ** 31 - 1, 2 ** 31, 2 ** 31 + 12345, 2 ** 32 - 1)


def tie_seed(rng):
    """small seeds most of the time (they make streams coincide, which is what the tie compares), the
    boundary values otherwise"""
    return rng.choice(SEEDS) if rng.random() < 0.7 else rng.choice(SEED_VALUES)
NS = (1, 2, 3, 5)
DATASETS = ('bivariate_age_income', 'trivariate_xyz', 'univariate_bernoulli', 'univariate_uniform', 'univariate_normal',
            'univariate_degenerate', 'univariate_exponential', 'univariate_beta')
WRAPPER_CLASS = 'Univariate.sample:wrapper-seed-ignored'


# --------------------------------------------------------------------------------------- digests
def state_digest(st):
    h = hashlib.sha256()
    h.update(str(st[0]).encode())
    h.update(np.ascontiguousarray(st[1]).tobytes())
    has_gauss = int(st[3])
    h.update(repr((int(st[2]), has_gauss, float(st[4]) if has_gauss else 0.0)).encode())
    return h.hexdigest()[:24]


def gdig():
    return state_digest(np.random.get_state())


def mdig(m):
    rs = getattr(m, 'random_state', None)
    return None if rs is None else state_digest(rs.get_state())


def out_digest(x):
    h = hashlib.sha256()
    if isinstance(x, pd.DataFrame):
        h.update(repr([str(c) for c in x.columns]).encode())
        x = x.to_numpy(dtype=float)
    elif isinstance(x, pd.Series):
        x = x.to_numpy(dtype=float)
    a = np.ascontiguousarray(np.asarray(x, dtype=float))
    h.update(repr(a.shape).encode())
    h.update(a.tobytes())
    return h.hexdigest()[:24]


def n_rows(x):
    return len(x)


# --------------------------------------------------------------------------------------- the zoo
class Call:
    """one way of calling proto.sample: `key` identifies (consumption class, arguments); `draws` says
    whether the body performs draws before returning/raising; `raises` whether it raises."""

    def __init__(self, label, args, kwargs, draws, raises, key=None):
        self.label, self.args, self.kwargs, self.draws, self.raises, self.key = label, args, kwargs, draws, raises, key

    def run(self, inst):
        return inst.sample(*self.args, **self.kwargs)


class Proto:
    def __init__(self, name, cls_name, kind, build, ok_calls, bad_calls, ctor_ok=True, continuous=True):
        self.name, self.cls_name, self.kind, self.build = name, cls_name, kind, build
        self.ok_calls, self.bad_calls, self.ctor_ok, self.continuous = ok_calls, bad_calls, ctor_ok, continuous
        self.obj = build(None)

    def new(self, seed, via_ctor):
        """an instance equal to the prototype, with random_state=seed (None | int | RandomState)."""
        if via_ctor and self.ctor_ok:
            return self.build(seed)
        inst = copy.deepcopy(self.obj)
        inst.set_random_state(seed)
        return inst


_ZOO = None


def _params_equal(a, b):
    try:
        return repr(vc.jsonable(a.to_dict())) == repr(vc.jsonable(b.to_dict()))
    except Exception:
        return False


def get_zoo():
    """prototypes, fitted once (fits are outside C15 and may use the global generator)."""
    global _ZOO
    if _ZOO is not None:
        return _ZOO
    from copulas import datasets, univariate as U
    from copulas.bivariate import Clayton, Frank, Gumbel
    from copulas.multivariate import GaussianMultivariate, VineCopula
    from copulas.univariate.base import Univariate

    dgen = np.random.RandomState(20260930)
    data = dgen.gamma(2.0, 1.5, size=90) + 0.5
    data01 = dgen.beta(2.0, 3.0, size=90)
    X = datasets.sample_trivariate_xyz(size=70, seed=11)
    zoo = []

    def std_calls(name, vine=False):
        ok = [Call(f'n={n}', (n,), {}, True, False, key=(name, n)) for n in NS]
        ok.append(Call('n=0', (0,), {}, False, False))
        bad = [Call('n=abc', ('abc',), {}, False, True)]
        if vine:
            ok.append(Call('n=-1', (-1,), {}, False, False))      # range(-1) is empty: an empty frame, no draw
        else:
            bad.append(Call('n=-1', (-1,), {}, False, True))
        return ok, bad

    def uni(cls, d):
        def build(seed):
            m = cls(random_state=seed)
            m.fit(d)
            return m
        return build

    for cls in (U.BetaUnivariate, U.GammaUnivariate, U.GaussianUnivariate, U.LogLaplace, U.StudentTUnivariate,
                U.TruncatedGaussian, U.UniformUnivariate, U.GaussianKDE):
        ok, bad = std_calls(cls.__name__)
        zoo.append(Proto(cls.__name__, cls.__name__, 'kde' if cls is U.GaussianKDE else 'uni',
                         uni(cls, data01 if cls is U.BetaUnivariate else data), ok, bad))

    def wrapper(seed):
        m = Univariate(candidates=[U.GaussianUnivariate, U.GammaUnivariate, U.UniformUnivariate], random_state=seed)
        m.fit(data)
        return m
    ok, bad = std_calls('Univariate')
    zoo.append(Proto('Univariate', 'Univariate', 'wrapper', wrapper, ok, bad))

    def biv(cls, theta, tau):
        def build(seed):
            c = cls(random_state=seed)
            c.theta, c.tau = theta, tau
            return c
        return build

    def biv_calls(raises_after):
        # every Bivariate.sample body draws uniform(n) twice, whatever the family/theta: one consumption class
        ok = [Call(f'n={n}', (n,), {}, True, raises_after, key=('biv', n)) for n in NS]
        if not raises_after:
            ok.append(Call('n=0', (0,), {}, False, False))
        bad = [Call('n=-1', (-1,), {}, False, True), Call('n=abc', ('abc',), {}, False, True)]
        return ok, bad
    for cls, theta, tau in ((Clayton, 2.0, 0.5), (Frank, 3.0, 0.31), (Gumbel, 2.0, 0.5), (Frank, -4.0, -0.39)):
        ok, bad = biv_calls(False)
        zoo.append(Proto(f'{cls.__name__}({theta})', cls.__name__, 'biv', biv(cls, theta, tau), ok, bad))
    # the tau range check fails before any draw
    zoo.append(Proto('Clayton(tau=2)', 'Clayton', 'bad', biv(Clayton, 2.0, 2.0), [],
                     [Call(f'n={n}', (n,), {}, False, True) for n in NS]))
    # theta out of range: percent_point raises after v and c were drawn
    for cls, theta in ((Gumbel, 0.5), (Clayton, -5.0)):
        okc, _ = biv_calls(True)
        zoo.append(Proto(f'{cls.__name__}(theta={theta})', cls.__name__, 'bad', biv(cls, theta, 0.5), [], okc))
    zoo.append(Proto('GaussianUnivariate(unfitted)', 'GaussianUnivariate', 'bad', lambda seed: U.GaussianUnivariate(random_state=seed),
                     [], [Call(f'n={n}', (n,), {}, False, True) for n in NS]))

    def gm(dist):
        def build(seed):
            g = GaussianMultivariate(distribution=dist, random_state=seed) if dist else GaussianMultivariate(random_state=seed)
            g.fit(X)
            return g
        return build
    for nm, dist in (('GaussianMultivariate(gauss)', U.GaussianUnivariate), ('GaussianMultivariate(default)', None)):
        ok, bad = std_calls(nm)
        for n in (1, 3):
            ok.append(Call(f'n={n}|x', (n,), {'conditions': {'x': 0.3}}, True, False, key=(nm, n, 'x')))
            ok.append(Call(f'n={n}|x,z', (n,), {'conditions': {'x': 0.6, 'z': 4.0}}, True, False, key=(nm, n, 'xz')))
        bad.append(Call('n=2|q', (2,), {'conditions': {'q': 1.0}}, False, True))
        zoo.append(Proto(nm, 'GaussianMultivariate', 'gm', gm(dist), ok, bad))

    def vine(vt):
        def build(seed):
            v = VineCopula(vt, random_state=seed)
            v.fit(X)
            return v
        return build
    for vt in ('center', 'regular', 'direct'):
        ok, bad = std_calls(f'Vine({vt})', vine=True)
        ok = [c for c in ok if c.label != 'n=5']
        zoo.append(Proto(f'Vine({vt})', 'VineCopula', 'vine', vine(vt), ok, bad))

    # the constructor path must give an equal model; otherwise clone only
    for p in zoo:
        if p.kind in ('biv', 'bad'):
            continue
        try:
            p.ctor_ok = _params_equal(p.obj, p.build(3))
        except Exception:
            p.ctor_ok = False
    _ZOO = zoo
    return zoo


def decorator_table():
    """(class, 'sample', decorated?) for every concrete sampler class, by introspection."""
    import abc

    import copulas.bivariate.independence  # noqa: F401  (not imported by the package __init__)
    from copulas.bivariate.base import Bivariate
    from copulas.multivariate.base import Multivariate
    from copulas.univariate.base import Univariate

    def subs(c):
        out = []
        for s in c.__subclasses__():
            out.append(s)
            out += subs(s)
        return out
    classes = [Univariate] + [s for s in subs(Univariate) if abc.ABC not in s.__bases__]
    classes += [Bivariate] + subs(Bivariate) + [s for s in subs(Multivariate) if 'sample' in s.__dict__]
    table = {}
    for c in classes:
        f = c.sample
        table[c.__name__] = bool(getattr(f, '__wrapped__', None) is not None and
                                 getattr(getattr(f, '__code__', None), 'co_name', '') == 'wrapper' and
                                 f.__code__.co_filename.replace('\\', '/').endswith('copulas/utils.py'))
    return table


# --------------------------------------------------------------------------------------- histories
class KeyTable:
    def __init__(self):
        self.ids = {}

    def __call__(self, key):
        if key not in self.ids:
            self.ids[key] = 2 * (len(self.ids) + 1)       # even: the driver's dataset draw codes are odd
        return self.ids[key]


class History:
    """models: list of (proto, seedspec, via_ctor) with seedspec None | ('int', s) | ('obj', k);
    callers: seeds of the caller-owned RandomState objects created before the models;
    ops: list of tuples, see `word`."""

    def __init__(self, models, callers, ops, prior):
        self.models, self.callers, self.ops, self.prior = models, list(callers), list(ops), prior

    def init_ops(self):
        ops = [('c', s) for s in self.callers]
        for m, (_, spec, _) in enumerate(self.models):
            if spec is not None:
                ops.append(('i', m, spec[1]) if spec[0] == 'int' else ('o', m, spec[1]))
        return ops

    def describe(self):
        return {'models': [(p.name, spec, ctor) for p, spec, ctor in self.models], 'callers': self.callers,
                'prior': self.prior, 'ops': [describe_op(o) for o in self.ops]}


def describe_op(op):
    if op[0] == 's':
        return ('s', op[1], op[2].label)
    return op


def word(op, keys):
    k = op[0]
    if k == 's':
        c = op[2]
        ds = str(keys(c.key)) if c.draws else '-'
        return f's:{op[1]}:{1 if c.raises else 0}:{ds}'
    if k == 'n':
        return f'n:{op[1]}'
    if k == 'i':
        return f'i:{op[1]}:{op[2]}'
    if k == 'o':
        return f'o:{op[1]}:{op[2]}'
    if k == 'c':
        return f'c:{op[1]}'
    if k == 'd':
        return f'd:{op[1]}:{keys(("caller", op[2]))}'
    if k == 'g':
        return f'g:{op[1]}'
    if k == 'D':
        return f'D:{op[1]}:{op[2]}:{op[3]}'
    if k == 'B':
        return f'B:{op[1]}:{op[2]}'
    raise ValueError(op)


def gen_history(rng, zoo, max_len):
    by_kind = {}
    for p in zoo:
        by_kind.setdefault(p.kind, []).append(p)
    kinds = ['uni', 'uni', 'kde', 'wrapper', 'biv', 'biv', 'gm', 'vine', 'bad', 'bad']
    n_models = rng.randint(2, 4)
    callers = []
    models = []

    def seedspec():
        r = rng.random()
        if r < 0.12:
            return None
        if r < 0.6:
            return ('int', tie_seed(rng))
        if callers and r < 0.75:
            return ('obj', rng.randrange(len(callers)))       # share an existing caller object
        callers.append(tie_seed(rng))
        return ('obj', len(callers) - 1)
    twins = rng.random() < 0.7
    while len(models) < n_models:
        p = rng.choice(by_kind[rng.choice(kinds)])
        spec = seedspec()
        models.append((p, spec, rng.random() < 0.5))
        if twins and len(models) == 1:
            spec2 = spec
            if spec is not None and spec[0] == 'obj' and rng.random() < 0.5:
                callers.append(callers[spec[1]])               # an equal but distinct RandomState object
                spec2 = ('obj', len(callers) - 1)
            models.append((p, spec2, rng.random() < 0.5))

    def rand_call(p):
        pool = [c for c in p.ok_calls if c.draws] * 4 + [c for c in p.ok_calls if not c.draws] + p.bad_calls
        return rng.choice(pool)

    def rand_model_op(m):
        p = models[m][0]
        r = rng.random()
        if r < 0.8:
            return ('s', m, rand_call(p))
        if r < 0.86:
            return ('n', m)
        if r < 0.95 or not callers:
            return ('i', m, tie_seed(rng))
        return ('o', m, rng.randrange(len(callers)))

    def rand_other_op():
        r = rng.random()
        if r < 0.25 and callers:
            return ('d', rng.randrange(len(callers)), rng.choice((1, 2, 3)))
        if r < 0.55:
            return ('g', tie_seed(rng))
        if r < 0.9:
            return ('D', rng.choice(DATASETS), rng.choice((3, 42, tie_seed(rng))), rng.choice((1, 4, 10)))
        return ('B', rng.choice((3, 42, tie_seed(rng))), rng.choice((1, 4, 10)))
    length = rng.randint(max(4, max_len // 3), max_len)
    streams = []
    if twins:
        script = []
        for _ in range(rng.randint(2, max(2, length // 3))):
            o = rand_model_op(0)
            if o[0] == 'o':
                o = ('i', 0, tie_seed(rng))
            script.append(o)
        streams.append([tuple(script_op) for script_op in script])
        streams.append([(o[0], 1) + tuple(o[2:]) for o in script])
    rest = []
    used = sum(len(s) for s in streams)
    for _ in range(max(0, length - used)):
        if rng.random() < 0.82:
            m = rng.randrange(2 if twins and rng.random() < 0.7 and n_models > 2 else 0, n_models)
            rest.append(rand_model_op(m))
        else:
            rest.append(rand_other_op())
    streams.append(rest)
    # random interleaving preserving each stream's order
    ops = []
    idx = [0] * len(streams)
    while True:
        live = [i for i in range(len(streams)) if idx[i] < len(streams[i])]
        if not live:
            break
        w = [len(streams[i]) - idx[i] for i in live]
        i = rng.choices(live, weights=w)[0]
        ops.append(streams[i][idx[i]])
        idx[i] += 1
    return History(models, callers, ops, rng.randrange(1000, 10 ** 6))


def execute(hist):
    """run the history on the real code; per op: digests of global / models / callers and the result."""
    from copulas import datasets
    callers = [np.random.RandomState(s) for s in hist.callers]
    insts = []
    for p, spec, ctor in hist.models:
        seed = None if spec is None else (spec[1] if spec[0] == 'int' else callers[spec[1]])
        insts.append(p.new(seed, ctor))
    # prior global state (the harness's own process; nothing to restore)
    np.random.seed(hist.prior)
    np.random.random(hist.prior % 7)
    np.random.standard_normal(hist.prior % 3)

    def snap(res):
        return {'g': gdig(), 'm': [mdig(i) for i in insts], 'c': [state_digest(c.get_state()) for c in callers], 'r': res}
    log = [snap(None)]
    for op in hist.ops:
        k = op[0]
        res = None
        if k == 's':
            try:
                out = op[2].run(insts[op[1]])
                res = ('ok', out_digest(out), n_rows(out))
            except Exception as e:  # noqa
                res = ('raised', vc.exc_kind(e), str(e)[:80])
        elif k == 'n':
            insts[op[1]].set_random_state(None)
        elif k == 'i':
            insts[op[1]].set_random_state(op[2])
        elif k == 'o':
            insts[op[1]].set_random_state(callers[op[2]])
        elif k == 'd':
            callers[op[1]].uniform(size=op[2])
        elif k == 'g':
            np.random.seed(op[1])
        elif k == 'D':
            out = getattr(datasets, 'sample_' + op[1])(size=op[3], seed=op[2])
            res = ('ok', out_digest(out), n_rows(out))
        elif k == 'B':
            out = datasets.sample_univariate_bimodal(size=op[2], seed=op[1])
            res = ('ok', out_digest(out), n_rows(out))
        log.append(snap(res))
    return log


def request(hist, table, keys):
    classes = [p.cls_name for p, _, _ in hist.models]
    tws = [f'{c}={1 if d else 0}' for c, d in sorted(table.items())]
    ops = hist.init_ops() + hist.ops
    return 'rng run %d %s T %s H %s' % (len(classes), ' '.join(classes), ' '.join(tws), ' '.join(word(o, keys) for o in ops))


def parse_reply(reply):
    if not reply.startswith('ok'):
        return None
    steps = []
    for chunk in reply[2:].split('|')[1:]:
        d = {'m': [], 'c': []}
        for w in chunk.split():
            name, _, val = w.partition('=')
            if name == 'g':
                d['g'] = val
            elif name == 'r':
                d['r'] = val
            elif name[0] == 'm':
                d['m'].append(val)
            elif name[0] == 'c':
                d['c'].append(val)
        steps.append(d)
    return steps


def parse_term(t):
    ws = t.split('.')
    return int(ws[0]), tuple(ws[1:])


def separated(t1, t2):
    """must two different state terms denote different generator states?  different roots (different
    seeds / the prior state), or the same stream at a later position.  Two diverging continuations of
    one stream are left unconstrained (they may legitimately meet: e.g. sample(2);sample(3) and
    sample(3);sample(2) of a bivariate consume the same number of words)."""
    (r1, d1), (r2, d2) = parse_term(t1), parse_term(t2)
    if r1 != r2:
        return True
    a, b = (d1, d2) if len(d1) <= len(d2) else (d2, d1)
    return len(a) < len(b) and b[:len(a)] == a


def out_separated(t1, t2, key):
    """must the same request made at two different stream states return different data?  yes if the
    streams are different (roots), or if the later state is reached from the earlier one by first
    serving this very request (disjoint consecutive segments: "successive calls").  NOT in general for
    two nearby positions of one stream: a rejection sampler (legacy gauss, gamma) that discards the
    words by which the positions differ returns identical values from both."""
    (r1, d1), (r2, d2) = parse_term(t1), parse_term(t2)
    if r1 != r2:
        return True
    a, b = (d1, d2) if len(d1) <= len(d2) else (d2, d1)
    return len(a) < len(b) and b[:len(a)] == a and b[len(a)] == key


def compare(hist, log, steps):
    """-> (problems, stats): problems is a list of (kind, detail)."""
    n_init = len(hist.init_ops())
    steps = steps[n_init - 1:] if n_init else [None] + steps
    problems = []
    if len(steps) != len(log):
        return [('shape', f'model log has {len(steps)} steps, real log {len(log)}')], {}
    states = {}       # term -> list of (slot, digest)
    outs = {}         # (group, term) -> list of (slot, digest)
    out_meta = {}
    for t, (real, mod) in enumerate(zip(log, steps)):
        if mod is None:      # no init op at all: the initial world
            mod = {'g': '0', 'm': ['-'] * len(real['m']), 'c': [], 'r': '-'}
        states.setdefault(mod['g'], []).append((f'g@{t}', real['g']))
        for i, (a, b) in enumerate(zip(mod['m'], real['m'])):
            if (a == '-') != (b is None):
                problems.append(('shape', f'step {t}: model {i} random_state is {"None" if b is None else "set"} '
                                          f'in the real code, {"None" if a == "-" else "set"} in the model'))
            elif b is not None:
                states.setdefault(a, []).append((f'm{i}@{t}', b))
        for i, (a, b) in enumerate(zip(mod['c'], real['c'])):
            states.setdefault(a, []).append((f'c{i}@{t}', b))
        if t == 0:
            continue
        op = hist.ops[t - 1]
        res, mres = real['r'], mod['r']
        if (res is None) != (mres == '-'):
            problems.append(('shape', f'step {t} {describe_op(op)}: result presence differs'))
            continue
        if res is None:
            continue
        if (res[0] == 'raised') != (mres == 'X'):
            problems.append(('shape', f'step {t} {describe_op(op)}: real {res[:2]}, model {"raised" if mres == "X" else "returned"}'))
            continue
        if res[0] == 'raised':
            continue
        if op[0] == 's':
            group = ('m', hist.models[op[1]][0].name, op[2].label)
            sep_ok = hist.models[op[1]][0].continuous and op[2].draws
        else:
            group = ('d', op[1], op[3]) if op[0] == 'D' else ('b', op[2])
            sep_ok = op[0] == 'B' or op[1] != 'univariate_bernoulli'
        outs.setdefault((group, mres), []).append((f'r@{t}', res[1]))
        out_meta[(group, mres)] = sep_ok
    # (E) equal terms => equal digests
    for term, lst in states.items():
        if len({d for _, d in lst}) > 1:
            a = lst[0]
            b = next(x for x in lst if x[1] != a[1])
            problems.append(('equal', f'state term {term}: {a[0]} and {b[0]} must hold the same generator state, digests differ'))
    for (group, term), lst in outs.items():
        if len({d for _, d in lst}) > 1:
            a = lst[0]
            b = next(x for x in lst if x[1] != a[1])
            problems.append(('equal', f'output {group} term {term}: {a[0]} and {b[0]} must be identical, digests differ'))
    # (S) separated terms => different digests
    terms = list(states)
    n_sep = 0
    for i, t1 in enumerate(terms):
        for t2 in terms[i + 1:]:
            if separated(t1, t2):
                n_sep += 1
                if states[t1][0][1] == states[t2][0][1]:
                    problems.append(('separate', f'states {states[t1][0][0]} (term {t1}) and {states[t2][0][0]} (term {t2}) '
                                                 'must differ, digests coincide'))
    keys = list(outs)
    for i, k1 in enumerate(keys):
        for k2 in keys[i + 1:]:
            if k1[0] != k2[0] or not (out_meta[k1] and out_meta[k2]):
                continue
            s1, s2 = k1[1][3:].split(';')[0].split('/'), k2[1][3:].split(';')[0].split('/')
            if s1[1:] == s2[1:] and s1[0] != s2[0] and out_separated(s1[0], s2[0], s1[1]):
                n_sep += 1
                if outs[k1][0][1] == outs[k2][0][1]:
                    problems.append(('separate', f'outputs {outs[k1][0][0]} and {outs[k2][0][0]} of {k1[0]} drawn at states '
                                                 f'{s1[0]} / {s2[0]} must differ, digests coincide'))
    stats = {'state_terms': len(states), 'state_slots': sum(len(v) for v in states.values()),
             'state_classes_real': len({d for v in states.values() for _, d in v}),
             'output_terms': len(outs), 'output_slots': sum(len(v) for v in outs.values()), 'separations': n_sep}
    return problems, stats


def check_history(hist, table, lean, gen=None):
    """`gen` (a list) switches the translation validation on: the same request is also executed by the step
    function generated from the source (`rng genrun`); when its log differs from the hand model's, the real log is
    compared against it as well and the problems are appended to `gen` as ('gen', …).  (Generated = real but
    different from the hand model is not a translation problem: it is the bridge Gen = Model that fails, in Lean.)"""
    keys = KeyTable()
    log = execute(hist)
    req = request(hist, table, keys)
    reply = lean.ask(req)
    steps = parse_reply(reply)
    if gen is not None:
        greply = lean.ask(req.replace('rng run', 'rng genrun', 1))
        if greply != reply:
            gsteps = parse_reply(greply)
            if gsteps is None:
                gen.append(('gen', 'driver: ' + greply[:200]))
            else:
                gp, _ = compare(hist, log, gsteps)
                gen.extend(('gen', f'{k}: {d}') for k, d in gp)
                gen.append(('differs', None))
    if steps is None:
        return [('driver', reply[:200])], {}
    return compare(hist, log, steps)


def real_sampler_rows():
    """(class -> (class whose __dict__ holds the effective sample, decorated?, class whose __dict__ holds the
    effective set_random_state)) by introspection of the imported classes."""
    import abc

    import copulas.bivariate.independence  # noqa: F401
    from copulas.bivariate.base import Bivariate
    from copulas.multivariate.base import Multivariate
    from copulas.univariate.base import Univariate

    def subs(c):
        out = []
        for s in c.__subclasses__():
            out.append(s)
            out += subs(s)
        return out
    classes = [Univariate] + [s for s in subs(Univariate) if abc.ABC not in s.__bases__]
    classes += [Bivariate] + subs(Bivariate) + [s for s in subs(Multivariate) if 'sample' in s.__dict__]
    table = decorator_table()
    rows = {}
    for c in classes:
        def owner(name):
            return next((k.__name__ for k in c.__mro__ if name in k.__dict__), None)
        rows[c.__name__] = (owner('sample'), bool(table.get(c.__name__)), owner('set_random_state'))
    return rows


def shrink(hist, table, lean, kind, budget=60):
    """greedy removal of ops while a problem of the same kind persists."""
    cur = hist
    i = len(cur.ops) - 1
    while i >= 0 and budget > 0:
        budget -= 1
        cand = History(cur.models, cur.callers, cur.ops[:i] + cur.ops[i + 1:], cur.prior)
        try:
            probs, _ = check_history(cand, table, lean)
        except Exception:  # noqa
            probs = []
        if any(p[0] == kind for p in probs):
            cur = cand
        i -= 1
    probs, _ = check_history(cur, table, lean)
    return cur, [p for p in probs if p[0] == kind]


# --------------------------------------------------------------------------------------- dataset shapes
SHAPE_SIZES = (0, 1, 2, 7, 100)
DRAW_KINDS = {'beta.rvs': 0, 'normal': 1, 'randint': 2, 'random': 3, 'exponential': 4}
# position of `size` when given positionally
NP_DRAW_FUNCS = {'normal': 2, 'randint': 2, 'random': 0, 'exponential': 1, 'uniform': 2, 'random_sample': 0, 'sample': 0,
                 'ranf': 0, 'standard_normal': 0, 'standard_exponential': 0, 'rand': None, 'randn': None, 'beta': 2,
                 'gamma': 2, 'choice': 1, 'binomial': 2, 'poisson': 1, 'lognormal': 2, 'standard_t': 1, 'permutation': None,
                 'multivariate_normal': 2, 'triangular': 3, 'laplace': 2, 'logistic': 2, 'chisquare': 1}


def real_dataset_shape(name, size):
    """call the real generator with the draw functions of np.random (and stats.beta.rvs) wrapped:
    -> ('ok', rows, cols, [(function, size argument), ...]) | ('err', kind)."""
    from unittest import mock

    from scipy import stats

    from copulas import datasets
    calls = []

    def wrap(label, fn, pos):
        def w(*a, **k):
            sz = k['size'] if 'size' in k else (a[pos] if pos is not None and len(a) > pos else None)
            calls.append((label, None if sz is None else (int(sz) if np.ndim(sz) == 0 else tuple(int(v) for v in sz))))
            return fn(*a, **k)
        return w
    patches = [mock.patch.object(np.random, f, wrap(f, getattr(np.random, f), pos))
               for f, pos in NP_DRAW_FUNCS.items() if hasattr(np.random, f)]
    patches.append(mock.patch.object(stats.beta, 'rvs', wrap('beta.rvs', stats.beta.rvs, None)))
    for pt in patches:
        pt.start()
    try:
        out = getattr(datasets, 'sample_' + name)(size, 42)
    except Exception as e:  # noqa
        return ('err', vc.exc_kind(e))
    finally:
        for pt in reversed(patches):
            pt.stop()
    return ('ok', len(out), out.shape[1] if isinstance(out, pd.DataFrame) else 1, calls)


def model_dataset_shape(lean, name, size):
    r = lean.ask(f'rng shape {name} {size}').split()
    if not r or r[0] != 'ok':
        return ('bad', ' '.join(r))
    d = dict(w.split('=', 1) for w in r[1:])
    if d['rows'] == 'none':
        return ('err', 'not-modelled')
    draws = [] if d['draws'] == '-' else [(int(k), None if c == 's' else int(c))
                                          for k, c in (w.split(':') for w in d['draws'].split(','))]
    return ('ok', int(d['rows']), int(d['cols']), draws)


def tie_dataset_shape(ctx, lean):
    """corr:dataset-shape — Model/DatasetShape.lean (hand-written) against the real generators."""
    bad = None
    for name in ALL_GENERATORS:
        for size in SHAPE_SIZES:
            real = real_dataset_shape(name, size)
            mod = model_dataset_shape(lean, name, size)
            ctx.case(('shape', name, size))
            ctx.count('shape:' + real[0])
            if real[0] == 'ok':
                real_c = ('ok', real[1], real[2], [(DRAW_KINDS.get(f, f), sz) for f, sz in real[3]])
                ok = mod == real_c
            else:
                ok = mod[0] == 'err'
            if not ok and bad is None:
                bad = {'generator': 'sample_' + name, 'size': size, 'real': real, 'model': mod}
    ctx.ob('corr:dataset-shape', bad is None, 'tie', bad or 'ok')


# --------------------------------------------------------------------------------------- the tie
def run(ctx, lean):
    zoo = get_zoo()
    table = decorator_table()
    names = ['corr:decorator-table', 'corr:history-shape', 'corr:history-equalities', 'corr:history-separations',
             'corr:draws-from-global-legacy', 'corr:dataset-shape', 'tv:sampler-rows', 'tv:generated-step-vs-real']
    if lean is None:
        for n in names:
            ctx.ob(n, False, 'tie', 'driver unavailable')
        return
    tie_dataset_shape(ctx, lean)
    # 1. the generated table against the two tables the theorems speak about
    def parse_table(r):
        return {w.split('=')[0]: w.split('=')[1] == '1' for w in r.split()[1:]}
    as_found, repaired = parse_table(lean.ask('rng table')), parse_table(lean.ask('rng table repaired'))
    if table == as_found:
        ctx.count('table:as-found')
        ctx.ob(names[0], True, 'tie', 'as found: every sampler decorated except Univariate.sample')
    elif table == repaired:
        ctx.count('table:repaired')
        ctx.ob(names[0], True, 'tie', 'repaired: every sampler decorated')
    else:
        diff = {c: (table.get(c), as_found.get(c)) for c in set(table) | set(as_found) if table.get(c) != as_found.get(c)}
        ctx.ob(names[0], False, 'tie', f'introspected table differs from the model\'s (class: real, expected): {diff}')
    # 1b. translation validation of the table generated from the class statements (tools/gen_rngscope.py)
    try:
        gen_rows = {}
        for wd in lean.ask('rng genrows').split()[1:]:
            c, so, decs, st, _deleg, _ctor = wd.split(':')
            gen_rows[c] = (so, 'random_state' in decs.split('+'), st)
        real_rows = real_sampler_rows()
        diff = {c: (real_rows.get(c), gen_rows.get(c)) for c in set(real_rows) | set(gen_rows)
                if real_rows.get(c) != gen_rows.get(c)}
        ctx.count('tv:sampler-rows', len(gen_rows))
        ctx.ob(names[6], not diff, 'tie', f'(class: introspected, generated) {diff}' if diff else
               f'{len(gen_rows)} rows: effective sample owner, @random_state, effective set_random_state owner')
    except Exception as e:  # noqa
        ctx.ob(names[6], False, 'tie', f'genrows: {e!r}')
    # 2. assumption validation: every body draws from the global legacy generator
    bad = None
    for p in zoo:
        calls = [c for c in p.ok_calls if c.draws and not c.raises]
        if not calls:
            continue
        inst = p.new(None, False)
        c = calls[0]
        np.random.seed(5)
        g0 = gdig()
        a = out_digest(c.run(inst))
        g1 = gdig()
        np.random.seed(5)
        b = out_digest(c.run(inst))
        ctx.case(('legacy', p.name))
        if not (a == b and g1 != g0 and gdig() == g1) and bad is None:
            bad = {'proto': p.name, 'call': c.label, 'reproducible': a == b, 'global_advanced': g1 != g0}
    ctx.ob(names[4], bad is None, 'tie', bad or 'ok')
    # 3. histories
    rng = ctx.rng('histories')
    n_hist = 70 * ctx.scale
    max_len = 40 if ctx.tier == 'quick' else 90
    first = {}
    tot = {}
    gen_probs = []
    for it in range(n_hist):
        hist = gen_history(rng, zoo, max_len if it % 3 else max(6, max_len // 4))
        probs, stats = check_history(hist, table, lean, gen=gen_probs)
        seeded_samples = {}
        for o in hist.ops:
            ctx.count('op:' + o[0])
            if o[0] == 's':
                ctx.count('proto:' + hist.models[o[1]][0].kind)
                ctx.count('call:' + ('raise-after-draws' if o[2].raises and o[2].draws else
                                      'raise-before-draws' if o[2].raises else 'ok' if o[2].draws else 'ok-no-draw'))
                seeded_samples[o[1]] = seeded_samples.get(o[1], 0) + 1
        for _, spec, ctor in hist.models:
            ctx.count('seed:' + ('none' if spec is None else spec[0]))
        ctx.case(repr(hist.describe()), nontrivial=any(v >= 2 for v in seeded_samples.values()))
        for k, v in stats.items():
            tot[k] = tot.get(k, 0) + v
        if it < 2:
            ctx.sample({'history': hist.describe(), 'stats': stats})
        for kind in ('shape', 'driver', 'equal', 'separate'):
            ps = [p for p in probs if p[0] == kind]
            if ps and kind not in first:
                small, sp = shrink(hist, table, lean, kind)
                first[kind] = {'problem': (sp or ps)[0][1], 'history': small.describe()}
    ctx.notes.append(f'histories: {n_hist}; totals {tot}')
    ctx.ob(names[1], 'shape' not in first and 'driver' not in first, 'tie', first.get('shape') or first.get('driver') or 'ok')
    ctx.ob(names[2], 'equal' not in first, 'tie', first.get('equal') or 'ok')
    ctx.ob(names[3], 'separate' not in first, 'tie', first.get('separate') or 'ok')
    gen_bad = [p for p in gen_probs if p[0] == 'gen']
    n_differs = sum(1 for p in gen_probs if p[0] == 'differs')
    ctx.count('tv:generated-log-differs-from-hand-model', n_differs)
    ctx.ob(names[7], not gen_bad, 'tie', gen_bad[0][1] if gen_bad else
           f'{n_hist} histories executed by the step function generated from the source agree with the real code '
           f'({n_differs} of the logs differ from the hand model\'s)')


# --------------------------------------------------------------------------------------- oracle on the real code
SENTINEL = 12345.0
ALL_GENERATORS = ('bivariate_age_income', 'trivariate_xyz', 'univariate_bernoulli', 'univariate_bimodal',
                  'univariate_uniform', 'univariate_normal', 'univariate_degenerate', 'univariate_exponential',
                  'univariate_beta', 'univariates')


def snapshot(x):
    """bitwise copy of a result (labels + float payload), detached from the object."""
    cols = [str(c) for c in x.columns] if isinstance(x, pd.DataFrame) else None
    a = x.to_numpy(dtype=float) if isinstance(x, (pd.DataFrame, pd.Series)) else np.asarray(x, dtype=float)
    return cols, np.array(a, dtype=float, copy=True)


def snap_equal(a, b):
    return a[0] == b[0] and a[1].shape == b[1].shape and a[1].tobytes() == b[1].tobytes()


def buffers(x):
    """the numpy buffers a result exposes (one per column for a frame)."""
    if isinstance(x, pd.DataFrame):
        return [x[c].to_numpy() for c in x.columns]
    if isinstance(x, pd.Series):
        return [x.to_numpy()]
    return [np.asarray(x)]


def aliased(x, y):
    """do two results share the object or any memory?"""
    if x is y:
        return 'same object'
    for a in buffers(x):
        for b in buffers(y):
            try:
                if a.size and b.size and np.shares_memory(a, b):
                    return 'shared memory'
            except Exception:  # noqa
                if a.size and b.size and np.may_share_memory(a, b):
                    return 'shared memory (may)'
    return None


def scribble(x):
    """what a caller may do with HIS result: overwrite it in place, through the object and through
    every writable buffer it exposes."""
    try:
        if isinstance(x, pd.DataFrame):
            for c in list(x.columns):
                x[c] = x[c].to_numpy(dtype=float, copy=True) * -3.0 + 1.0
            x.iloc[:, :] = SENTINEL
        elif isinstance(x, pd.Series):
            x *= -3.0
            x += 1.0
            x.iloc[:] = SENTINEL
        else:
            x[...] = SENTINEL
    except Exception:  # noqa
        pass
    for b in buffers(x):
        try:
            if b.flags.writeable:
                b[...] = SENTINEL
        except Exception:  # noqa
            pass


WRAPPER_CONSEQUENCES = ('global-perturbed', 'not-deterministic', 'own-stream-not-advancing', 'reseed-not-replaying')


def explained_by_seed_ignored(inst):
    """is the wrapper's misbehaviour exactly "the seed is ignored"?  i.e. it behaves as its unseeded
    `_instance` on the global stream and never touches its own random_state.  (Leaves the global
    state as it found it.)"""
    saved = np.random.get_state()
    try:
        s0 = mdig(inst)
        np.random.seed(77)
        a = out_digest(inst.sample(3))
        g1 = gdig()
        np.random.seed(77)
        b = out_digest(inst._instance.sample(3))
        return a == b and g1 == gdig() and mdig(inst) == s0 and inst._instance.random_state is None
    except Exception:  # noqa
        return False
    finally:
        np.random.set_state(saved)


def search(ctx, deep, only=None):
    from copulas import datasets
    rng = ctx.rng('search')
    zoo = [p for p in get_zoo() if only is None or p.name == only]
    table = decorator_table()
    rounds = 6 if deep else 1
    checks = 0
    found = 0

    def fail(p, what, inp, obs, req, inst=None):
        nonlocal found
        found += 1
        cls = f'{p.cls_name}.sample:{what}'
        if p.kind == 'wrapper' and what in WRAPPER_CONSEQUENCES and inst is not None and explained_by_seed_ignored(inst):
            cls = WRAPPER_CLASS
            obs = {'symptom': f'{what}: {obs}',
                   'explanation': 'Univariate.sample is not wrapped by @random_state and delegates to self._instance, which '
                                  'get_instance(best_model) built without the seed: the call returns exactly what the unseeded '
                                  '_instance returns on the global stream; the wrapper\'s random_state is never read nor advanced'}
            req = 'two equal models with the same seed produce identical streams; the global state is left as it was'
        ctx.fail_input(f'{p.cls_name}.sample', dict(inp, proto=p.name), obs, req, cls)

    for _ in range(rounds):
        for p in zoo:
            good = [c for c in p.ok_calls if c.draws and not c.raises]
            after = [c for c in p.ok_calls + p.bad_calls if c.draws and c.raises]
            before = [c for c in p.ok_calls + p.bad_calls if not c.draws and c.raises]
            seed = rng.choice(SEEDS) if rng.random() < 0.7 else rng.choice(SEED_VALUES[:-1])
            as_obj = rng.random() < 0.4
            prior1, prior2 = rng.randrange(1000, 10 ** 6), rng.randrange(1000, 10 ** 6)

            def mk(via_ctor=False):
                rs = np.random.RandomState(seed) if as_obj else seed
                return p.new(rs, via_ctor), rs
            inp = {'seed': seed, 'seed_as': 'RandomState' if as_obj else 'int'}
            # ---- O1 global untouched by every seeded op; O3 successive calls advance
            inst, rs = mk(rng.random() < 0.5)
            rs0 = state_digest(rs.get_state()) if as_obj else None
            np.random.seed(prior1)
            g0 = gdig()
            script = [rng.choice(good) for _ in range(3)] if good else []
            script += [rng.choice(after)] if after else []
            script += [rng.choice(before)] if before else []
            rng.shuffle(script)
            prev = {}
            for c in script:
                s_before = mdig(inst)
                try:
                    out = out_digest(c.run(inst))
                    raised = False
                except Exception:  # noqa
                    out, raised = None, True
                checks += 3
                if gdig() != g0:
                    fail(p, 'global-perturbed', dict(inp, call=c.label, prior=prior1), 'np.random.get_state() changed',
                         'a seeded sample call (returning or raising) leaves the global state as it was', inst)
                    g0 = gdig()
                if raised != c.raises:
                    fail(p, 'unexpected-outcome', dict(inp, call=c.label), 'raised' if raised else 'returned', 'harness expectation')
                if c.draws and mdig(inst) == s_before:
                    fail(p, 'own-stream-not-advancing' if not raised else 'exception-unsafe', dict(inp, call=c.label),
                         'random_state unchanged after a call that consumed draws',
                         'the advanced state is stored back (also on the exceptional path)', inst)
                if not c.draws and mdig(inst) != s_before:
                    fail(p, 'exception-unsafe' if raised else 'state-changed-without-draws', dict(inp, call=c.label),
                         'random_state changed although the body made no draw', 'state after = state before')
                if not raised and p.continuous:
                    if prev.get(c.label) == out:
                        fail(p, 'successive-calls-equal', dict(inp, call=c.label), 'two successive calls returned identical data',
                             'successive calls advance the stream')
                    prev[c.label] = out
            if as_obj:
                checks += 1
                if state_digest(rs.get_state()) != rs0:
                    fail(p, 'caller-randomstate-mutated', inp, 'the RandomState passed as seed was advanced',
                         'the caller\'s object is only read')
            # ---- O2 twins: same seed, same own script, different worlds/interleavings
            if good:
                a, _ = mk(False)
                b, _ = mk(rng.random() < 0.5)
                oproto = rng.choice([q for q in get_zoo() if q.ok_calls and q.kind != 'bad'])
                other = oproto.new(rng.choice([None, 9]), False)
                own =[rng.choice(good) for _ in range(rng.randint(2, 4))]
                reseed_at = rng.randrange(len(own) + 1) if rng.random() < 0.4 else None
                np.random.seed(prior1)
                outs_a = []
                for i, c in enumerate(own):
                    if reseed_at == i:
                        a.set_random_state(seed + 10)
                    outs_a.append(out_digest(c.run(a)))
                np.random.seed(prior2)
                outs_b = []
                for i, c in enumerate(own):
                    for _k in range(rng.randint(0, 2)):
                        r = rng.random()
                        if r < 0.5:
                            try:
                                rng.choice(oproto.ok_calls).run(other)
                            except Exception:  # noqa
                                pass
                        elif r < 0.8:
                            np.random.seed(rng.choice(SEEDS))
                        else:
                            np.random.random(3)
                    if reseed_at == i:
                        b.set_random_state(seed + 10)
                    outs_b.append(out_digest(c.run(b)))
                checks += 2
                if outs_a != outs_b or mdig(a) != mdig(b):
                    k = next((i for i, (x, y) in enumerate(zip(outs_a, outs_b)) if x != y), len(own))
                    fail(p, 'not-deterministic', dict(inp, calls=[c.label for c in own], first_difference_at_call=k,
                                                      priors=[prior1, prior2], reseed_at=reseed_at),
                         'two equal models with the same seed and the same call sequence returned different streams',
                         'the stream is a function of (parameters, seed, own call sequence)', b)
                # re-seeding replays the stream
                a.set_random_state(seed)
                b2, _ = mk(False)
                checks += 1
                if not as_obj and out_digest(own[0].run(a)) != out_digest(own[0].run(b2)):
                    fail(p, 'reseed-not-replaying', dict(inp, call=own[0].label), 'set_random_state(seed) did not restart the stream',
                         'set_random_state(s) then sample == fresh model with seed s', a)
            # ---- O4 unseeded: driven by and reproducible through the global state
            if good:
                u = p.new(None, rng.random() < 0.5)
                c = rng.choice(good)
                k = rng.choice(SEEDS)
                np.random.seed(k)
                g0 = gdig()
                x = out_digest(c.run(u))
                g1 = gdig()
                np.random.seed(prior2)
                np.random.seed(k)
                y = out_digest(c.run(u))
                checks += 2
                if x != y or gdig() != g1:
                    fail(p, 'unseeded-not-reproducible', {'global_seed': k, 'call': c.label}, 'different data after the same np.random.seed',
                         'without a seed sampling is reproducible through the global state')
                if g1 == g0 or u.random_state is not None:
                    fail(p, 'unseeded-not-global', {'global_seed': k, 'call': c.label}, 'the global state did not move',
                         'without a seed sampling is driven by the global state')
            # ---- O5 exception after draws stores exactly the advanced state (bivariates: same consumption as a valid one)
            if after:
                c = rng.choice(after)
                inst, _ = mk(False)
                try:
                    c.run(inst)
                except Exception:  # noqa
                    pass
                ref = next(q for q in get_zoo() if q.kind == 'biv').new(np.random.RandomState(seed) if as_obj else seed, False)
                ref.sample(*c.args)
                checks += 1
                if mdig(inst) != mdig(ref):
                    fail(p, 'exception-unsafe', dict(inp, call=c.label), 'state after the raising call differs from the state after the same draws',
                         'finally stores the advanced state')
    # ---- O8 results belong to the caller: no aliasing between calls, edits never leak into later calls
    for _ in range(rounds):
        for p in zoo:
            good = [c for c in p.ok_calls if c.draws and not c.raises]
            if not good:
                continue
            seed = rng.choice(SEEDS)
            calls = [rng.choice(good) for _ in range(3)]
            a, ref = p.new(seed, False), p.new(seed, rng.random() < 0.5)
            inp = {'seed': seed, 'calls': [c.label for c in calls]}
            expected = [snapshot(c.run(ref)) for c in calls]           # untouched twin
            results, first_snap = [], None
            for k, c in enumerate(calls):
                r = c.run(a)
                checks += 2
                for j, old_r in enumerate(results):
                    why = aliased(r, old_r)
                    if why:
                        fail(p, 'result-aliased-across-calls', dict(inp, call=k, earlier_call=j), why,
                             'every call returns a fresh object sharing no memory with earlier results')
                if not snap_equal(snapshot(r), expected[k]):
                    fail(p, 'not-deterministic-after-caller-edit', dict(inp, call=k),
                         'after the caller overwrote the results of the earlier calls, this call differs from the same call '
                         'of an equal model with the same seed whose results were left alone',
                         'the stream is a function of (parameters, seed, own call sequence)')
                if first_snap is None:
                    first_snap = snapshot(r)
                results.append(r)
                scribble(r)
            # same seed again: the first result's snapshot must come back
            a.set_random_state(seed)
            again = calls[0].run(a)
            checks += 2
            why = next((w for w in (aliased(again, r) for r in results) if w), None)
            if why:
                fail(p, 'result-aliased-across-calls', dict(inp, call='replay of call 0 after set_random_state(seed)'), why,
                     'every call returns a fresh object')
            if not snap_equal(snapshot(again), first_snap):
                fail(p, 'not-deterministic-after-caller-edit', dict(inp, call='replay of call 0 after set_random_state(seed)'),
                     'differs from the snapshot of the first result taken before the caller edited it',
                     'set_random_state(s) then sample == the first sample of a model seeded with s')
    # ---- O9 dataset generators: same, for every generator and through every generator that composes another
    for _ in range(2 * rounds):
        size, seed = rng.choice((1, 2, 7, 50)), rng.choice((0, 3, 42, 12345))
        inp = {'size': size, 'seed': seed}
        gens = {n: getattr(datasets, 'sample_' + n) for n in ALL_GENERATORS}
        # positional and keyword calls (a memoising wrapper keys them differently; the library calls positionally)
        first = {n: f(size, seed) for n, f in gens.items()}
        snaps = {n: snapshot(r) for n, r in first.items()}
        second = {n: f(size=size, seed=seed) for n, f in gens.items()}

        def dsfail(name, what, obs, req, extra=None):
            nonlocal found
            found += 1
            ctx.fail_input(f'datasets.sample_{name}', dict(inp, **(extra or {})), obs, req, f'datasets.sample_{name}:{what}')
        for n in ALL_GENERATORS:
            checks += 2
            if not snap_equal(snapshot(second[n]), snaps[n]):
                dsfail(n, 'not-deterministic', 'two calls with the same (size, seed) differ', 'deterministic in (size, seed)')
            same_style = [gens[n](size, seed), gens[n](size=size, seed=seed)]
            why = aliased(first[n], second[n]) or aliased(first[n], same_style[0]) or aliased(second[n], same_style[1])
            if why:
                dsfail(n, 'result-aliased-across-calls', f'two calls with the same arguments returned {why}',
                       'equal but distinct objects sharing no memory')
            for n2 in ALL_GENERATORS:
                if n2 < n:
                    why = aliased(first[n], first[n2]) or aliased(first[n], second[n2])
                    if why:
                        dsfail(n, 'result-aliased-across-calls', f'{why} with the result of sample_{n2}',
                               'results of different generators share no memory', {'other': n2})
        # the caller edits everything he was given, in place
        order = list(ALL_GENERATORS)
        rng.shuffle(order)
        for n in order:
            scribble(first[n])
            scribble(second[n])
        np.random.seed(rng.randrange(10 ** 6))
        rng.shuffle(order)
        for n in order:
            checks += 1
            third = gens[n](size, seed) if rng.random() < 0.5 else gens[n](size=size, seed=seed)
            if not snap_equal(snapshot(third), snaps[n]):
                sn = snapshot(third)
                k = int(np.argmax(sn[1].ravel() != snaps[n][1].ravel())) if sn[1].shape == snaps[n][1].shape else -1
                dsfail(n, 'not-deterministic-after-caller-edit',
                       {'first_differing_cell': k, 'before': float(snaps[n][1].ravel()[k]) if k >= 0 else None,
                        'after': float(sn[1].ravel()[k]) if k >= 0 else None},
                       'after the caller overwrote earlier results in place, the same (size, seed) must still give the '
                       'first result bit for bit (directly and through every generator built on another)')
            scribble(third)
    # ---- O6 datasets
    names = list(DATASETS) + ['univariate_bimodal']
    for name in names:
        f = getattr(datasets, 'sample_' + name)
        for _ in range(3 * rounds):
            size = rng.choice((1, 2, 7, 50, 333))
            seed = rng.choice((0, 1, 42, 12345))
            np.random.seed(rng.randrange(10 ** 6))
            g0 = gdig()
            a = f(size=size, seed=seed)
            g1 = gdig()
            np.random.seed(rng.randrange(10 ** 6))
            b = f(size=size, seed=seed)
            c = f(size=size, seed=seed + 1)
            checks += 4
            inp = {'size': size, 'seed': seed}

            def dfail(what, obs, req):
                nonlocal found
                found += 1
                ctx.fail_input(f'datasets.sample_{name}', inp, obs, req, f'datasets.sample_{name}:{what}')
            if g1 != g0:
                dfail('global-perturbed', 'np.random.get_state() changed', 'the generators leave the global state untouched')
            if out_digest(a) != out_digest(b):
                dfail('not-deterministic', 'two calls with the same (size, seed) differ', 'deterministic in (size, seed)')
            if len(a) != size:
                dfail('rows', len(a), f'exactly {size} rows')
            if name != 'univariate_bernoulli' and out_digest(a) == out_digest(c):
                dfail('seed-ignored', 'seed and seed+1 give identical data', 'the data depend on the seed')
    for _ in range(2 * rounds):
        size, seed = rng.choice((1, 5, 40)), rng.choice((0, 42))
        np.random.seed(rng.randrange(10 ** 6))
        g0 = gdig()
        df = datasets.sample_univariates(size=size, seed=seed)
        checks += 2
        bad = [col for col in df.columns
               if out_digest(df[col]) != out_digest(getattr(datasets, 'sample_univariate_' + col)(size=size, seed=seed))]
        if gdig() != g0 or len(df) != size or bad:
            found += 1
            ctx.fail_input('datasets.sample_univariates', {'size': size, 'seed': seed},
                           {'global_changed': gdig() != g0, 'rows': len(df), 'columns_differing': bad},
                           'deterministic, size rows, global untouched', 'datasets.sample_univariates:contract')
    # ---- O10 seed values: int s == RandomState(s) == np.random.seed(s); distinct seeds, distinct streams
    def seed_fail(entry, what, inp, obs, req):
        nonlocal found
        found += 1
        ctx.fail_input(entry, inp, obs, req, f'validate_random_state:{what}')

    def collide_key(s1, s2):
        return 'large-int-seed-collides' if max(s1, s2) >= 2 ** 31 else 'int-seeds-collide'
    protos = [p for p in zoo if [c for c in p.ok_calls if c.draws and not c.raises]]
    if not deep and len(protos) > 8:
        # quick tier: one prototype of every kind + a few random ones, all seed values each
        kinds = {}
        for p in protos:
            kinds.setdefault(p.kind, []).append(p)
        protos = [rng.choice(v) for v in kinds.values()] + rng.sample(protos, 4)
    for p in protos:
        c = rng.choice([c for c in p.ok_calls if c.draws and not c.raises])
        firsts = {}
        for s_val in SEED_VALUES:
            inp = {'proto': p.name, 'seed': s_val, 'call': c.label}
            np.random.seed(rng.randrange(1000, 10 ** 6))
            a = p.new(s_val, rng.random() < 0.5)
            x = snapshot(c.run(a))
            u = p.new(None, False)
            np.random.seed(s_val)
            y = snapshot(c.run(u))
            np.random.seed(rng.randrange(1000, 10 ** 6))
            rs = np.random.RandomState(s_val)
            z = snapshot(c.run(p.new(rs, False)))
            b = p.new(1, False)
            b.set_random_state(s_val)
            t = snapshot(c.run(b))
            checks += 3
            if not (snap_equal(x, y) and snap_equal(x, z) and snap_equal(x, t)):
                seed_fail(f'{p.cls_name}.sample', 'int-seed-not-the-RandomState-of-it', inp,
                          {'equals_unseeded_after_np_random_seed': snap_equal(x, y), 'equals_RandomState_seed': snap_equal(x, z),
                           'ctor_equals_set_random_state': snap_equal(x, t)},
                          'model(seed=s).sample == equal unseeded model after np.random.seed(s) == model(seed=RandomState(s)).sample')
            for s_old, x_old in firsts.items():
                checks += 1
                if p.continuous and snap_equal(x, x_old):
                    seed_fail(f'{p.cls_name}.sample', collide_key(s_val, s_old), dict(inp, other_seed=s_old),
                              'two equal models with different seeds returned the same data',
                              'the stream is a function of the seed: distinct seeds give distinct streams')
            firsts[s_val] = x
            # numpy integer scalars: either rejected (TypeError, nothing touched) or the same as the int
            if rng.random() < 0.35:
                for T in (np.int64, np.uint32):
                    if s_val > np.iinfo(T).max:
                        continue
                    m = p.new(3, False)
                    before = mdig(m)
                    checks += 1
                    try:
                        m.set_random_state(T(s_val))
                    except TypeError:
                        if mdig(m) != before:
                            seed_fail(f'{p.cls_name}.set_random_state', 'rejected-seed-changes-state', dict(inp, type=T.__name__),
                                      'random_state changed although the seed was rejected', 'a rejected seed leaves the model as it was')
                        continue
                    if not snap_equal(snapshot(c.run(m)), x):
                        seed_fail(f'{p.cls_name}.sample', 'numpy-int-seed-differs-from-int', dict(inp, type=T.__name__),
                                  'an accepted numpy integer seed gives another stream than the equal int', 'same value, same stream')
    # ---- O11 dataset generators: seed values; a RandomState given as seed is only read
    gens = {n: getattr(datasets, 'sample_' + n) for n in ALL_GENERATORS}
    for n, f in gens.items():
        size = rng.choice((1, 3, 20))
        firsts = {}
        for s_val in SEED_VALUES:
            inp = {'size': size, 'seed': s_val}
            x = snapshot(f(size, s_val))
            rs = np.random.RandomState(s_val)
            d0 = state_digest(rs.get_state())
            np.random.seed(rng.randrange(10 ** 6))
            g0 = gdig()
            r1 = snapshot(f(size, rs))
            d1 = state_digest(rs.get_state())
            r2 = snapshot(f(size=size, seed=rs))
            checks += 4

            def dsf(what, obs, req, key=None):
                nonlocal found
                found += 1
                ctx.fail_input(f'datasets.sample_{n}', dict(inp, seed_as='np.random.RandomState(seed)'), obs, req,
                               key or f'datasets.sample_{n}:{what}')
            if d1 != d0 or state_digest(rs.get_state()) != d0:
                dsf('caller-randomstate-mutated', 'the RandomState passed as seed was advanced', 'the caller\'s object is only read')
            if not snap_equal(r1, r2):
                dsf('randomstate-seed-not-repeatable', 'two calls with the same (size, seed object) differ', 'deterministic in (size, seed)')
            if not snap_equal(r1, x):
                dsf('randomstate-seed-differs-from-int', 'RandomState(s) as seed gives other data than the int s',
                    'validate_random_state(s) is RandomState(s)')
            if gdig() != g0:
                dsf('global-perturbed', 'np.random.get_state() changed', 'the generators leave the global state untouched')
            for s_old, x_old in firsts.items():
                checks += 1
                if n not in ('univariate_bernoulli',) and snap_equal(x, x_old):
                    found += 1
                    ctx.fail_input(f'datasets.sample_{n}', dict(inp, other_seed=s_old), 'different seeds, identical data',
                                   'the data are a function of the seed: distinct seeds give distinct data',
                                   f'validate_random_state:{collide_key(s_val, s_old)}')
            firsts[s_val] = x
            for T in (np.int64, np.uint32):
                if s_val <= np.iinfo(T).max and rng.random() < 0.2:
                    checks += 1
                    try:
                        y = snapshot(f(size, T(s_val)))
                    except TypeError:
                        continue
                    if not snap_equal(y, x):
                        dsf('numpy-int-seed-differs-from-int', f'{T.__name__}({s_val}) gives other data than the int', 'same value, same data')
    # ---- O12 conditional Gaussian sampling: a condition is a MAPPING column -> value; dict-equal conditions
    #      (other insertion order, or a Series) are the same call: equal models, same seed => identical bits
    if only is None or only.startswith('GaussianMultivariate'):
        for label, proto in cond_models():
            cols = list(proto.columns)
            for _ in range(2 * rounds):
                k = rng.choice((2, 3, 4))
                picked = set(rng.sample(cols, k))
                chosen = [c for c in cols if c in picked]                            # model column order
                conds = {c: round(rng.uniform(-1.5, 1.5), 3) if c != 'f' else round(rng.uniform(0.3, 2.0), 3) for c in chosen}
                seed = rng.choice(SEED_VALUES + SEEDS)
                as_obj = rng.random() < 0.5
                n1 = rng.choice((1, 3, 4))

                def drive(mapping):
                    m = copy.deepcopy(proto)
                    m.set_random_state(np.random.RandomState(seed) if as_obj else seed)
                    return [snapshot(m.sample(r, conditions=cd)) for r, cd in ((3, None), (n1, mapping), (2, mapping), (3, None))]
                np.random.seed(rng.randrange(1000, 10 ** 6))
                g0 = gdig()
                reference = drive(dict(conds))
                rev = {c: conds[c] for c in reversed(chosen)}
                perm = list(chosen)
                rng.shuffle(perm)
                variants = [('dict, reversed key order', rev), ('dict, permuted key order', {c: conds[c] for c in perm}),
                            ('Series, column order', pd.Series(conds)), ('Series, reversed', pd.Series(rev)),
                            ('Series, permuted', pd.Series({c: conds[c] for c in perm}))]
                for vlabel, mapping in variants:
                    checks += 1
                    inp = {'model': label, 'columns': cols, 'conditions': conds, 'given_as': vlabel,
                           'key_order': [str(c) for c in (mapping.index if isinstance(mapping, pd.Series) else mapping)],
                           'seed': seed, 'seed_as': 'RandomState' if as_obj else 'int',
                           'calls': [[3, None], [n1, 'conditions'], [2, 'conditions'], [3, None]]}
                    try:
                        got = drive(mapping)
                    except Exception as e:  # noqa
                        found += 1
                        ctx.fail_input('GaussianMultivariate.sample', inp, f'raised {type(e).__name__}: {str(e)[:80]}',
                                       'dict-equal conditions are the same call', 'GaussianMultivariate.sample:conditions-container-rejected')
                        continue
                    diff = [i for i, (a, b) in enumerate(zip(reference, got)) if not snap_equal(a, b)]
                    if diff:
                        found += 1
                        i = diff[0]
                        worst = float(np.nanmax(np.abs(reference[i][1] - got[i][1]))) if reference[i][1].shape == got[i][1].shape else None
                        ctx.fail_input('GaussianMultivariate.sample', inp,
                                       {'first_differing_call': i, 'max_abs_diff': worst},
                                       'two equal models with the same seed and the same (dict-equal) sequence of calls produce '
                                       'bit-identical streams', 'GaussianMultivariate.sample:conditions-order-changes-stream')
                checks += 1
                if gdig() != g0:
                    found += 1
                    ctx.fail_input('GaussianMultivariate.sample', {'model': label, 'conditions': conds, 'seed': seed},
                                   'np.random.get_state() changed', 'seeded conditional sampling leaves the global state as it was',
                                   'GaussianMultivariate.sample:global-perturbed')
    # ---- O13 size histories: large calls (around 2**15 and beyond) interleaved with small ones
    if only is None:
        for label, cls_name, build in size_models():
            for _ in range(1 if not deep else 3):
                seed = rng.choice(SEED_VALUES + SEEDS)
                as_obj = rng.random() < 0.5
                sizes = [rng.choice(BIG_NS), rng.choice(BIG_NS[1:]), 3, rng.choice(BIG_NS), rng.choice((1, 3))]
                rng.shuffle(sizes)
                sizes = sizes + [sizes[0]]                      # the first size again: same size, later position
                inp = {'model': label, 'seed': seed, 'seed_as': 'RandomState' if as_obj else 'int', 'sizes': sizes}

                def szfail(what, obs, req, extra=None):
                    nonlocal found
                    found += 1
                    ctx.fail_input(f'{cls_name}.sample', dict(inp, **(extra or {})), obs, req, f'{cls_name}.sample:{what}')

                def mk():
                    return build(np.random.RandomState(seed) if as_obj else seed)
                a, b, u = mk(), mk(), build(None)
                np.random.seed(rng.randrange(1000, 10 ** 6))
                g0 = gdig()
                outs_a = []
                for k, n in enumerate(sizes):
                    s_before = mdig(a)
                    r = a.sample(n)
                    checks += 4
                    if gdig() != g0:
                        szfail('global-perturbed', 'np.random.get_state() changed', 'a seeded call leaves the global state as it was', {'call': k})
                        g0 = gdig()
                    if len(r) != n:
                        szfail('rows', len(r), f'{n} rows', {'call': k})
                    if mdig(a) == s_before:
                        szfail('large-call-stream-not-advancing', 'random_state unchanged after the call',
                               'the advanced state is stored back', {'call': k, 'n': n})
                    sn = snapshot(r)
                    for j, old_sn in enumerate(outs_a):
                        m_ = min(len(sn[1]), len(old_sn[1]), 3)
                        if m_ and sn[1][:m_].tobytes() == old_sn[1][:m_].tobytes():
                            szfail('large-call-stream-not-advancing',
                                   f'call {k} (n={n}) starts with the same {m_} rows as the earlier call {j} (n={sizes[j]}): the stream was replayed',
                                   'successive calls consume consecutive segments of the stream', {'call': k, 'earlier_call': j})
                            break
                    outs_a.append(sn)
                # reproducible from the seed, whatever the global state
                np.random.seed(rng.randrange(1000, 10 ** 6))
                outs_b = [snapshot(b.sample(n)) for n in sizes]
                # the seeded stream IS the global stream started at np.random.seed(seed): an unseeded equal model
                np.random.seed(seed)
                outs_u = [snapshot(u.sample(n)) for n in sizes]
                checks += 2
                bad = [k for k, (x, y) in enumerate(zip(outs_a, outs_b)) if not snap_equal(x, y)]
                if bad or mdig(a) != mdig(b):
                    szfail('large-call-not-reproducible', {'calls_differing': bad, 'final_state_equal': mdig(a) == mdig(b)},
                           'two equal models with the same seed and the same call sizes return identical streams')
                bad = [k for k, (x, y) in enumerate(zip(outs_a, outs_u)) if not snap_equal(x, y)]
                if bad:
                    szfail('large-call-differs-from-global-seeded-stream', {'calls_differing': bad, 'first': bad[0], 'n': sizes[bad[0]]},
                           'model(seed=s) driven through sample(n1), sample(n2), ... returns what the equal unseeded model returns '
                           'after np.random.seed(s) (consecutive segments of one stream)')
    ctx.support = {'oracle_checks': checks, 'failures': found, 'deep': deep,
                   'table': 'repaired' if table.get('Univariate') else 'as-found'}


BIG_NS = (3, 32768, 32769, 40000, 70000)
_SIZE = None


def size_models():
    """sampler classes cheap enough at n ~ 70000: (label, class name, build(seed))."""
    global _SIZE
    if _SIZE is None:
        from copulas import univariate as U
        from copulas.bivariate import Clayton
        from copulas.multivariate import GaussianMultivariate
        g = np.random.RandomState(7)
        xy = g.multivariate_normal([0.0, 1.0], [[1.0, 0.6], [0.6, 2.0]], size=200)
        data = pd.DataFrame(xy, columns=['x', 'y'])
        gm = GaussianMultivariate(distribution=U.GaussianUnivariate)
        gm.fit(data)
        gu = U.GaussianUnivariate()
        gu.fit(xy[:, 0])
        uu = U.UniformUnivariate()
        uu.fit(xy[:, 1])

        def clone(proto):
            def build(seed):
                m = copy.deepcopy(proto)
                m.set_random_state(seed)
                return m
            return build

        def clayton(seed):
            c = Clayton(random_state=seed)
            c.theta, c.tau = 2.0, 0.5
            return c
        _SIZE = [('GaussianMultivariate(2 cols, gauss)', 'GaussianMultivariate', clone(gm)),
                 ('Clayton(2.0)', 'Clayton', clayton),
                 ('GaussianUnivariate', 'GaussianUnivariate', clone(gu)),
                 ('UniformUnivariate', 'UniformUnivariate', clone(uu))]
    return _SIZE


_COND = None


def cond_models():
    """two fitted six-column GaussianMultivariate models (fits are outside C15), for conditional sampling."""
    global _COND
    if _COND is None:
        from copulas import univariate as U
        from copulas.multivariate import GaussianMultivariate
        g = np.random.RandomState(1)
        z = g.normal(size=(300, 6))
        data = pd.DataFrame(z @ g.normal(size=(6, 6)), columns=list('abcdef'))
        data['f'] = np.exp(data['f'] / 3)
        data['c'] = data['c'] ** 3
        _COND = []
        for label, dist in (('gauss', U.GaussianUnivariate),
                            ('mixed', {'a': U.UniformUnivariate, 'c': U.GaussianKDE, 'f': U.GammaUnivariate, 'b': U.GaussianUnivariate,
                                       'd': U.StudentTUnivariate, 'e': U.GaussianUnivariate})):
            m = GaussianMultivariate(distribution=dist)
            m.fit(data)
            _COND.append((f'GaussianMultivariate(6 cols, {label})', m))
    return _COND


def replay(ctx, payload):
    before = len(ctx.failing)
    only = (payload.get('input') or {}).get('proto')
    search(ctx, True, only=only if any(p.name == only for p in get_zoo()) else None)
    return any(f['class'] == payload.get('class') for f in ctx.failing[before:])
