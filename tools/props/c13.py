"""C13 — Gaussian-copula density/CDF equal the normal-score MVN, in any representation."""
import hashlib
import math
import warnings

import numpy as np
import pandas as pd
from scipy import stats

import vcommon as vc

warnings.filterwarnings('ignore')

GEN_TARGETS = ('GaussTransform',)
DRIVER_MAIN = 'Main/GaussTransform.lean'
DRIVER_TARGETS = ['CopVerif.Driver.GaussTransform']
ALWAYS_SEARCH = True
RULE = ('fitted GaussianMultivariate models of 2-6 columns x 40-150 training rows drawn from a random latent '
        'correlation; marginals per column from Gaussian / Gamma / Beta / Uniform / GaussianKDE plus derived columns '
        '(constant, exact affine copy, near-copy with 1e-6 noise); labels are strings (incl. spaces, unicode), ints '
        '(shuffled, non-contiguous) or mixed; the `distribution` argument cycles through: one class, one qualified name, '
        'one instance, full dict in table order, full dict with permuted keys, partial dict naming an inner / the last / a '
        'leading column (unnamed columns: default Univariate), dict with an unknown key, ndarray training input with an '
        'int-keyed dict.  The TRAINING-TABLE column order is kept separately from model.columns: plain arrays are '
        'presented in table order and must agree with the labelled forms and with the reference addressed by label.  '
        'Query batches of 1-50 rows (search: up to 200): training rows, '
        'jittered training rows, points 10^1..10^8 standard deviations outside, mixed.  Every batch is presented as: '
        'DataFrame in training order, 2-3 column permutations, with 1-2 extra columns interleaved, 2-d array, '
        'and for single rows Series (training and permuted index) and 1-d array; plus a malformed stream (subsets of '
        'the training columns: none / exactly one / some; wrong-width arrays; duplicated labels; unfitted model; '
        'empty batch).  A case is distinct by (model digest, operation, container form, batch digest) and '
        'non-trivial when the container is not the training-order DataFrame or the batch has a far-out point')
PARTIAL = ['"equals the MVN density / CDF": scipy.stats.multivariate_normal.pdf/cdf are external symbols (MVNPDF, MVNCDF) in '
           'the theorems; that the code hands them the normal scores and the STORED correlation is what is proved/tied. '
           'The closed form exp(-q/2)/sqrt((2pi)^d det) is the executable Cholesky model: proved positive whenever the '
           'factorisation succeeds (mvn_pdf_pos), equal to exp of the log form (mvn_pdf_eq_exp_log), compared with the real '
           'probability_density on the real scores every run (d <= 6, cond <= 1e9); that the factorisation succeeds for every '
           'symmetric positive definite matrix of every dimension, with L lower triangular, positive diagonal and '
           'L L^T = Sigma, is proved in Props/C13b (cholesky_defined, mvn_pdf_defined); NOT proved: that maha L z equals '
           'z^T Sigma^-1 z, i.e. that the Cholesky form is the textbook N(0, Sigma) density',
           'cdf_range / cdf_mono_coord are proved GIVEN MVNCDFSpec and monotone marginal CDFs (MonoExt); scipy computes the CDF '
           'by randomised quasi-Monte-Carlo (noise ~1e-5), so the real values are only checked to 1e-3 on well-separated points',
           'floating point: theorems are about symbolic plans / the reals; binary64 effects (e.g. the last-bit difference of a '
           'GaussianKDE cdf evaluated alone vs in a batch) are covered by the tie only',
           'a frame holding only SOME training columns is outside the property; modelled as found (exactly one column: scipy '
           'broadcasts x - mean and returns the density at (z,...,z); otherwise ValueError) and tied, not flagged',
           'an empty batch is outside the property (batches of size >= 1); modelled as found (pdf: empty result; cdf: ValueError)']
ASSUMPTIONS = ['pandas label semantics: `name in frame` tests the column labels, frame[name] selects by label, '
               'Series.to_frame().T has the Series index as columns, DataFrame(arr, columns=c) labels positionally; '
               'validated by the plan tie every run',
               'numpy/scipy element-wise functions act per element (cdf of a column = map of cdf over its cells)',
               'scipy.stats.multivariate_normal.pdf/cdf act per row of the score matrix (validated: row alone vs batch)',
               'MVNCDFSpec: the MVN CDF is coordinate-wise monotone with values in [0,1] (validated to 1e-3)',
               'fitted marginal CDFs are monotone (hypothesis of scores_mono; validated on the query grid)']

EPS_CDF = 1e-3          # never compare cdf values tighter than this (QMC noise, DESIGN 8)
COND_MAX = 1e9          # beyond this scipy's pseudo-inverse drops eigenvalues (cut-off 1e6*eps*max): no Cholesky comparison
FAMS = ('gaussian', 'gamma', 'beta', 'uniform', 'kde')


# =========================================================================================== helpers
def tok(label):
    """injective, type-tagged, space-free token of a column label."""
    if isinstance(label, (int, np.integer)) and not isinstance(label, (bool, np.bool_)):
        return f'i{int(label)}'
    return 's' + str(label).encode('utf8').hex()


def digest(*arrs):
    h = hashlib.sha256()
    for a in arrs:
        h.update(repr(a).encode() if not isinstance(a, np.ndarray) else np.ascontiguousarray(a, dtype=float).tobytes())
    return h.hexdigest()[:12]


def same_bits(a, b):
    a, b = np.atleast_1d(np.asarray(a, dtype=float)), np.atleast_1d(np.asarray(b, dtype=float))
    return a.shape == b.shape and bool(np.array_equal(a, b, equal_nan=True))


def first_diff(a, b):
    a, b = np.atleast_1d(np.asarray(a, dtype=float)), np.atleast_1d(np.asarray(b, dtype=float))
    if a.shape != b.shape:
        return f'shape {a.shape} vs {b.shape}'
    bad = ~((a == b) | (np.isnan(a) & np.isnan(b)))
    idx = np.argwhere(bad)
    if not len(idx):
        return None
    i = tuple(idx[0])
    return f'at {i}: {a[i]!r} vs {b[i]!r} ({int(bad.sum())} of {a.size} differ)'


def call(f):
    """-> ('ok', 1-d float array) | ('err', kind)"""
    try:
        with np.errstate(all='ignore'):
            r = f()
        return ('ok', np.atleast_1d(np.asarray(r, dtype=float)))
    except Exception as e:  # noqa
        return ('err', vc.exc_kind(e))


# =========================================================================================== fitted models
class M:
    """a fitted model + what the generators need about its training data."""

    def __init__(self, model, train, labels, fams, tag, config='dict-full'):
        # `labels`: the column labels of the TRAINING TABLE in table order (what a plain array is read in);
        # `cols`: model.columns, the order the model stores its univariates / correlation in (what the Lean
        # model's `cols` is).  The property demands nothing about `cols`, only about `labels`.
        self.model, self.train, self.labels, self.fams, self.tag = model, train, list(labels), fams, tag
        self.config = config
        self.cols = list(model.columns)
        self.d = len(labels)
        self.mu = train.mean(axis=0)
        sd = train.std(axis=0)
        self.sd = np.where(sd > 0, sd, 1.0)
        self.corr = model.correlation.to_numpy().astype(float)
        with np.errstate(all='ignore'):
            self.cond = float(np.linalg.cond(self.corr))
        try:                                   # scipy's verdict on the stored correlation = the symbol SINGULAR
            stats.multivariate_normal(mean=None, cov=self.corr, allow_singular=False)
            self.singular = False
        except Exception:  # noqa
            self.singular = True
        self.kde = any(type(u).__name__ == 'GaussianKDE' or type(getattr(u, '_instance', None)).__name__ == 'GaussianKDE'
                       for u in model.univariates)
        self.id = digest(train, [tok(l) for l in labels], fams, config)


def _labels(rng, d, force=None):
    if force == 'permrange':          # integer labels 0..d-1 in a NON-natural table order (e.g. [2, 0, 1])
        pool = list(range(d))
        while pool == list(range(d)):
            rng.shuffle(pool)
        return pool, 'int'
    kind = rng.choice(['str', 'str', 'int', 'int', 'mixed'])
    names = ['a', 'b', 'col c', 'Δ', 'x1', 'y', '0', '1', 'zz top', 'w']
    if kind == 'str':
        return rng.sample(names, d), kind
    if kind == 'int':
        pool = list(range(d)) if rng.random() < 0.5 else rng.sample(range(-3, 40), d)
        rng.shuffle(pool)
        return pool, kind
    ls = rng.sample(names, d)
    for i in rng.sample(range(d), max(1, d // 2)):
        ls[i] = 100 + i
    return ls, kind


CONFIGS = ('dict-full', 'class', 'name', 'instance', 'dict-full-permuted', 'dict-partial-inner', 'dict-partial-last',
           'dict-partial-leading', 'dict-unknown-key', 'array-train-int-dict')
FQN = {'gaussian': 'copulas.univariate.gaussian.GaussianUnivariate', 'gamma': 'copulas.univariate.gamma.GammaUnivariate',
       'beta': 'copulas.univariate.beta.BetaUnivariate', 'uniform': 'copulas.univariate.uniform.UniformUnivariate',
       'kde': 'copulas.univariate.gaussian_kde.GaussianKDE'}


def make_model(rng, nr, force=None, config='dict-full', labels_force=None):
    from copulas.multivariate import GaussianMultivariate
    from copulas.univariate import BetaUnivariate, GammaUnivariate, GaussianKDE, GaussianUnivariate, UniformUnivariate
    cls = {'gaussian': GaussianUnivariate, 'gamma': GammaUnivariate, 'beta': BetaUnivariate,
           'uniform': UniformUnivariate, 'kde': GaussianKDE}
    d = rng.choice([2, 2, 3, 3, 4, 5, 6])
    n = rng.choice([40, 80, 150])
    if config.startswith('dict-partial') or config in ('dict-unknown-key', 'array-train-int-dict'):
        # unnamed columns get the default `Univariate` (family selection, ~0.2 s per column): keep these small
        d, n = max(d, 3) if d <= 4 else 4, min(n, 80)
    A = nr.normal(size=(d, d))
    S = A @ A.T + rng.choice([0.05, 0.5, 3.0]) * np.eye(d)
    s = 1 / np.sqrt(np.diag(S))
    C = S * s[:, None] * s[None, :]
    Z = nr.multivariate_normal(np.zeros(d), C, size=n)
    cols, fams, dist = [], [], {}
    labels, lkind = _labels(rng, d, labels_force)
    if config == 'array-train-int-dict':
        labels, lkind = list(range(d)), 'int'      # what pd.DataFrame(ndarray) names the columns
    single = rng.choice(['gaussian', 'uniform', 'kde']) if config in ('class', 'name', 'instance') else None
    special = force if force is not None else rng.choice(['none', 'none', 'none', 'const', 'copy', 'nearcopy'])
    pool = FAMS
    if special == 'parametric':          # scipy marginals only: their cdf accepts the 2-d block of a duplicated label
        special, pool = 'none', ('gaussian', 'uniform')
    for j in range(d):
        fam = rng.choice(pool)
        if single is not None:
            fam = single if single in pool else 'gaussian'
        if j == 0 and single is None and special in ('copy', 'nearcopy'):
            # the base column of a dependent pair: a family whose fit is affine-equivariant, so that the two score
            # columns coincide (up to the noise) and the stored correlation is (near-)singular
            fam = rng.choice(['gaussian', 'uniform', 'kde'] + (['gamma'] if special == 'nearcopy' else []))
        z = Z[:, j]
        if fam == 'gaussian':
            x = rng.choice([1e-3, 1.0, 250.0]) * z + rng.choice([0.0, -7.0, 1e4])
        elif fam == 'gamma':
            x = np.exp(0.6 * z) * rng.choice([0.1, 1.0, 30.0])
        elif fam == 'beta':
            x = stats.norm.cdf(z) * 0.98 + 0.01
        elif fam == 'uniform':
            x = stats.norm.cdf(z) * rng.choice([1.0, 50.0]) + rng.choice([0.0, -20.0])
        else:
            x = z + np.where(nr.rand(n) < 0.5, 2.5, -2.5)
        cols.append(x)
        fams.append(fam)
    if special != 'none' and d >= 2:
        j = rng.randrange(1, d)
        if special == 'const':
            cols[j] = np.full(n, rng.choice([0.0, 3.0, -2.5, 250.0, 1e4, -1e-3]))
            fams[j] = 'gaussian'
        elif special == 'copy':
            cols[j] = cols[0] * 2.0 + 1.0
            fams[j] = fams[0]
        else:
            cols[j] = cols[0] + rng.choice([1e-7, 1e-6, 1e-5]) * nr.normal(size=n) * np.std(cols[0])
            fams[j] = fams[0]
        fams[j] = fams[j] + '*' + special
    train = np.column_stack(cols)
    df = pd.DataFrame(train, columns=labels)

    def value(fam):        # a dict value in one of the three accepted spellings
        fam = fam.split('*')[0]
        return rng.choice([cls[fam], cls[fam], FQN[fam], cls[fam]()])
    if config == 'class':
        dist = cls[fams[0].split('*')[0]]
    elif config == 'name':
        dist = FQN[fams[0].split('*')[0]]
    elif config == 'instance':
        dist = cls[fams[0].split('*')[0]]()
    else:
        named = list(range(d))
        if config == 'dict-full-permuted':
            while d >= 2 and named == list(range(d)):
                rng.shuffle(named)
        elif config == 'dict-partial-inner':
            named = [rng.randrange(1, d - 1)] if d >= 3 else [d - 1]
        elif config == 'dict-partial-last':
            named = [d - 1] + ([rng.randrange(1, d - 1)] if d >= 3 and rng.random() < 0.4 else [])
        elif config == 'dict-partial-leading':
            named = list(range(rng.randrange(1, d)))
        elif config in ('dict-unknown-key', 'array-train-int-dict'):
            k = rng.choice(['full', 'nonleading', 'nonleading'])
            named = list(range(d)) if k == 'full' else sorted(rng.sample(range(1, d), rng.randrange(1, d)), reverse=rng.random() < 0.5)
        dist = {}
        if config == 'dict-unknown-key' and rng.random() < 0.5:
            dist['no such column'] = cls['kde']
        for j in named:
            dist[labels[j]] = value(fams[j]) if config != 'dict-full' else cls[fams[j].split('*')[0]]
        if config == 'dict-unknown-key' and len(dist) == len(named):
            dist[rng.choice(['no such column', 4242])] = cls['kde']
        fams = [f if j in named else 'auto' + ('*' + f.split('*')[1] if '*' in f else '') for j, f in enumerate(fams)]
    model = GaussianMultivariate(distribution=dist)
    model.fit(train if config == 'array-train-int-dict' else df)
    mm = M(model, train, labels, fams, f'd={d} n={n} labels={lkind} special={special} config={config}', config)
    mm.dist = dist
    return mm


def models_for(ctx, stream, count):
    rng = ctx.rng(stream, 'models')
    nr = ctx.nprng(stream, 'models')
    out = []
    forced = ['const', 'copy', 'nearcopy', 'none', 'parametric']
    configs = []
    for k in range(count):
        if not configs:                      # every configuration form once per cycle, in random order
            configs = list(CONFIGS)
            rng.shuffle(configs)
        special = forced[k] if k < len(forced) else None
        config = configs.pop()
        if special in ('parametric', 'copy', 'nearcopy') and config not in ('dict-full', 'class', 'name', 'instance', 'dict-full-permuted'):
            # these need control over every marginal (scipy-only families / coinciding score columns)
            configs.insert(0, config)
            config = 'dict-full'
        m = make_model(rng, nr, special, config, 'permrange' if k % 5 == 3 and config != 'array-train-int-dict' else None)
        if sorted(map(str, m.labels)) == sorted(map(str, range(m.d))) and m.labels != list(range(m.d)):
            ctx.count('model.labels=permuted-range')
        out.append(m)
        ctx.count('model.config=' + m.config)
        if m.cols != m.labels:
            ctx.count('model.columns-stored-in-other-order-than-training-table')
        ctx.count(f'model.d={m.d}')
        if m.singular:
            ctx.count('model.correlation-singular-for-scipy')
        ctx.count('model.cond' + ('<=1e3' if m.cond <= 1e3 else '<=1e9' if m.cond <= 1e9 else '>1e9'))
        ctx.count('model.' + m.tag.split('special=')[1].split()[0])
        ctx.count('model.labels=' + m.tag.split('labels=')[1].split()[0])
        for f in m.fams:
            ctx.count('marginal.' + f.split('*')[0])
    return out


# =========================================================================================== queries
def gen_rows(rng, nr, m, n, where):
    """n x d query points in TRAINING column order; -> (rows, has_far)."""
    rows = np.empty((n, m.d))
    far = False
    for i in range(n):
        base = m.train[rng.randrange(len(m.train))].copy()
        w = where if where != 'mixed' else rng.choice(['train', 'jitter', 'far', 'partfar'])
        if w == 'jitter':
            base = base + 0.3 * m.sd * nr.normal(size=m.d)
        elif w in ('far', 'partfar'):
            far = True
            for j in range(m.d):
                if w == 'far' or rng.random() < 0.5:
                    base[j] = m.mu[j] + rng.choice([-1, 1]) * m.sd[j] * 10 ** rng.uniform(1, 8)
        rows[i] = base
    return rows, far


def forms_of(rng, m, rows, extra_ok=True):
    """the representations of one batch: list of (form name, wire container, real object)."""
    n, d = rows.shape
    L = m.labels
    out = [('frame', ('frame', L, rows), pd.DataFrame(rows, columns=L))]
    perms = [list(reversed(range(d)))]
    for _ in range(2):
        p = list(range(d))
        rng.shuffle(p)
        perms.append(p)
    seen = {tuple(range(d))}
    for p in perms:
        if tuple(p) in seen:
            continue
        seen.add(tuple(p))
        ls = [L[i] for i in p]
        out.append(('frame-perm', ('frame', ls, rows[:, p]), pd.DataFrame(rows[:, p], columns=ls)))
    if extra_ok:
        p = list(range(d))
        rng.shuffle(p)
        ls = [L[i] for i in p]
        data = rows[:, p]
        for e in range(rng.choice([1, 2])):
            pos = rng.randrange(len(ls) + 1)
            name = ['extra', 777, 'q q'][e] if e < 3 else f'e{e}'
            while name in L:
                name = str(name) + '_'
            ls = ls[:pos] + [name] + ls[pos:]
            data = np.column_stack([data[:, :pos], np.full(n, 12.5 + e), data[:, pos:]])
        out.append(('frame-extra', ('frame', ls, data), pd.DataFrame(data, columns=ls)))
    if all(isinstance(l, (int, np.integer)) for l in L) and sorted(L) == list(range(d)):
        # labels are 0..d-1 (in any table order): a frame / Series in NATURAL label order whose header is the default
        # RangeIndex, resp. a plain integer Index - still aligned BY LABEL
        nat = [L.index(i) for i in range(d)]
        out.append(('frame-rangeindex', ('frame', list(range(d)), rows[:, nat]), pd.DataFrame(rows[:, nat].copy())))
        out.append(('frame-intindex', ('frame', list(range(d)), rows[:, nat]),
                    pd.DataFrame(rows[:, nat].copy(), columns=pd.Index(list(range(d)), dtype='int64'))))
        if n == 1:
            out.append(('series-rangeindex', ('series', list(range(d)), rows[0, nat]), pd.Series(rows[0, nat].copy())))
    out.append(('arr2', ('arr2', rows), np.array(rows)))
    if n == 1:
        out.append(('series', ('series', L, rows[0]), pd.Series(rows[0], index=L)))
        p = list(range(d))
        rng.shuffle(p)
        ls = [L[i] for i in p]
        out.append(('series-perm', ('series', ls, rows[0, p]), pd.Series(rows[0, p], index=ls)))
        out.append(('arr1', ('arr1', rows[0]), np.array(rows[0])))
    return out


def wire(c):
    """container -> request words."""
    kind = c[0]
    hx = lambda a: [vc.f2h(x) for x in np.asarray(a, dtype=float).ravel()]  # noqa: E731
    if kind == 'frame':
        _, ls, rows = c
        rows = np.asarray(rows, dtype=float).reshape(-1, len(ls))
        return ['frame', str(len(ls))] + [tok(l) for l in ls] + [str(rows.shape[0])] + hx(rows)
    if kind == 'series':
        _, ls, row = c
        return ['series', str(len(ls))] + [tok(l) for l in ls] + hx(row)
    if kind == 'arr1':
        return ['arr1', str(len(c[1]))] + hx(c[1])
    rows = np.asarray(c[1], dtype=float)
    return ['arr2', str(rows.shape[0]), str(rows.shape[1])] + hx(rows)


def request(op, m, c, fitted=True, dcorr=None):
    return ' '.join(['gt', op, '1' if fitted else '0', '1' if m.singular else '0',
                     str(m.d if dcorr is None else dcorr), str(m.d)] +
                    [tok(l) for l in m.cols] + wire(c))


# =========================================================================================== plan interpreter
def parse_term(ws, i):
    t = ws[i]
    if t == 'CELL':
        return ('CELL', vc.h2f(ws[i + 1])), i + 2
    if t == 'CDF':
        sub, k = parse_term(ws, i + 2)
        return ('CDF', int(ws[i + 1]), sub), k
    if t == 'CLIP':
        sub, k = parse_term(ws, i + 3)
        return ('CLIP', vc.h2f(ws[i + 1]), vc.h2f(ws[i + 2]), sub), k
    if t == 'NORMPPF':
        sub, k = parse_term(ws, i + 1)
        return ('NORMPPF', sub), k
    raise ValueError(f'bad term token {t!r}')


def sig_of(t):
    return ('CELL',) if t[0] == 'CELL' else t[:-1] + (sig_of(t[-1]),)


def cell_of(t):
    return t[1] if t[0] == 'CELL' else cell_of(t[-1])


def eval_sig(model, sig, xs):
    """interpret the external symbols with the REAL fitted objects, on a whole column."""
    if sig[0] == 'CELL':
        return xs
    inner = eval_sig(model, sig[-1], xs)
    if sig[0] == 'CDF':
        return model.univariates[sig[1]].cdf(inner)
    if sig[0] == 'CLIP':
        return inner.clip(sig[1], sig[2])
    return stats.norm.ppf(inner)


def eval_matrix(model, rows):
    """rows: list of lists of terms (n x k) -> float matrix (n x k), evaluated column by column."""
    n = len(rows)
    k = len(rows[0]) if n else 0
    cols = []
    for p in range(k):
        sigs = {sig_of(r[p]) for r in rows}
        xs = np.array([cell_of(r[p]) for r in rows], dtype=float)
        if len(sigs) == 1:
            cols.append(np.asarray(eval_sig(model, sigs.pop(), xs), dtype=float))
        else:
            cols.append(np.array([float(np.asarray(eval_sig(model, sig_of(r[p]), np.array([cell_of(r[p])])))[0])
                                  for r in rows]))
    return np.column_stack(cols) if cols else np.empty((n, 0))


def lean_plan(lean, m, c):
    """-> ('ok', matrix) | ('err', kind) | ('bad', text)"""
    r = lean.ask(request('plan', m, c))
    ws = r.split()
    if not ws or ws[0] not in ('ok', 'err'):
        return ('bad', r[:120])
    if ws[0] == 'err':
        return ('err', ws[1])
    n, w = int(ws[1]), int(ws[2])
    i, rows = 3, []
    for _ in range(n):
        row = []
        for _ in range(w):
            t, i = parse_term(ws, i)
            row.append(t)
        rows.append(row)
    if i != len(ws):
        return ('bad', 'trailing tokens')
    if n == 0:
        return ('ok', np.empty((0, w)))
    with np.errstate(all='ignore'):
        return ('ok', eval_matrix(m.model, rows))


def lean_dens(lean, m, op, c, fitted=True, dcorr=None):
    """interpret the plan of pdf / cdf / logpdf: MVNPDF/MVNCDF with the STORED correlation, LOG = np.log."""
    r = lean.ask(request(op, m, c, fitted, dcorr))
    ws = r.split()
    if not ws or ws[0] not in ('ok', 'err'):
        return ('bad', r[:120])
    if ws[0] == 'err':
        return ('err', ws[1])
    n = int(ws[1])
    i, heads, rows = 2, set(), []
    for _ in range(n):
        logs = 0
        while ws[i] == 'LOG':
            logs += 1
            i += 1
        sym = ws[i]
        if sym == 'MVNPDF':
            flag, k = ws[i + 1] == '1', int(ws[i + 2])
            i += 3
        elif sym == 'MVNCDF':
            flag, k = ws[i + 1] == '1', int(ws[i + 2])
            i += 3
        else:
            return ('bad', f'bad rterm token {sym!r}')
        row = []
        for _ in range(k):
            t, i = parse_term(ws, i)
            row.append(t)
        heads.add((logs, sym, flag, k))
        rows.append(row)
    if i != len(ws):
        return ('bad', 'trailing tokens')
    if n == 0:
        return ('ok', np.empty(0))
    if len(heads) != 1:
        return ('bad', f'non-uniform row plans {sorted(heads)}')
    logs, sym, flag, k = heads.pop()
    try:
        with np.errstate(all='ignore'):
            Z = eval_matrix(m.model, rows)
            if sym == 'MVNPDF':
                v = stats.multivariate_normal.pdf(Z, cov=m.model.correlation, allow_singular=flag)
            else:
                v = stats.multivariate_normal.cdf(Z, cov=m.model.correlation, allow_singular=flag)
            for _ in range(logs):
                v = np.log(v)
    except Exception as e:  # noqa    an external symbol raised on arguments the model deemed acceptable
        return ('err', 'external:' + vc.exc_kind(e))
    return ('ok', np.atleast_1d(np.asarray(v, dtype=float)))


# =========================================================================================== the tie
class Track:
    def __init__(self):
        self.bad = {}
        self.n = {}

    def note(self, name, ok, detail):
        self.n[name] = self.n.get(name, 0) + 1
        if not ok and name not in self.bad:
            self.bad[name] = detail

    def flush(self, ctx, names):
        for name in names:
            ctx.ob(name, name not in self.bad, 'tie', self.bad.get(name) or f'{self.n.get(name, 0)} comparisons')


def cmp_res(real, model, mode, detail, anyerr=False):
    """mode: 'bits' | ('abs', tol).  anyerr: only THAT it raises is compared (scipy's exception type for a
    score matrix of the wrong width depends on the dimension: IndexError for d = 2, ValueError above)."""
    if real[0] != model[0]:
        return False, dict(detail, real_result=f'{real[0]}:{str(real[1])[:80]}', model_result=f'{model[0]}:{str(model[1])[:80]}')
    if real[0] == 'err':
        return anyerr or real[1] == model[1], dict(detail, real_result=real[1], model_result=model[1])
    if real[0] == 'bad':
        return False, dict(detail, driver=model[1])
    a, b = real[1], model[1]
    if mode == 'bits':
        d = first_diff(a, b)
        return d is None, dict(detail, diff=d)
    tol = mode[1]
    if a.shape != b.shape:
        return False, dict(detail, diff=f'shape {a.shape} vs {b.shape}')
    ok = bool(np.all((np.abs(a - b) <= tol) | (np.isnan(a) & np.isnan(b))))
    return ok, dict(detail, diff=None if ok else f'max |real-model| = {float(np.nanmax(np.abs(a - b)))!r} > {tol}')


def batch_sizes(rng, deep):
    return rng.choice([1, 1, 2, 3, 5, 17, 50] + ([120, 200] if deep else []))


TIE_NAMES = ['corr:transform_to_normal[plan, every container form]', 'corr:probability_density[plan]',
             'corr:log_probability_density[plan]', 'corr:cumulative_distribution[plan, 1e-3]',
             'corr:malformed-containers[subset/width/duplicate/unfitted/empty]',
             'tv:mvn-density[Lean Cholesky at Float vs real probability_density]']


def tie_model(ctx, lean, m, rng, nr, tr, nbatch, deep=False):
    T = TIE_NAMES
    for b in range(nbatch):
        n = batch_sizes(rng, deep)
        where = rng.choice(['train', 'jitter', 'far', 'mixed', 'mixed'])
        rows, far = gen_rows(rng, nr, m, n, where)
        ctx.count(f'batch.{where}')
        ctx.count('batch.n=' + ('1' if n == 1 else '2-5' if n <= 5 else '6-50' if n <= 50 else '>50'))
        bd = digest(rows)
        for form, c, X in forms_of(rng, m, rows):
            ctx.count('form.' + form)
            det = {'model': m.tag, 'fams': m.fams, 'labels': [tok(l) for l in m.labels], 'form': form,
                   'container': vc.jsonable(c[1:]) if n <= 3 else f'{n} rows'}
            real = call(lambda: m.model._transform_to_normal(X).ravel())
            mod = lean_plan(lean, m, c)
            mod = (mod[0], mod[1].ravel()) if mod[0] == 'ok' else mod
            ok, dd = cmp_res(real, mod, 'bits', det)
            tr.note(T[0], ok, dd)
            ctx.case((m.id, 'plan', form, bd), nontrivial=(form != 'frame' or far))
            # pdf / logpdf on every form; cdf on small batches only (QMC is slow and noisy)
            real = call(lambda: m.model.probability_density(X))
            ok, dd = cmp_res(real, lean_dens(lean, m, 'pdf', c), 'bits', det)
            tr.note(T[1], ok, dd)
            ctx.case((m.id, 'pdf', form, bd), nontrivial=(form != 'frame' or far))
            if form in ('frame', 'frame-perm', 'series-perm', 'arr2'):
                real = call(lambda: m.model.log_probability_density(X))
                ok, dd = cmp_res(real, lean_dens(lean, m, 'logpdf', c), 'bits', det)
                tr.note(T[2], ok, dd)
                ctx.case((m.id, 'logpdf', form, bd), nontrivial=(form != 'frame' or far))
            if n <= 3 and form in ('frame-perm', 'arr2', 'series-perm', 'frame-extra') and rng.random() < 0.5:
                real = call(lambda: m.model.cumulative_distribution(X))
                ok, dd = cmp_res(real, lean_dens(lean, m, 'cdf', c), ('abs', EPS_CDF), det)
                tr.note(T[3], ok, dd)
                ctx.case((m.id, 'cdf', form, bd), nontrivial=True)
        # (b) the executable MVN density on the REAL scores
        if m.cond <= COND_MAX and m.d <= 6 and np.array_equal(m.corr, m.corr.T):
            X = pd.DataFrame(rows, columns=m.labels)
            Z = m.model._transform_to_normal(X)
            real = np.atleast_1d(m.model.probability_density(X))
            reallog = np.atleast_1d(m.model.log_probability_density(X))
            req = ' '.join(['gt', 'mvn', str(m.d), vc.f2h(2 * math.pi)] + [vc.f2h(x) for x in m.corr.ravel()] +
                           [str(n)] + [vc.f2h(x) for x in Z.ravel()])
            r = lean.floats(req)
            ctx.count('mvn.compared')
            ctx.case((m.id, 'mvn', bd), nontrivial=True)
            if r[0] != 'ok' or len(r[1]) != 2 * n:
                tr.note(T[5], False, {'model': m.tag, 'cond': m.cond, 'driver': str(r)[:100]})
            else:
                ll, lp = np.array(r[1][0::2]), np.array(r[1][1::2])
                q = np.abs(ll) + 1.0
                tol = 1e-9 + 1e-15 * m.cond * q
                for i in range(n):
                    if real[i] > 1e-290:
                        ok = abs(ll[i] - math.log(real[i])) <= tol[i] and abs(lp[i] - real[i]) <= 1e-8 * real[i] + 4 * tol[i] * real[i]
                    else:
                        ok = ll[i] < -660 and lp[i] <= 1e-280
                    tr.note(T[5], ok, {'model': m.tag, 'cond': m.cond, 'scores': Z[i].tolist(), 'real_pdf': float(real[i]),
                                       'real_logpdf': float(reallog[i]), 'lean_logpdf': float(ll[i]), 'lean_pdf': float(lp[i])})
        else:
            ctx.count('mvn.skipped[cond>1e9]')
    if m.singular:
        # the cdf of a model whose stored correlation scipy deems singular: always tied once
        rows, _ = gen_rows(rng, nr, m, 2, 'jitter')
        X = pd.DataFrame(rows, columns=m.labels)
        real = call(lambda: m.model.cumulative_distribution(X))
        ok, dd = cmp_res(real, lean_dens(lean, m, 'cdf', ('frame', m.labels, rows)), ('abs', EPS_CDF),
                         {'model': m.tag, 'fams': m.fams, 'cond': m.cond, 'form': 'frame', 'singular': True})
        tr.note(T[3], ok, dd)
        ctx.count('cdf.singular-correlation.' + (real[0] if real[0] == 'ok' else real[1]))
        ctx.case((m.id, 'cdf', 'singular', digest(rows)), nontrivial=True)
    malformed(ctx, lean, m, rng, nr, tr)


def malformed(ctx, lean, m, rng, nr, tr):
    """subsets of the training columns, wrong widths, duplicate labels, unfitted, empty batch."""
    name = TIE_NAMES[4]
    L, d = m.labels, m.d
    n = rng.choice([1, 2, 4])
    rows, _ = gen_rows(rng, nr, m, n, 'jitter')
    cases = []
    one = rng.randrange(d)
    cases.append(('subset-one', ('frame', [L[one]], rows[:, [one]])))
    cases.append(('subset-one+extra', ('frame', ['nope', L[one]], np.column_stack([np.zeros(n), rows[:, one]]))))
    cases.append(('subset-none', ('frame', ['nope', 'nada'], rows[:, :2])))
    if d >= 3:
        keep = sorted(rng.sample(range(d), rng.randrange(2, d)))
        rng.shuffle(keep)
        cases.append(('subset-some', ('frame', [L[i] for i in keep], rows[:, keep])))
    cases.append(('series-subset', ('series', [L[one]], rows[0, [one]])))
    if sorted(map(str, L)) != sorted(map(str, range(d))):
        cases.append(('default-rangeindex-header', ('frame-default', list(range(d)), rows)))
    cases.append(('arr2-narrow', ('arr2', rows[:, :d - 1])))
    cases.append(('arr2-wide', ('arr2', np.column_stack([rows, rows[:, 0]]))))
    cases.append(('arr1-narrow', ('arr1', rows[0, :d - 1])))
    cases.append(('arr1-wide', ('arr1', np.append(rows[0], 1.0))))
    cases.append(('empty-frame', ('frame', L, rows[:0])))
    cases.append(('empty-subset', ('frame', [L[one]], rows[:0, [one]])))
    if not m.kde and all(f.split('*')[0] in ('gaussian', 'uniform') for f in m.fams):
        dup = rng.randrange(d)
        cases.append(('dup-label', ('frame', L + [L[dup]], np.column_stack([rows, rows[:, dup] + 1.0]))))
    for kind, c in cases:
        if c[0] == 'frame-default':
            X = pd.DataFrame(np.asarray(c[2], dtype=float))          # header = RangeIndex(d): labels 0..d-1, aligned by label
            c = ('frame',) + tuple(c[1:])
        elif c[0] == 'frame':
            X = pd.DataFrame(np.asarray(c[2], dtype=float).reshape(-1, len(c[1])), columns=c[1])
        elif c[0] == 'series':
            X = pd.Series(c[2], index=c[1])
        else:
            X = np.array(c[1])
        det = {'model': m.tag, 'labels': [tok(l) for l in L], 'kind': kind, 'container': vc.jsonable(c[1:])}
        ctx.count('malformed.' + kind)
        real = call(lambda: m.model._transform_to_normal(X).ravel())
        mod = lean_plan(lean, m, c)
        mod = (mod[0], mod[1].ravel()) if mod[0] == 'ok' else mod
        ok, dd = cmp_res(real, mod, 'bits', dict(det, op='plan'))
        tr.note(name, ok, dd)
        ctx.count(f'malformed.plan.{real[0]}')
        for op, meth, mode in (('pdf', 'probability_density', 'bits'), ('logpdf', 'log_probability_density', 'bits'),
                               ('cdf', 'cumulative_distribution', ('abs', EPS_CDF))):
            real = call(lambda: getattr(m.model, meth)(X))
            ok, dd = cmp_res(real, lean_dens(lean, m, op, c), mode, dict(det, op=op), anyerr=(op == 'cdf'))
            tr.note(name, ok, dd)
            ctx.count(f'malformed.{op}.{real[0] if real[0] == "ok" else real[1]}')
            ctx.case((m.id, op, kind, digest(rows)), nontrivial=True)
    # unfitted model
    from copulas.multivariate import GaussianMultivariate
    un = GaussianMultivariate()
    X = pd.DataFrame(rows, columns=L)
    for op, meth in (('pdf', 'probability_density'), ('logpdf', 'log_probability_density'), ('cdf', 'cumulative_distribution'),
                     ('pdf', 'pdf'), ('cdf', 'cdf')):
        real = call(lambda: getattr(un, meth)(X))
        mod = lean_dens(lean, m, op, ('frame', L, rows), fitted=False)
        ok, dd = cmp_res(real, mod, 'bits', {'kind': 'unfitted', 'op': meth})
        tr.note(name, ok, dd)
        ctx.count('malformed.unfitted.' + (real[1] if real[0] == 'err' else 'ok'))


def run(ctx, lean):
    if lean is None:
        for nme in TIE_NAMES + ['tv:clip-bounds[Gen.clipLo/clipHi at Float = EPSILON, 1-EPSILON]']:
            ctx.ob(nme, False, 'tie', 'driver unavailable')
        return
    from copulas.utils import EPSILON
    r = lean.floats('gt consts')
    ok = r[0] == 'ok' and len(r[1]) == 2 and r[1][0] == float(EPSILON) and r[1][1] == float(1 - EPSILON)
    ctx.ob('tv:clip-bounds[Gen.clipLo/clipHi at Float = EPSILON, 1-EPSILON]', ok, 'tie',
           f'lean {r} vs real {float(EPSILON)!r}, {float(1 - EPSILON)!r}')
    rng = ctx.rng('tie')
    nr = ctx.nprng('tie')
    np.random.seed(nr.randint(2 ** 31))      # scipy's QMC integrator draws from the global stream
    tr = Track()
    models = models_for(ctx, 'tie', 9 + 3 * ctx.scale)
    ctx.models = models
    for m in models:
        tie_model(ctx, lean, m, rng, nr, tr, nbatch=3)
        ctx.sample({'model': m.tag, 'marginals': m.fams, 'labels': [tok(l) for l in m.labels], 'cond': m.cond}, cap=4)
    tr.flush(ctx, TIE_NAMES)
    # (c)(d)(e): the property's own statement on the real object, quick budget
    before = len(ctx.failing)
    stats_ = oracles(ctx, models, ctx.rng('oracle'), ctx.nprng('oracle'), nbatch=2, deep=False)
    known = {k.get('class') for k in vc.load_known().get('findings', []) if k.get('property') == ctx.prop}
    new = [f for f in ctx.failing[before:] if f['class'] not in known]     # recorded findings do not break the obligation
    ctx.ob('corr:real-object[container/permutation/batch-split equalities, log, cdf range+monotone, independent MVN]',
           not new, 'tie', (f'{len(new)} failing inputs, first: ' + str({k: new[0][k] for k in ("class", "observed")})[:400])
           if new else f'{stats_} checks')


# =========================================================================================== oracles on the real code
def indep_scores(m, rows):
    """normal scores computed independently of _transform_to_normal.  `rows` is in TRAINING-TABLE column order; every
    model column is addressed BY LABEL (the position of its label in the training table), and the result is in
    model.columns order, i.e. the order of model.correlation's rows."""
    from copulas.utils import EPSILON
    cols = []
    for name, u in zip(m.model.columns, m.model.univariates):
        j = m.labels.index(name)
        cols.append(stats.norm.ppf(np.clip(u.cdf(np.array(rows[:, j])), EPSILON, 1 - EPSILON)))
    return np.column_stack(cols)


def indep_logpdf(corr, Z):
    """zero-mean MVN log-density via solve / slogdet (well-conditioned matrices only)."""
    d = corr.shape[0]
    sign, logdet = np.linalg.slogdet(corr)
    q = np.einsum('ij,ij->i', Z, np.linalg.solve(corr, Z.T).T)
    return -0.5 * (d * math.log(2 * math.pi) + logdet + q), sign


def inp_of(m, form, X, rows):
    return {'model': m.tag, 'marginals': m.fams, 'labels': [tok(l) for l in m.labels], 'form': form,
            'distribution_argument': repr(getattr(m, 'dist', None))[:300], 'training_table_columns': [tok(l) for l in m.labels],
            'model_columns': [tok(l) for l in m.cols],
            'train_digest': m.id, 'rows_training_order': vc.jsonable(rows[:4]),
            'columns': [tok(l) for l in X.columns] if isinstance(X, pd.DataFrame) else
            ([tok(l) for l in X.index] if isinstance(X, pd.Series) else None)}


def oracles(ctx, models, rng, nr, nbatch, deep):
    checks = 0
    for m in models:
        mdl = m.model
        logtol = 1e-8 * max(1.0, m.cond)
        for b in range(nbatch):
            n = batch_sizes(rng, deep)
            rows, far = gen_rows(rng, nr, m, n, rng.choice(['train', 'jitter', 'far', 'mixed', 'mixed']))
            base = pd.DataFrame(rows, columns=m.labels)
            r0 = call(lambda: mdl.probability_density(base))
            checks += 1
            if r0[0] != 'ok':
                ctx.fail_input('probability_density', inp_of(m, 'frame', base, rows), r0[1],
                               'a density value for every finite query point', 'probability_density:raises')
                continue
            p0 = r0[1]
            if not (p0.shape == (n,) and np.all(np.isfinite(p0)) and np.all(p0 >= 0)):
                ctx.fail_input('probability_density', inp_of(m, 'frame', base, rows), p0[:6],
                               'finite non-negative density, one value per row', 'probability_density:not-a-density-value')
            # --- equals the MVN density of independently computed scores with the stored correlation
            Z = indep_scores(m, rows)
            with np.errstate(all='ignore'):
                ref = np.atleast_1d(stats.multivariate_normal.pdf(Z, cov=m.corr, allow_singular=True))
            checks += 1
            if not same_bits(ref, p0):
                ctx.fail_input('probability_density', inp_of(m, 'frame', base, rows),
                               {'pdf': p0[:4], 'mvn_of_scores': ref[:4], 'diff': first_diff(p0, ref)},
                               'probability_density(X) = multivariate_normal(0, stored correlation).pdf(normal scores of X)',
                               'probability_density:not-mvn-of-scores')
            if m.cond <= 1e6:
                il, sign = indep_logpdf(m.corr, Z)
                with np.errstate(all='ignore'):
                    l0 = np.log(p0)
                okv = (p0 <= 1e-290) | (np.abs(l0 - il) <= 1e-7 * max(1.0, m.cond) * (1 + np.abs(il)) * 1e-2 + 1e-8)
                checks += 1
                if sign > 0 and not np.all(okv):
                    i = int(np.argmin(okv))
                    ctx.fail_input('probability_density', inp_of(m, 'frame', base, rows[i:i + 1]),
                                   {'log pdf': float(l0[i]), 'closed form': float(il[i])},
                                   'log density = -(d log 2pi + log det S + z^T S^-1 z)/2 at the normal scores z',
                                   'probability_density:not-mvn-closed-form')
            # --- container / permutation invariance (bitwise: same float operations column by column)
            for form, c, X in forms_of(rng, m, rows):
                if form == 'frame':
                    continue
                r = call(lambda: mdl.probability_density(X))
                checks += 1
                if r[0] != 'ok' or not same_bits(r[1], p0):
                    arr = form in ('arr1', 'arr2')
                    ctx.fail_input('probability_density', inp_of(m, form, X, rows),
                                   {'this form': r[1][:4] if r[0] == 'ok' else r[1], 'training-order DataFrame': p0[:4],
                                    'mvn of the scores addressed by label': ref[:4],
                                    'diff': first_diff(r[1], p0) if r[0] == 'ok' else 'raises'},
                                   'a plain 1-d / 2-d array is read in TRAINING-TABLE column order: same density as the '
                                   'DataFrame / Series carrying the training labels' if arr else
                                   'same density for every container form / column order of the same rows',
                                   'probability_density:array-not-read-in-training-order' if arr else
                                   f'probability_density:container-dependent[{form}]')
                if form in ('arr1', 'arr2'):
                    rla = call(lambda: mdl.log_probability_density(X))
                    with np.errstate(all='ignore'):
                        wl = np.log(ref)
                    checks += 1
                    if rla[0] != 'ok' or not same_bits(rla[1], wl):
                        ctx.fail_input('log_probability_density', inp_of(m, form, X, rows),
                                       {'this form': rla[1][:4], 'log mvn of the scores addressed by label': wl[:4]},
                                       'a plain array is read in TRAINING-TABLE column order', 
                                       'log_probability_density:array-not-read-in-training-order')
            # --- aliases
            checks += 1
            if not same_bits(call(lambda: mdl.pdf(base))[1], p0):
                ctx.fail_input('pdf', inp_of(m, 'frame', base, rows), 'differs', 'pdf = probability_density', 'pdf:alias')
            # --- each row alone vs in the batch
            if n > 1:
                idx = list(range(n)) if n <= 6 else rng.sample(range(n), 6)
                for i in idx:
                    one = pd.DataFrame(rows[i:i + 1], columns=m.labels) if rng.random() < 0.5 else pd.Series(rows[i], index=m.labels)
                    r = call(lambda: mdl.probability_density(one))
                    zs = call(lambda: mdl._transform_to_normal(one).ravel())
                    checks += 1
                    zb = mdl._transform_to_normal(base)[i]
                    okz = zs[0] == 'ok' and (same_bits(zs[1], zb) if not m.kde else bool(np.all(np.abs(zs[1] - zb) <= 1e-8)))
                    okp = r[0] == 'ok' and r[1].shape == (1,)
                    if okp:
                        a, bb = float(r[1][0]), float(p0[i])
                        okp = (a == bb) or (a > 0 and bb > 0 and abs(math.log(a) - math.log(bb)) <= logtol) \
                            or (max(a, bb) <= 1e-290)
                    if not (okz and okp):
                        ctx.fail_input('probability_density', inp_of(m, 'row-alone', base, rows[i:i + 1]),
                                       {'alone': r[1], 'in batch': float(p0[i]), 'scores alone': zs[1], 'scores in batch': zb},
                                       'the result for a row depends only on that row', 'probability_density:row-dependent')
                # order of rows
                perm = list(range(n))
                rng.shuffle(perm)
                r = call(lambda: mdl.probability_density(pd.DataFrame(rows[perm], columns=m.labels)))
                checks += 1
                if r[0] != 'ok' or not np.all((r[1] == p0[perm]) | (np.abs(np.log(r[1]) - np.log(p0[perm])) <= logtol)
                                              | (np.maximum(r[1], p0[perm]) <= 1e-290)):
                    ctx.fail_input('probability_density', inp_of(m, 'row-shuffle', base, rows), {'shuffled': r[1][:4], 'batch': p0[perm][:4]},
                                   'the result for a row depends only on that row', 'probability_density:row-dependent')
            # --- log pdf
            rl = call(lambda: mdl.log_probability_density(base))
            with np.errstate(all='ignore'):
                want = np.log(p0)
            checks += 1
            if rl[0] != 'ok' or not same_bits(rl[1], want):
                ctx.fail_input('log_probability_density', inp_of(m, 'frame', base, rows),
                               {'log_pdf': rl[1][:4], 'log(pdf)': want[:4]}, 'log_probability_density = log(probability_density)',
                               'log_probability_density:not-log-of-pdf')
            # --- cdf: range, container agreement (1e-3), coordinate-wise monotone on well-separated points
            k = min(n, 3 if not deep else 5)
            sub = rows[:k]
            c0 = call(lambda: mdl.cumulative_distribution(pd.DataFrame(sub, columns=m.labels)))
            checks += 1
            if c0[0] != 'ok':
                ctx.fail_input('cumulative_distribution', dict(inp_of(m, 'frame', base, sub), cond=m.cond,
                                                               correlation=vc.jsonable(m.corr)), c0[1],
                               'a CDF value in [0,1] for every finite query point of every fitted model',
                               'cumulative_distribution:raises[near-singular correlation]' if m.singular
                               else 'cumulative_distribution:raises')
                continue
            if c0[1].shape != (k,) or not np.all((c0[1] >= -1e-4) & (c0[1] <= 1 + 1e-4)):
                ctx.fail_input('cumulative_distribution', inp_of(m, 'frame', base, sub), c0[1],
                               'values in [0,1], one per row', 'cumulative_distribution:range')
                continue
            refc = call(lambda: stats.multivariate_normal.cdf(indep_scores(m, sub), cov=m.corr, allow_singular=True))
            checks += 1
            if refc[0] == 'ok' and (refc[1].shape != c0[1].shape or not np.all(np.abs(refc[1] - c0[1]) <= EPS_CDF)):
                ctx.fail_input('cumulative_distribution', inp_of(m, 'frame', base, sub),
                               {'cdf': c0[1], 'mvn_cdf_of_scores': refc[1]},
                               'cumulative_distribution(X) = multivariate_normal(0, stored correlation).cdf(normal scores of X) '
                               '(within the QMC error 1e-3)', 'cumulative_distribution:not-mvn-of-scores')
            forms = [f for f in forms_of(rng, m, sub) if f[0] != 'frame']
            arrs = [f for f in forms if f[0] in ('arr1', 'arr2')]
            labelled = [f for f in forms if f[0] not in ('arr1', 'arr2')]
            for form, c, X in rng.sample(labelled, 1) + rng.sample(arrs, 1):     # always one plain-array form
                r = call(lambda: mdl.cumulative_distribution(X))
                checks += 1
                if r[0] != 'ok' or r[1].shape != c0[1].shape or not np.all(np.abs(r[1] - c0[1]) <= EPS_CDF):
                    ctx.fail_input('cumulative_distribution', inp_of(m, form, X, sub),
                                   {'this form': r[1], 'training-order DataFrame': c0[1]},
                                   'same CDF (within the QMC error 1e-3) for every container form / column order',
                                   'cumulative_distribution:array-not-read-in-training-order' if form in ('arr1', 'arr2')
                                   else f'cumulative_distribution:container-dependent[{form}]')
            up = sub.copy()
            js = [rng.randrange(m.d) for _ in range(k)]
            for i, j in enumerate(js):
                up[i, j] = max(up[i, j], m.mu[j]) + m.sd[j] * rng.choice([0.5, 3.0, 1e4]) if rng.random() < 0.8 \
                    else up[i, j] + abs(up[i, j]) * 1e3 + 1.0
            c1 = call(lambda: mdl.cumulative_distribution(pd.DataFrame(up, columns=m.labels)))
            checks += 1
            if c1[0] != 'ok' or not np.all(c1[1] >= c0[1] - EPS_CDF):
                ctx.fail_input('cumulative_distribution', dict(inp_of(m, 'frame', base, sub), raised_rows=vc.jsonable(up), coords=js),
                               {'cdf(x)': c0[1], 'cdf(x + shift e_j)': c1[1]},
                               'CDF non-decreasing in every coordinate (beyond the QMC error 1e-3)',
                               'cumulative_distribution:not-monotone')
            checks += 1
            if not same_bits(np.shape(call(lambda: mdl.cdf(pd.DataFrame(sub, columns=m.labels)))[1]), np.shape(c0[1])):
                ctx.fail_input('cdf', inp_of(m, 'frame', base, sub), 'shape differs', 'cdf = cumulative_distribution', 'cdf:alias')
    return checks


def history_oracle(ctx, rng, nr, count, deep):
    """The property is about EVERY fitted model, whatever its history: one instance fitted on A, queried, then fitted
    again on B must answer exactly like a fresh twin fitted on B (and like the MVN of its own current scores and
    current correlation); so must a pickle copy and a to_dict/from_dict copy of it."""
    import pickle
    from copulas.multivariate import GaussianMultivariate
    checks = 0
    for k in range(count):
        mb = make_model(rng, nr, rng.choice(['none', 'none', 'const', 'nearcopy']))
        B = pd.DataFrame(mb.train, columns=mb.labels)
        # data set A: same labels and marginal families, other dependence (columns shuffled independently), other scale
        A = mb.train.copy()
        for j in range(mb.d):
            A[:, j] = A[nr.permutation(len(A)), j] * rng.choice([1.0, 1.7]) + rng.choice([0.0, 0.3]) * mb.sd[j]
        if mb.d >= 2 and rng.random() < 0.7:      # and a strong dependence between two columns that B does not have
            i, j = rng.sample(range(mb.d), 2)
            order = np.argsort(A[:, i])
            A[order, j] = np.sort(A[:, j]) if rng.random() < 0.5 else np.sort(A[:, j])[::-1]
        A = pd.DataFrame(A, columns=mb.labels)
        probes, _ = gen_rows(rng, nr, mb, 5 if not deep else 12, 'mixed')
        P = pd.DataFrame(probes, columns=mb.labels)
        warm = rng.choice(['pdf', 'cdf', 'logpdf', 'pdf+cdf'])
        inst = GaussianMultivariate(distribution=mb.dist)
        try:
            inst.fit(A)
            with np.errstate(all='ignore'):
                if 'pdf' in warm:
                    inst.probability_density(P.iloc[:2])
                if 'cdf' in warm:
                    inst.cumulative_distribution(P.iloc[:1])
                if warm == 'logpdf':
                    inst.log_probability_density(P.iloc[:2])
            inst.fit(B)
        except Exception as e:  # noqa   fitting A (a shuffled table) may legitimately fail for some marginals
            ctx.count('history.skipped:' + vc.exc_kind(e))
            continue
        twin = mb.model                                    # a fresh instance fitted on B only
        ctx.count('history.cases')
        ctx.count('history.warm=' + warm)
        variants = [('refit', inst)]
        try:
            variants.append(('refit+pickle', pickle.loads(pickle.dumps(inst))))
            variants.append(('refit+to_dict/from_dict', GaussianMultivariate.from_dict(inst.to_dict())))
        except Exception:  # noqa   serialisation is C14's business
            pass
        hist = {'history': f'fit(A); {warm}(q); fit(B)', 'A_digest': digest(A.to_numpy()), 'B_digest': mb.id}
        t_pdf = call(lambda: twin.probability_density(P))
        t_log = call(lambda: twin.log_probability_density(P))
        t_cdf = call(lambda: twin.cumulative_distribution(P.iloc[:3]))
        for vname, v in variants:
            checks += 1
            same_corr = same_bits(np.asarray(v.correlation, dtype=float).ravel(), mb.corr.ravel())
            r = call(lambda: v.probability_density(P))
            # independent reference: MVN of the instance's own current scores with its own CURRENT correlation
            mv = M(v, mb.train, mb.labels, mb.fams, mb.tag)
            with np.errstate(all='ignore'):
                ref = np.atleast_1d(stats.multivariate_normal.pdf(indep_scores(mv, probes), cov=mv.corr, allow_singular=True))
            ok_twin = r[0] == t_pdf[0] and (r[0] != 'ok' or same_bits(r[1], t_pdf[1]))
            ok_ref = r[0] == 'ok' and same_bits(r[1], ref)
            if not (same_corr and ok_twin and ok_ref):
                ctx.fail_input('probability_density', dict(inp_of(mb, vname, P, probes), **hist),
                               {'instance': r[1][:4], 'fresh twin fitted on B': t_pdf[1][:4], 'mvn of own scores, own correlation': ref[:4],
                                'correlation equals twin': same_corr,
                                'diff vs twin': first_diff(r[1], t_pdf[1]) if r[0] == t_pdf[0] == 'ok' else 'raises',
                                'diff vs reference': first_diff(r[1], ref) if r[0] == 'ok' else 'raises'},
                               'probability_density of a fitted model depends on its current fit only (= fresh model fitted on the '
                               'same data = MVN(0, current correlation) at the current normal scores)',
                               'probability_density:depends-on-fit-history')
            rl = call(lambda: v.log_probability_density(P))
            checks += 1
            if not (rl[0] == t_log[0] and (rl[0] != 'ok' or same_bits(rl[1], t_log[1]))):
                ctx.fail_input('log_probability_density', dict(inp_of(mb, vname, P, probes), **hist),
                               {'instance': rl[1][:4], 'fresh twin fitted on B': t_log[1][:4],
                                'diff': first_diff(rl[1], t_log[1]) if rl[0] == t_log[0] == 'ok' else 'raises'},
                               'log_probability_density depends on the current fit only', 'log_probability_density:depends-on-fit-history')
            rc = call(lambda: v.cumulative_distribution(P.iloc[:3]))
            checks += 1
            okc = rc[0] == t_cdf[0] and (rc[0] != 'ok' or (rc[1].shape == t_cdf[1].shape and bool(np.all(np.abs(rc[1] - t_cdf[1]) <= EPS_CDF))))
            if not okc:
                ctx.fail_input('cumulative_distribution', dict(inp_of(mb, vname, P, probes[:3]), **hist),
                               {'instance': rc[1], 'fresh twin fitted on B': t_cdf[1]},
                               'cumulative_distribution depends on the current fit only (within the QMC error 1e-3)',
                               'cumulative_distribution:depends-on-fit-history')
    return checks


def constant_oracle(ctx, models, rng, nr, deep):
    """A constant training column has a degenerate marginal: its CDF is EXACTLY the step function at the constant.  So the
    joint CDF at a point whose coordinate lies below the constant - by however little - is ~0, and at / above it it is
    the CDF of the other coordinates.  Reference: normal scores with the exact step for the constant column, the fitted
    marginals for the others, MVN CDF with the stored correlation (1e-3)."""
    from copulas.utils import EPSILON
    checks = 0
    cands = [m for m in models if any(f.endswith('*const') for f in m.fams)]
    if not cands:
        cands = [make_model(rng, nr, 'const', 'dict-full')]
    for m in cands[:(6 if deep else 2)]:
        j = [i for i, f in enumerate(m.fams) if f.endswith('*const')][0]
        c = float(m.train[0, j])
        if not np.all(m.train[:, j] == c):
            continue
        mag = max(abs(c), 1.0)
        xs = [c, c * (1 + 1e-6), c * (1 - 1e-6), c + 1e-9, c - 1e-9, np.nextafter(c, np.inf), np.nextafter(c, -np.inf),
              c + 1e-5 * mag, c - 1e-5 * mag, c - 1e-12 * mag, c + 1.0, c - 1.0]
        rows = np.empty((len(xs), m.d))
        for i, x in enumerate(xs):       # the other coordinates well inside / above the bulk, so that their joint CDF is not tiny
            rows[i] = m.mu + m.sd * np.array([rng.uniform(0.5, 3.0) for _ in range(m.d)])
            rows[i, j] = x
        step = (rows[:, j] >= c).astype(float)
        Z = []
        for name, u in zip(m.model.columns, m.model.univariates):
            k = m.labels.index(name)
            F = step if k == j else np.asarray(u.cdf(np.array(rows[:, k])), dtype=float)
            Z.append(stats.norm.ppf(np.clip(F, EPSILON, 1 - EPSILON)))
        Z = np.column_stack(Z)
        ref = call(lambda: stats.multivariate_normal.cdf(Z, cov=m.corr, allow_singular=True))
        forms = [('frame', pd.DataFrame(rows, columns=m.labels)), ('arr2', rows.copy())]
        for form, X in forms:
            r = call(lambda: m.model.cumulative_distribution(X))
            checks += 1
            ctx.count('constant-column.cdf-queries', len(xs))
            if ref[0] != 'ok':
                continue
            bad = r[0] != 'ok' or r[1].shape != ref[1].shape or not np.all(np.abs(r[1] - ref[1]) <= EPS_CDF)
            ctx.count('constant-column.discriminating', int(np.sum((ref[1] > 0.01) | (step == 0)) if ref[0] == 'ok' else 0))
            if bad:
                i = int(np.argmax(np.abs(r[1] - ref[1]))) if r[0] == 'ok' and r[1].shape == ref[1].shape else 0
                ctx.fail_input('cumulative_distribution',
                               dict(inp_of(m, form, X, rows[i:i + 1]), constant_column=tok(m.labels[j]), constant=c,
                                    query_value=float(rows[i, j]), query_minus_constant=float(rows[i, j] - c)),
                               {'cdf': r[1] if r[0] != 'ok' else float(r[1][i]), 'reference (exact step marginal)': float(ref[1][i]),
                                'all cdf': r[1], 'all reference': ref[1], 'query values of the constant column': xs},
                               'the marginal CDF of a constant column is the step function at the constant, exactly: the joint CDF '
                               'is ~0 for a coordinate below the constant (by any amount) and the CDF of the other coordinates otherwise',
                               'cumulative_distribution:constant-column-not-a-step')
        # the scores themselves: +-Phi^-1(1-eps) exactly by the side of the constant
        zr = call(lambda: m.model._transform_to_normal(forms[0][1])[:, m.cols.index(m.labels[j])])
        want = stats.norm.ppf(np.clip(step, EPSILON, 1 - EPSILON))
        checks += 1
        if zr[0] != 'ok' or not same_bits(zr[1], want):
            ctx.fail_input('cumulative_distribution', dict(inp_of(m, 'frame', forms[0][1], rows), constant_column=tok(m.labels[j]), constant=c),
                           {'scores of the constant column': zr[1], 'step scores': want, 'query values': xs},
                           'the normal score of a constant column is Phi^-1(clip(step(x - c)))',
                           'cumulative_distribution:constant-column-not-a-step')
    return checks


def long_batch_oracle(ctx, models, rng, nr, deep):
    """Batches of any size: a long batch evaluated at once equals the same rows evaluated in pieces of 61 rows, and the
    MVN of the independently computed scores (pdf / log pdf: n in {4096, 4097, 5000, 8193}; cdf: n <= 300)."""
    checks = 0
    pool = sorted(models, key=lambda m: (m.kde, 'auto' in ' '.join(m.fams), m.d))
    chosen = pool[:1] + ([pool[-1]] if len(pool) > 1 else []) + (rng.sample(pool, min(3, len(pool))) if deep else [])
    sizes = [4096, 4097, 5000, 8193]
    for mi, m in enumerate(chosen):
        logtol = 1e-8 * max(1.0, m.cond)
        for n in (sizes if (deep or mi == 0) else rng.sample(sizes[1:], 2)):
            idx = nr.randint(len(m.train), size=n)
            rows = m.train[idx] + 0.3 * m.sd * nr.normal(size=(n, m.d))
            far = nr.rand(n) < 0.05
            rows[far] = m.mu + m.sd * 10 ** nr.uniform(1, 6, size=(int(far.sum()), m.d)) * nr.choice([-1, 1], size=(int(far.sum()), m.d))
            X = pd.DataFrame(rows, columns=m.labels) if rng.random() < 0.5 else rows
            form = 'frame' if isinstance(X, pd.DataFrame) else 'arr2'
            ctx.count(f'long-batch.n={n}')
            for ep, cls_ in (('probability_density', 'probability_density'), ('log_probability_density', 'log_probability_density')):
                whole = call(lambda: getattr(m.model, ep)(X))
                parts = [call(lambda a=a: getattr(m.model, ep)(X[a:a + 61] if form == 'arr2' else X.iloc[a:a + 61])) for a in range(0, n, 61)]
                checks += 1
                if whole[0] != 'ok' or whole[1].shape != (n,) or any(p[0] != 'ok' for p in parts):
                    ctx.fail_input(ep, dict(inp_of(m, form, pd.DataFrame(rows[:2], columns=m.labels), rows[:2]), n=n), whole[1] if whole[0] != 'ok' else whole[1].shape,
                                   'one value per row for a batch of any size', f'{cls_}:row-dependent[long batch]')
                    continue
                pieces = np.concatenate([p[1] for p in parts])
                with np.errstate(all='ignore'):
                    la, lb = (np.log(whole[1]), np.log(pieces)) if ep == 'probability_density' else (whole[1], pieces)
                    okv = (whole[1] == pieces) | (np.abs(la - lb) <= logtol) | ((la < -660) & (lb < -660))
                if not np.all(okv):
                    i = int(np.argmin(okv))
                    ctx.fail_input(ep, dict(inp_of(m, form, pd.DataFrame(rows[i:i + 1], columns=m.labels), rows[i:i + 1]), n=n, row_index=i,
                                            rows_generator={'stream': 'long', 'first_bad_row': vc.jsonable(rows[i])}),
                                   {'in the batch of n rows': float(whole[1][i]), 'in its piece of 61 rows': float(pieces[i]),
                                    'rows differing': int(np.sum(~okv)), 'first differing index': i},
                                   'the result for a row depends only on that row: a long batch equals its pieces',
                                   f'{cls_}:row-dependent[long batch]')
            with np.errstate(all='ignore'):
                ref = np.atleast_1d(stats.multivariate_normal.pdf(indep_scores(m, rows), cov=m.corr, allow_singular=True))
            p = call(lambda: m.model.probability_density(X))
            checks += 1
            if p[0] == 'ok' and p[1].shape == ref.shape and not same_bits(p[1], ref):
                ctx.fail_input('probability_density', dict(inp_of(m, form, pd.DataFrame(rows[:1], columns=m.labels), rows[:1]), n=n),
                               {'diff': first_diff(p[1], ref)}, 'probability_density(X) = MVN(0, stored correlation).pdf(normal scores of X)',
                               'probability_density:not-mvn-of-scores')
    # cdf: n <= 300, cheapest model
    m = min(models, key=lambda m: (m.singular, m.d))
    n = 300 if deep else 150
    rows = m.train[nr.randint(len(m.train), size=n)] + 0.3 * m.sd * nr.normal(size=(n, m.d))
    X = pd.DataFrame(rows, columns=m.labels)
    whole = call(lambda: m.model.cumulative_distribution(X))
    parts = [call(lambda a=a: m.model.cumulative_distribution(X.iloc[a:a + 61])) for a in range(0, n, 61)]
    checks += 1
    ctx.count(f'long-batch.cdf.n={n}')
    if whole[0] != 'ok' or any(p[0] != 'ok' for p in parts) or whole[1].shape != (n,) or \
            not np.all(np.abs(whole[1] - np.concatenate([p[1] for p in parts])) <= EPS_CDF):
        ctx.fail_input('cumulative_distribution', dict(inp_of(m, 'frame', X.iloc[:2], rows[:2]), n=n),
                       {'whole': whole[1][:6] if whole[0] == 'ok' else whole[1]},
                       'the CDF of a row depends only on that row (1e-3): a long batch equals its pieces',
                       'cumulative_distribution:row-dependent[long batch]')
    return checks


def refusal_oracle(ctx, rng, nr, deep):
    """An UNFITTED model must refuse every observation entry point with exactly what check_fit() raises (same exception
    type) - never another exception type, never a value - for every constructor form and every query container;
    the refused call must leave the instance unfitted, and fitting it afterwards must give a working model."""
    from copulas.multivariate import GaussianMultivariate
    from copulas.univariate import BetaUnivariate, GaussianKDE, GaussianUnivariate
    labels = rng.choice([['x', 'y'], [0, 1], ['a', 7, 'col c']])
    d = len(labels)
    data = nr.normal(size=(6, d)) * 3 + 1
    frame = pd.DataFrame(data, columns=labels)
    perm = list(reversed(range(d)))
    containers = {
        'frame': frame, 'frame-permuted': frame[[labels[i] for i in perm]], 'frame-one-row': frame.iloc[:1],
        'frame-subset': frame[[labels[-1]]], 'frame-other-labels': pd.DataFrame(data, columns=[f'q{i}' for i in range(d)]),
        'ndarray': data.copy(), 'ndarray-one-row': data[:1].copy(), 'ndarray-1d': data[0].copy(),
        'ndarray-wrong-width': data[:, :1].copy(), 'list-of-lists': data.tolist(), 'list-1d': data[0].tolist(),
        'series': frame.iloc[0], 'empty-frame': frame.iloc[:0], 'empty-ndarray': np.empty((0, d)), 'empty-list': [],
        'scalar': 1.5, 'None': None,
    }
    factories = {
        'default': lambda: GaussianMultivariate(),
        'class': lambda: GaussianMultivariate(distribution=GaussianUnivariate),
        'name': lambda: GaussianMultivariate(distribution='copulas.univariate.beta.BetaUnivariate'),
        'instance': lambda: GaussianMultivariate(distribution=GaussianKDE()),
        'dict-full': lambda: GaussianMultivariate(distribution={l: GaussianUnivariate for l in labels}),
        'dict-partial': lambda: GaussianMultivariate(distribution={labels[-1]: BetaUnivariate}),
        'dict-empty': lambda: GaussianMultivariate(distribution={}),
        'random_state=int': lambda: GaussianMultivariate(random_state=rng.randrange(1000)),
        'random_state=RandomState': lambda: GaussianMultivariate(distribution=GaussianUnivariate,
                                                                 random_state=np.random.RandomState(5)),
        'positional': lambda: GaussianMultivariate(GaussianUnivariate, 11),
    }
    observers = ['probability_density', 'pdf', 'log_probability_density', 'cumulative_distribution', 'cdf']
    checks = 0

    def kind_of(f):
        try:
            f()
            return 'value'
        except Exception as e:  # noqa
            return type(e).__name__
    for fname, make in factories.items():
        want = kind_of(lambda: make().check_fit())
        checks += 1
        if want == 'value':
            ctx.fail_input('check_fit', {'constructor': fname}, 'returns', 'an unfitted model fails check_fit()', 'check_fit:accepts-unfitted')
            continue
        calls = [(ep, cn, (lambda ep=ep, c=c: lambda m: getattr(m, ep)(c))()) for ep in observers for cn, c in containers.items()]
        calls += [('sample', 'no-args', lambda m: m.sample()), ('sample', 'num_rows=3', lambda m: m.sample(3)),
                  ('sample', 'conditions', lambda m: m.sample(2, conditions={labels[0]: 0.5})),
                  ('to_dict', '', lambda m: m.to_dict())]
        if not deep:       # quick: every entry point x every container for two constructor forms, a sample for the others
            if fname not in ('default', 'dict-partial'):
                calls = rng.sample(calls, 12) + calls[-4:]
        for ep, cn, f in calls:
            m = make()
            with np.errstate(all='ignore'):
                got = kind_of(lambda: f(m))
            still = kind_of(m.check_fit)
            checks += 1
            ctx.count('refusal.' + ep)
            if got != want or still != want or m.fitted:
                ctx.fail_input(ep, {'constructor': fname, 'container': cn, 'labels': [tok(l) for l in labels],
                                    'query': vc.jsonable(containers[cn]) if cn in containers and not isinstance(containers[cn], (pd.DataFrame, pd.Series))
                                    else (vc.jsonable(containers[cn].to_numpy()) if cn in containers else None)},
                               {'raised': got, 'check_fit() raises': want, 'check_fit() after the refused call': still,
                                'fitted flag after the call': bool(m.fitted)},
                               'an unfitted model refuses with exactly the exception check_fit() raises (NotFittedError), '
                               'never another exception type nor a value, and stays unfitted',
                               f'{ep}:unfitted-not-refused-with-NotFittedError')
        # a refused instance is still usable: fit it and compare with a never-queried twin
        m, twin = make(), make()
        kind_of(lambda: m.cumulative_distribution(frame))
        kind_of(lambda: m.probability_density(data))
        checks += 1
        km, kt = kind_of(lambda: m.fit(frame)), kind_of(lambda: twin.fit(frame))
        ok = km == kt and (km != 'value' or same_bits(np.atleast_1d(m.probability_density(frame)),
                                                      np.atleast_1d(twin.probability_density(frame))))
        if not ok:
            ctx.fail_input('probability_density', {'constructor': fname, 'history': 'refused cdf(q), pdf(q); fit(A)'},
                           'differs from a never-queried twin', 'a refused call leaves no state behind',
                           'probability_density:refused-call-leaves-state')
    return checks


def search(ctx, deep):
    rng = ctx.rng('search')
    nr = ctx.nprng('search')
    np.random.seed(nr.randint(2 ** 31))
    models = list(getattr(ctx, 'models', [])) if not deep else []
    if deep or not models:
        models = models + models_for(ctx, 'search', 40 if deep else 4)
    before = len(ctx.failing)
    checks = oracles(ctx, models, rng, nr, nbatch=6 if deep else 1, deep=deep)
    hchecks = history_oracle(ctx, ctx.rng('history'), ctx.nprng('history'), 16 if deep else 4, deep)
    rchecks = refusal_oracle(ctx, ctx.rng('refusal'), ctx.nprng('refusal'), deep)
    rchecks += constant_oracle(ctx, models, ctx.rng('constant'), ctx.nprng('constant'), deep)
    rchecks += long_batch_oracle(ctx, models, ctx.rng('long'), ctx.nprng('long'), deep)
    ctx.support = {'oracle_checks': checks, 'history_checks': hchecks, 'refusal_checks': rchecks, 'models': len(models),
                   'failures': len(ctx.failing) - before, 'deep': deep}


def replay(ctx, payload):
    before = len(ctx.failing)
    ctx.seed = payload.get('seed', ctx.seed)
    search(ctx, True)
    if not any(f['class'] == payload.get('class') for f in ctx.failing[before:]):
        # the models of the tie stream, in case the input came from run()
        models = models_for(ctx, 'tie', 9 + 3 * 12)
        oracles(ctx, models, ctx.rng('oracle'), ctx.nprng('oracle'), nbatch=2, deep=False)
    return any(f['class'] == payload.get('class') for f in ctx.failing[before:])
