"""C17 — Vine pair-copula data flow, likelihood and sampling are coherent.

Tie (T): tools/gen_vineflow.py regenerates lean/CopVerif/Gen/VineFlowGen.lean from the AST of tree.py / vine.py (index
expressions, branch conditions, set operations, operand order of the pair-copula calls, the 0/1 correction; loops pinned) and
Props/C17c.lean proves generated = hand model for all inputs and re-states the C17 theorems (both recorded findings included)
over the generated definitions.  The driver keeps answering from the hand model, so (K) below survives a broken translation.

Tie (K, plan terms): every generated table is fitted by the REAL `VineCopula` (three types, truncation
1..d) with `copulas.bivariate.select_copula` wrapped (this process only) to log its inputs.  The
structure (per tree: index, L, R, D, parent positions) is sent to the Lean driver
(`Model/VineFlow.lean`), which returns PLANS over external symbols; the harness interprets the
symbols with the real objects and requires

  * fit plan: the inputs the plan names (`COL j` / `Uof(parent, side)`) are bit for bit the matrix
    `select_copula` received for that edge; `select_copula(plan inputs)` gives `edge.name/theta`;
    `fix01(H(l,r)), fix01(H(r,l))` (H = real `partial_derivative`, `fix01` evaluated in Lean at Float)
    is `edge.U` bit for bit (`fix01` = the clamp `<= 0 -> EPS`, `>= 1 -> 1 - EPS`); all U strictly inside (0,1); the rows `Edge.get_conditional_uni` really
    returns are the plan's;
  * likelihood plan: `get_likelihood(u)` equals Σ log pdf along the plan's reads, where a read the
    plan marks `⊥` (cell never written) is interpreted as the SENTINEL the harness makes `np.empty`
    return inside `copulas.multivariate.tree` — for two different sentinels; if every read is written
    the two results must be identical (determinism) and, for a `goodVine`, equal to the
    specification's h-propagated sum (`specArgs`);
  * sampling plan: `_sample_row()` under a seeded global generator equals the plan's traversal /
    inversion sequence interpreted with the real `percent_point`s and marginal `ppf`s, bit for bit;
    the first tree passes the rooted-tree certificate of `sample_shape` for the start node used;
    `sample(n)`: n rows, training columns in order, no NaN, reproducible under `random_state`.

Search: the property's statement as a pure-Python oracle on real fitted vines (no Lean): needed vs
used pseudo-observation per edge, U range, likelihood under two `np.empty` sentinels and against an
independent by-variable recursion, sample shape / NaN / reproducibility; refit histories (the same object
fitted on A then on B, or twice on B, against a fresh fit of B); object states (restored via from_dict /
Multivariate.from_dict / save+load / deepcopy, label kinds str / ints / permuted ints / tuples, columns with
different marginals: same labels, bitwise the same seeded sample, quantile oracle per column); deep: two-column statistics.
"""
import contextlib
import math
import signal
import warnings

import numpy as np
import pandas as pd

import vcommon as vc

warnings.filterwarnings('ignore')

GEN_TARGETS = ('VineFlowGen',)
DRIVER_MAIN = 'Main/VineFlow.lean'
DRIVER_TARGETS = ['CopVerif.Driver.VineFlow']
ALWAYS_SEARCH = True
RULE = ('tables of 3-6 columns (search: 2-6) x 60-150 rows in the modes gauss (random correlation via Cholesky) / '
        'negmix (sign-flipped columns) / clayton (lower-tail chain) / gumbel (upper-tail chain) / indep / discrete '
        '(rounded: ties) / outlier (a nearly functional pair with 2-4% unrelated rows: h saturates, the 0/1 correction '
        'fires; the first two tables of every run) / redundant (a nearly redundant pair, tau 0.85-0.97, Clayton-, Gumbel- '
        'or Frank-like, 2-3 columns; tables 3-5 of every run and the first two of every search) / offset (1.7e12 + 6e4*U, '
        '1e9 + N(0,1): magnitude >> spread); each fitted as center, direct and regular vine with truncation t in 1..d; per fitted vine '
        'one u in (0.02,0.98)^d, two np.empty sentinels, 2 seeded rows of _sample_row and one sample(3).  A case '
        'is distinct by (type, d, t, extracted structure, families) and non-trivial when d >= 3 and the fit '
        'returned; fits that raise are counted as refused.')
PARTIAL = ['edge_inputs_spec_partial / likelihood_reads_written_partial / likelihood_is_sum_of_log_pdfs_partial / '
           'likelihood_deterministic_partial hold under goodVine (every edge: parents[0] carries the smaller '
           'conditioned variable, parents[1] the larger); the hypothesis FAILS on vines the code builds '
           '(edge_inputs_counterexample, likelihood_reads_written_counterexample, '
           'likelihood_deterministic_counterexample: direct vine 3-2-0-1); goodVine is evaluated on every real vine; '
           'Props/C17b PROVES goodVine for every center vine, every vine with d <= 3 or truncation <= 2 and the second tree '
           'of any vine built by the C16 construction model (covered_vine_good), making the four clauses unconditional there',
           'sample_shape: under the rooted-spanning-tree certificate rootedOK, evaluated by the driver on every real '
           'first tree and start node (that every tree can be rooted anywhere is not proved in general)',
           'two_column_sampling_partial: the transform is proved; statistical agreement (marginals, Kendall tau) is '
           'search-only (DKW / Hoeffding bands, false alarm <= 1e-9)',
           '_sample_row applies a stale `tmp` / skips levels when the level search finds no edge: modelled as found '
           '(Step.fresh), not judged (outside the statement for d > 2)']
ASSUMPTIONS = ['the vine structure is data: extracted from the fitted object (C16 covers how it is built)',
               'Edge.index equals the position in Tree.edges (checked on every extracted vine)',
               'list(set)[0] of a one-element set; for larger sets (never in a regular vine) CPython small-int order',
               'select_copula / partial_derivative / probability_density / percent_point / KDE ppf are external '
               'symbols interpreted by the real objects (C03, C06-C11 cover them)',
               'np.empty inside copulas.multivariate.tree is replaced by a sentinel-filling proxy in the harness '
               'process to make reads of unwritten cells observable']

FIT_TIMEOUT_S = 40
TYPES = ('center', 'direct', 'regular')
MODES = ('gauss', 'negmix', 'clayton', 'gumbel', 'indep', 'discrete', 'outlier', 'redundant', 'offset')
MODE_W = (5, 3, 3, 3, 1, 2, 3, 3, 1)
CLS_UCLAMP = 'Tree.prepare_next_tree:U-is-not-the-clamped-h-function'
CLS_QUANT = 'VineCopula.sample:marginal-quantile-inaccurate'
CLS_URANGE = 'Tree.prepare_next_tree:U-outside-(0,1)'
SENTINELS = (0.3125, 0.71875)
CLS_UNWRITTEN = 'VineCopula.get_likelihood:reads-unwritten-cells'
CLS_WRONGCELL = 'VineCopula.get_likelihood:differs-from-sum-of-log-pair-densities'
CLS_WRONGU = 'Edge.get_conditional_uni:wrong-parent-pseudo-observation'
CLS_REFIT = 'VineCopula.fit:refit-differs-from-fresh'


def cause_of(vt, k, sorted_ok, flow_ok):
    """Why an edge of tree k (0-based) is fed / read wrongly.  None <=> exactly the RECORDED finding: a direct or
    regular vine, level >= 3, parents in sort_edge order, and the child's conditioned variables are not carried by
    parents[0] / parents[1] respectively (flowOK false).  Anything else is a different defect."""
    if not sorted_ok:
        return 'parents-not-sorted'
    if vt == 'center':
        return 'center'
    if k < 2:
        return 'level-2'
    if flow_ok:
        return 'flowOK-holds'
    return None


def cls_wrongu(cause):
    return CLS_WRONGU if cause is None else f'Edge.get_conditional_uni:wrong-pseudo-observation:{cause}'


def cls_unwritten(cause):
    return CLS_UNWRITTEN if cause is None else f'{CLS_UNWRITTEN}:{cause}'


# ----------------------------------------------------------------------------- generators
def gen_table(rng, d, mode, n=None):
    rs = np.random.RandomState(rng.getrandbits(32))
    n = n or rng.randint(60, 150)
    A = rs.randn(d, d)
    S = A @ A.T + 0.05 * np.eye(d)
    s = np.sqrt(np.diag(S))
    Lc = np.linalg.cholesky(S / np.outer(s, s))
    Z = rs.randn(n, d) @ Lc.T
    if mode == 'indep':
        Z = rs.randn(n, d)
    elif mode == 'negmix':
        Z = Z * rs.choice([-1.0, 1.0], size=d)
    elif mode in ('clayton', 'gumbel'):
        # chain with lower (clayton) / upper (mirrored) tail dependence, random column order
        th = [rs.uniform(0.8, 4.0) for _ in range(d - 1)]
        U = np.empty((n, d))
        U[:, 0] = rs.uniform(0.001, 0.999, n)
        for j in range(1, d):
            w = rs.uniform(0.001, 0.999, n)
            t = th[j - 1]
            U[:, j] = ((w ** (-t / (1 + t)) - 1) * U[:, j - 1] ** (-t) + 1) ** (-1 / t)
        if mode == 'gumbel':
            U = 1 - U
        from scipy.stats import norm
        Z = norm.ppf(np.clip(U, 1e-6, 1 - 1e-6))[:, rs.permutation(d)]
    elif mode == 'outlier':
        # one nearly functional pair (either sign) with 2-4% unrelated rows: large theta, points far from the
        # diagonal => h saturates to exactly 0 / 1 (the 0/1 correction fires)
        i, j = rng.sample(range(d), 2)
        Z[:, j] = rs.choice([-1.0, 1.0]) * Z[:, i] + rng.choice([0.005, 0.01, 0.02, 0.04]) * rs.randn(n)
        k = max(2, int(rng.uniform(0.02, 0.04) * n))
        Z[:k, j] = rs.randn(k)
    elif mode == 'redundant':
        # a nearly redundant pair, Kendall tau 0.85-0.97: Clayton-like (lower tail), Gumbel-like (mirrored) or
        # Frank/Gauss-like; large theta => h saturates to exactly 0 / 1 on many rows
        from scipy.stats import norm
        kind = rng.choice(['clayton', 'clayton', 'gumbel', 'frank'])
        tau = rng.uniform(0.85, 0.97)
        i, j = rng.sample(range(d), 2)
        if kind == 'frank':
            rho = math.sin(math.pi * tau / 2)
            Z[:, i] = rs.randn(n)
            Z[:, j] = rho * Z[:, i] + math.sqrt(1 - rho * rho) * rs.randn(n)
        else:
            t = 2 * tau / (1 - tau)
            a = rs.uniform(0.001, 0.999, n)
            w = rs.uniform(0.001, 0.999, n)
            b = ((w ** (-t / (1 + t)) - 1) * a ** (-t) + 1) ** (-1 / t)
            if kind == 'gumbel':
                a, b = 1 - a, 1 - b
            Z[:, i] = norm.ppf(np.clip(a, 1e-6, 1 - 1e-6))
            Z[:, j] = norm.ppf(np.clip(b, 1e-6, 1 - 1e-6))
    elif mode == 'offset':
        # magnitude huge compared with the spread (epoch milliseconds within a minute; 1e9 + N(0,1))
        Z[:, 0] = 1.7e12 + 6e4 * (0.5 + 0.5 * np.tanh(Z[:, 0]))
        Z[:, 1] = rng.choice([1e9, -1e9, 1e8]) + Z[:, 1]
    elif mode == 'discrete':
        Z = np.round(Z * rng.choice([2.0, 4.0])) + 1e-3 * rs.randn(n, d) * (rng.random() < 0.5)
    if d >= 3 and rng.random() < 0.7:
        # center vines: the anchor edge (0, strongest partner of column 0) must sort AFTER another first-tree edge
        from scipy.stats import kendalltau
        taus = [abs(kendalltau(Z[:, 0], Z[:, j])[0]) for j in range(1, d)]
        if int(np.nanargmax(taus)) == 0:
            j = rng.randint(2, d - 1)
            Z[:, [1, j]] = Z[:, [j, 1]]
    return pd.DataFrame(Z, columns=[f'c{i}' for i in range(d)])


# ----------------------------------------------------------------------------- real code access
class FitTimeout(Exception):
    pass


@contextlib.contextmanager
def time_limit(seconds):
    def handler(signum, frame):
        raise FitTimeout()
    old = signal.signal(signal.SIGALRM, handler)
    signal.setitimer(signal.ITIMER_REAL, seconds)
    try:
        yield
    finally:
        signal.setitimer(signal.ITIMER_REAL, 0)
        signal.signal(signal.SIGALRM, old)


@contextlib.contextmanager
def log_select():
    """wrap copulas.bivariate.select_copula (this process only): log (X, family, theta) per call."""
    import copulas.bivariate as CB
    orig = CB.select_copula
    log = []

    def sel(X):
        c = orig(X)
        log.append((np.array(X, dtype=float, copy=True), c.copula_type, c.theta))
        return c
    CB.select_copula = sel
    try:
        yield log
    finally:
        CB.select_copula = orig


class _NpProxy:
    """numpy with `empty` replaced: float buffers come back filled with a sentinel."""

    def __init__(self, sentinel):
        self._s = sentinel

    def __getattr__(self, name):
        return getattr(np, name)

    def empty(self, shape, *a, **k):
        r = np.empty(shape, *a, **k)
        if r.dtype.kind == 'f':
            r.fill(self._s)
        return r


@contextlib.contextmanager
def poisoned_empty(sentinel, vine_sentinel=None):
    """np.empty inside copulas.multivariate.tree returns buffers filled with `sentinel`; with `vine_sentinel`
    also inside copulas.multivariate.vine (the per-tree `values` buffer of VineCopula.get_likelihood)."""
    from copulas.multivariate import tree as T
    from copulas.multivariate import vine as V
    orig, orig_v = T.np, V.np
    T.np = _NpProxy(sentinel)
    if vine_sentinel is not None:
        V.np = _NpProxy(vine_sentinel)
    try:
        yield
    finally:
        T.np = orig
        V.np = orig_v


def real_fit(X, vt, t):
    """-> ('ok', vine, select log) | ('timeout', None, None) | ('exc', exception, None)"""
    from copulas.multivariate.vine import VineCopula
    try:
        with log_select() as log, time_limit(FIT_TIMEOUT_S):
            v = VineCopula(vt)
            v.fit(X, truncated=t)
        return 'ok', v, log
    except FitTimeout:
        return 'timeout', None, None
    except Exception as e:  # noqa
        return 'exc', e, None


def _idx(lst, obj):
    for i, x in enumerate(lst):
        if x is obj:
            return i
    return 999


def fam_of(e):
    return int(e.name.value) if hasattr(e.name, 'value') else int(e.name)


def extract(vine):
    out = []
    prev = None
    for tr in vine.trees:
        es = []
        for e in tr.edges:
            par = None
            if e.parents is not None:
                par = tuple(_idx(prev.edges, p) for p in e.parents) if prev is not None else (999, 999)
            es.append({'index': int(e.index), 'L': int(e.L), 'R': int(e.R), 'D': sorted(int(x) for x in e.D),
                       'parents': par, 'fam': fam_of(e)})
        out.append(es)
        prev = tr
    return out


def enc_trees(trees):
    ws = [str(len(trees))]
    for t in trees:
        ws.append(str(len(t)))
        for e in t:
            ws += [str(e['index']), str(e['L']), str(e['R']), str(len(e['D']))] + [str(x) for x in e['D']]
            ws += ['_', '_'] if e['parents'] is None else [str(e['parents'][0]), str(e['parents'][1])]
    return ' '.join(ws)


def struct_key(trees):
    return tuple(tuple((e['L'], e['R'], tuple(e['D']), e['parents'], e['fam']) for e in t) for t in trees)


def parse_levels(reply, width):
    """'ok m (ne tok*width per edge)*' -> list of list of token tuples | ('err', text)"""
    ws = reply.split()
    if not ws or ws[0] != 'ok':
        return ('err', reply)
    pos = 1
    m = int(ws[pos]); pos += 1
    out = []
    for _ in range(m):
        ne = int(ws[pos]); pos += 1
        lv = []
        for _ in range(ne):
            lv.append(tuple(ws[pos:pos + width])); pos += width
        out.append(lv)
    if pos != len(ws):
        return ('err', 'trailing: ' + reply[:120])
    return out


def parse_spec(reply):
    """prefix terms -> nested tuples ('u', j) | ('h', k, i, a, b) | ('junk',)"""
    ws = reply.split()
    if not ws or ws[0] != 'ok':
        return ('err', reply)
    pos = [1]

    def term():
        w = ws[pos[0]]; pos[0] += 1
        if w == 'h':
            k = int(ws[pos[0]]); i = int(ws[pos[0] + 1]); pos[0] += 2
            a = term(); b = term()
            return ('h', k, i, a, b)
        if w == 'junk':
            return ('junk',)
        return ('u', int(w[1:]))
    m = int(ws[pos[0]]); pos[0] += 1
    out = []
    for _ in range(m):
        ne = int(ws[pos[0]]); pos[0] += 1
        out.append([(term(), term()) for _ in range(ne)])
    return out


def bits_eq(a, b):
    a = np.ascontiguousarray(np.asarray(a, dtype=np.float64))
    b = np.ascontiguousarray(np.asarray(b, dtype=np.float64))
    return a.shape == b.shape and bool(np.array_equal(a.view(np.uint64), b.view(np.uint64)))


def copula_of(edge):
    from copulas.bivariate.base import Bivariate
    c = Bivariate(copula_type=edge.name)
    c.theta = edge.theta
    return c


def table_input(X, vt, t, **extra):
    d = {'columns': list(X.columns), 'rows': X.to_numpy().tolist(), 'vine_type': vt, 'truncated': int(t)}
    d.update(extra)
    return d


# ----------------------------------------------------------------------------- plan interpreters
def src_array(vine, k, tok):
    """value of a fit-plan source for tree k: 'c<j>' | 'u<parent>.<side>'"""
    if tok[0] == 'c':
        return vine.u_matrix[:, int(tok[1:])]
    p, s = tok[1:].split('.')
    return vine.trees[k - 1].edges[int(p)].U[int(s)]


def which_slot(prev_edges, arr):
    """(parent position, side) of the previous tree whose U row IS `arr` (same memory), else None."""
    ptr = arr.__array_interface__['data'][0]
    for i, p in enumerate(prev_edges):
        for s in (0, 1):
            row = p.U[s]
            if row.__array_interface__['data'][0] == ptr and row.shape == arr.shape:
                return (i, s)
    return None


def lik_by_plan(vine, plan, u, sentinel):
    """Σ log pdf along the plan's reads, mimicking the real array shapes; ⊥ reads take `sentinel`."""
    M = None
    totals = np.empty([1, len(plan)])
    for k, lv in enumerate(plan):
        new = {}
        values = np.zeros([1, len(lv)])
        for i, (rl, rr) in enumerate(lv):
            e = vine.trees[k].edges[i]

            def rd(tok):
                if tok[0] == 'i':
                    return u[:, int(tok[1:])]
                r, c = (int(x) for x in tok[1:].split('.'))
                if tok[0] == 'w':
                    return M[(r, c)]
                return sentinel
            a, b = rd(rl), rd(rr)
            c = copula_of(e)
            Xlr = np.array([[a, b]])
            Xrl = np.array([[b, a]])
            value = np.sum(c.probability_density(Xlr))
            new[(int(e.L), int(e.R))] = np.ravel(c.partial_derivative(Xlr))[0]
            new[(int(e.R), int(e.L))] = np.ravel(c.partial_derivative(Xrl))[0]
            values[0, i] = np.log(value)
        totals[0, k] = np.sum(values)
        M = new
    return float(np.sum(totals))


def lik_by_spec(vine, spec, u):
    """Σ log pdf at the specification's h-propagated arguments (terms evaluated by the real objects)."""
    def ev(t):
        if t[0] == 'u':
            return u[:, t[1]]
        _, k, i, a, b = t
        c = copula_of(vine.trees[k].edges[i])
        return np.ravel(c.partial_derivative(np.array([[ev(a), ev(b)]])))[0]
    totals = np.empty([1, len(spec)])
    for k, lv in enumerate(spec):
        values = np.zeros([1, len(lv)])
        for i, (a, b) in enumerate(lv):
            c = copula_of(vine.trees[k].edges[i])
            values[0, i] = np.log(np.sum(c.probability_density(np.array([[ev(a), ev(b)]]))))
        totals[0, k] = np.sum(values)
    return float(np.sum(totals))


def real_lik(vine, u, sentinel=None, vine_sentinel=None):
    try:
        with np.errstate(all='ignore'):
            if sentinel is None:
                return float(vine.get_likelihood(u.copy()))
            with poisoned_empty(sentinel, vine_sentinel):
                return float(vine.get_likelihood(u.copy()))
    except Exception as e:  # noqa
        return 'exc:' + type(e).__name__


def same_num(a, b, rtol=1e-12):
    if isinstance(a, str) or isinstance(b, str):
        return a == b
    if a != a or b != b:
        return a != a and b != b
    if a == b:
        return True
    if math.isinf(a) or math.isinf(b):
        return False
    return abs(a - b) <= rtol * max(1.0, abs(a), abs(b))


def parse_sample(reply):
    ws = reply.split()
    if not ws or ws[0] != 'ok':
        return ('err', reply)
    pos = 1
    nv = int(ws[pos]); pos += 1
    out = []
    for _ in range(nv):
        cur = int(ws[pos]); giv = ws[pos + 1]; ns = int(ws[pos + 2]); pos += 3
        steps = []
        for _ in range(ns):
            steps.append((int(ws[pos]), int(ws[pos + 1]), ws[pos + 2] == '1')); pos += 3
        out.append((cur, None if giv == '_' else int(giv), steps))
    return out


def row_by_plan(vine, visits, unis):
    """interpret the sampling plan with the real percent_point / ppf objects."""
    from copulas.bivariate.base import Bivariate, CopulaTypes
    from copulas.utils import EPSILON
    sampled = np.zeros(vine.n_var)
    tmp = None
    for cur, giv, steps in visits:
        if giv is None:
            new_x = vine.ppfs[cur](unis[cur])
        else:
            for (ti, ei, fresh) in steps:
                e = vine.trees[ti].edges[ei]
                c = Bivariate(copula_type=CopulaTypes(e.name))
                c.theta = e.theta
                U = np.array([unis[giv]])
                src = unis[cur] if fresh else tmp
                tmp = c.percent_point(np.array([src]), U)[0]
                tmp = min(max(tmp, EPSILON), 0.99)
            new_x = vine.ppfs[cur](np.array([tmp]))
        sampled[cur] = np.ravel(new_x)[0]
    return sampled


def draw_like_sample_row(seed, d):
    """the two draws `_sample_row` makes, from a freshly seeded global generator."""
    st = np.random.get_state()
    try:
        np.random.seed(seed)
        unis = np.random.uniform(0, 1, d)
        first = int(np.random.randint(0, d))
    finally:
        np.random.set_state(st)
    return unis, first


def real_row(vine, seed):
    st = np.random.get_state()
    try:
        np.random.seed(seed)
        with np.errstate(all='ignore'):
            return np.asarray(vine._sample_row(), dtype=float)
    except Exception as e:  # noqa
        return 'exc:' + type(e).__name__
    finally:
        np.random.set_state(st)


# ----------------------------------------------------------------------------- by-variable oracle (no Lean)
def slot_meaning(p, s):
    """U[s] of edge p is F(var | given)"""
    return (int(p.L), frozenset([int(p.R)]) | frozenset(int(x) for x in p.D)) if s == 0 else \
        (int(p.R), frozenset([int(p.L)]) | frozenset(int(x) for x in p.D))


def oracle_inputs(vine):
    """per edge above the first tree: (cause, tree, edge, used slots, needed meaning) where they differ."""
    from copulas.multivariate.tree import Edge
    bad = []
    for k in range(1, len(vine.trees)):
        prev = vine.trees[k - 1].edges
        for i, e in enumerate(vine.trees[k].edges):
            lu, ru = Edge.get_conditional_uni(*e.parents)
            used = (which_slot(prev, lu), which_slot(prev, ru))
            D = frozenset(int(x) for x in e.D)
            need = ((int(e.L), D), (int(e.R), D))
            got = tuple(slot_meaning(prev[u[0]], u[1]) if u is not None else None for u in used)
            if got != need:
                p0, p1 = e.parents
                sorted_ok = (int(p0.L), int(p0.R)) <= (int(p1.L), int(p1.R))
                flow_ok = int(e.L) in (int(p0.L), int(p0.R)) and int(e.R) in (int(p1.L), int(p1.R))
                bad.append({'cause': cause_of(vine.vine_type, k, sorted_ok, flow_ok),
                            'tree': k + 1, 'edge': (int(e.L), int(e.R), sorted(D)),
                            'parents': [(int(p.L), int(p.R), sorted(int(x) for x in p.D)) for p in e.parents],
                            'used': [f'F({g[0]}|{sorted(g[1])})' if g else None for g in got],
                            'needed': [f'F({n_[0]}|{sorted(n_[1])})' for n_ in need]})
    return bad


def oracle_U(vine):
    """edge.U against an independent recomputation: raw h-values of the edge copula at the inputs the edge was given
    (first tree: columns L, R of u_matrix; above: the rows get_conditional_uni returns), clamped ROW BY ROW only where
    the raw value is <= 0 or >= 1.  -> first problem (dict) or None"""
    from copulas.multivariate.tree import Edge
    from copulas.utils import EPSILON
    eps = float(EPSILON)
    for k, tr in enumerate(vine.trees):
        for i, e in enumerate(tr.edges):
            if k == 0:
                l, r = vine.u_matrix[:, int(e.L)], vine.u_matrix[:, int(e.R)]
            else:
                l, r = Edge.get_conditional_uni(*e.parents)
            l, r = np.asarray(l, dtype=float), np.asarray(r, dtype=float)
            c = copula_of(e)
            with np.errstate(all='ignore'):
                raw = [np.asarray(c.partial_derivative(np.column_stack((l, r))), dtype=float),
                       np.asarray(c.partial_derivative(np.column_stack((r, l))), dtype=float)]
            U = np.asarray(e.U, dtype=float)
            for s_ in (0, 1):
                h = raw[s_]
                want = np.where(h <= 0, eps, np.where(h >= 1, 1 - eps, h))
                if U.shape != (2, len(h)):
                    return {'tree': k + 1, 'edge': i, 'U.shape': U.shape}
                neq = ~((U[s_] == want) | (np.isnan(U[s_]) & np.isnan(want)))
                if bool(neq.any()):
                    row = int(np.argmax(neq))
                    return {'tree': k + 1, 'edge': (int(e.L), int(e.R), sorted(int(x) for x in e.D)), 'side': s_,
                            'family': str(e.name), 'theta': float(np.ravel(e.theta)[0]), 'row': row,
                            'raw h': float(h[row]), 'stored U': float(U[s_][row]), 'expected': float(want[row]),
                            'rows differing': int(neq.sum()), 'rows clamped': int(np.sum((h <= 0) | (h >= 1)))}
    return None


def quantile_oracle(v, n, seed):
    """deterministic: every value sample() stores in column j is ppfs[j](u) for the uniform u the vine fed to it
    (recorded by wrapping vine.ppfs), so unis[j].cdf(x) must give u back (probability space, 1e-6), and the sampled
    values of a continuous marginal are (nearly) all distinct.  -> problem (dict) or None"""
    rec = []
    orig = list(v.ppfs)

    def mk(j, f):
        def g(u):
            x = f(u)
            rec.append((j, float(np.ravel(u)[0]), float(np.ravel(x)[0])))
            return x
        return g
    try:
        v.ppfs = [mk(j, f) for j, f in enumerate(orig)]
        v.set_random_state(seed)
        with np.errstate(all='ignore'):
            S = v.sample(n)
    except ValueError as ex:
        if 'different signs' in str(ex):
            return None
        return {'sample raised': f'{type(ex).__name__}: {str(ex)[:80]}'}
    finally:
        v.ppfs = orig
        v.random_state = None
    worst = None
    for j, u, x in rec:
        with np.errstate(all='ignore'):
            back = float(np.ravel(v.unis[j].cumulative_distribution(np.array([x])))[0])
        err = abs(back - u)
        if not err <= 1e-6 and (worst is None or not err <= worst['|cdf(x) - u|']):
            worst = {'column': j, 'u fed to ppf': u, 'x = ppf(u)': x, 'cdf(x)': back, '|cdf(x) - u|': err,
                     'tolerance': 1e-6, 'values checked': len(rec)}
    if worst:
        return worst
    for j in range(S.shape[1]):
        nd = int(S.iloc[:, j].nunique())
        if nd < 0.9 * n - 2:          # the clamp min(max(tmp, EPS), 0.99) merges ~1% of the draws
            return {'column': j, 'distinct sampled values': nd, 'rows': n}
    return None


def vine_sum_oracle(vine, u):
    """wrap Tree.get_likelihood (this process): VineCopula.get_likelihood must call every tree exactly once, in
    order, and return the sum of their values.  -> problem (dict) or None"""
    from copulas.multivariate import tree as T
    orig = T.Tree.get_likelihood
    calls = []

    def rec(self, uni_matrix):
        out = orig(self, uni_matrix)
        calls.append((self, float(out[0])))
        return out
    T.Tree.get_likelihood = rec
    try:
        r = real_lik(vine, u, SENTINELS[0], SENTINELS[1])
    finally:
        T.Tree.get_likelihood = orig
    if isinstance(r, str):
        return None
    order = [_idx(vine.trees, c[0]) for c in calls]
    if order != list(range(len(vine.trees))):
        return {'trees': len(vine.trees), 'trees evaluated (positions)': order, 'get_likelihood': r}
    total = float(np.sum(np.array([[c[1] for c in calls]])))
    if not same_num(r, total, 1e-12):
        return {'trees': len(vine.trees), 'get_likelihood': r, 'sum of the tree values': total}
    return None


INV_TOL = {'Clayton': 1e-6}      # closed form; Frank / Gumbel go through Brent on a noisy h for large theta: 2e-2


def inversion_oracle(v, n, seed):
    """every pair-copula inversion `x = copula.percent_point(y, v)` made while sampling must satisfy
    h(x | v) = y (Clayton, closed form: 1e-6; Frank / Gumbel via Brent: 2e-2).  -> (problem or None, #checked, families)"""
    from copulas.bivariate.base import Bivariate
    from copulas.bivariate.clayton import Clayton
    rec = []
    saved = []

    def wrap(cls):
        orig = cls.__dict__['percent_point']
        saved.append((cls, orig))

        def pp(self, y, V):
            x = orig(self, y, V)
            with np.errstate(all='ignore'):
                back = np.ravel(self.partial_derivative_scalar(np.asarray(x, dtype=float), np.asarray(V, dtype=float)))
            for a, b, c, d_ in zip(np.ravel(y), np.ravel(V), np.ravel(x), back):
                rec.append((type(self).__name__, float(np.ravel(self.theta)[0]), float(a), float(b), float(c), float(d_)))
            return x
        cls.percent_point = pp
    try:
        wrap(Clayton)
        wrap(Bivariate)
        v.set_random_state(seed)
        with np.errstate(all='ignore'):
            v.sample(n)
    except ValueError as ex:
        if 'different signs' not in str(ex):
            return {'sample raised': f'{type(ex).__name__}: {str(ex)[:80]}'}, len(rec), set()
    finally:
        for cls, orig in saved:
            cls.percent_point = orig
        v.random_state = None
    worst = None
    for fam, th, y, vv, x, back in rec:
        err = abs(back - y)
        tol = INV_TOL.get(fam, 2e-2)
        if not err <= tol and (worst is None or not err <= worst['|h(x|v) - y|']):
            worst = {'family': fam, 'theta': th, 'y': y, 'v': vv, 'x = percent_point(y, v)': x, 'h(x|v)': back,
                     '|h(x|v) - y|': err, 'tolerance': tol, 'inversions checked': len(rec)}
    return worst, len(rec), {r_[0] for r_ in rec}


def gen_clayton_table(rng, d, tries=10):
    """Clayton-generated chain, tau 0.75-0.9, kept when the center fit selects a Clayton first-tree edge with
    theta >= 6 (select_copula often prefers Frank); falls back to the last table tried."""
    from scipy.stats import norm
    from copulas.multivariate.vine import VineCopula
    X = None
    for _ in range(tries):
        rs = np.random.RandomState(rng.getrandbits(32))
        n = rng.randint(80, 150)
        tau = rng.uniform(0.75, 0.9)
        t = 2 * tau / (1 - tau)
        U = np.empty((n, d))
        U[:, 0] = rs.uniform(0.001, 0.999, n)
        for j in range(1, d):
            w = rs.uniform(0.001, 0.999, n)
            U[:, j] = ((w ** (-t / (1 + t)) - 1) * U[:, j - 1] ** (-t) + 1) ** (-1 / t)
        X = pd.DataFrame(norm.ppf(np.clip(U, 1e-6, 1 - 1e-6)), columns=[f'c{i}' for i in range(d)])
        try:
            v = VineCopula('center')
            v.fit(X, truncated=1)
            e = v.trees[0].edges[0]
            if fam_of(e) == 0 and float(np.ravel(e.theta)[0]) >= 6:
                return X, True
        except Exception:  # noqa
            pass
    return X, False


def offdiag_lik_oracle(ctx, counts, rng):
    """strongly dependent tables (tau ~ 0.9), u far off the diagonal: a pair density underflows to 0 / NaN there, and
    get_likelihood must still be the sum over ALL edges of the log pair densities, NaN and -inf propagated (center
    vines, and direct / regular vines with <= 3 columns, where the recorded parent-order findings cannot interfere)."""
    from copulas.multivariate.vine import VineCopula
    for d, vts in ((3, TYPES), (4, ('center',))):
        X = gen_table(rng, d, 'redundant', 90)
        X2, _ = gen_clayton_table(rng, d, tries=1)
        for tab in (X, X2):
            for vt in vts:
                try:
                    with time_limit(FIT_TIMEOUT_S):
                        v = VineCopula(vt)
                        v.fit(tab, truncated=d)
                except Exception:  # noqa
                    counts['refused'] += 1
                    continue
                probes = [[0.9, 0.1, 0.1, 0.9][:d], [1e-6, 0.5, 0.5, 1 - 1e-6][:d], [0.1, 0.9, 0.9, 0.1][:d],
                          [1 - 1e-6, 1e-6, 0.5, 0.5][:d], [rng.choice([0.001, 0.02, 0.98, 0.999]) for _ in range(d)]]
                for pr in probes:
                    u = np.array([pr], dtype=float)
                    r = real_lik(v, u)
                    with np.errstate(all='ignore'):
                        try:
                            want = oracle_lik(v, u)
                        except Exception as ex:  # noqa
                            want = 'exc:' + type(ex).__name__
                    counts['off-diagonal likelihood probes'] += 1
                    if not isinstance(r, str) and (r != r or math.isinf(r)):
                        counts['off-diagonal probes with NaN/inf result'] += 1
                    if isinstance(r, str) or not same_num(r, want, 1e-9):
                        counts['failures'] += 1
                        ctx.fail_input('VineCopula.get_likelihood', table_input(tab, vt, d, u=u.tolist()),
                                       {'get_likelihood': r, 'sum over all edges of log pair densities (NaN/inf propagated)': want},
                                       'sum of log pair-copula densities at the h-propagated arguments, NaN / -inf included',
                                       CLS_WRONGCELL if not isinstance(r, str) else 'VineCopula.get_likelihood:raises')


def shadow_oracle(ctx, counts, rng):
    """ambient user code must not change a vine: with user subclasses of the library families present (they share
    `copula_type`) and the subclass registry rediscovered, Bivariate(copula_type=...) is still the LIBRARY family and
    a fitted vine is observably the same.  The user classes are removed again (registry restored, gc)."""
    import gc
    from copulas.bivariate import Clayton, Frank, Gumbel
    from copulas.bivariate.base import Bivariate, CopulaTypes
    from copulas.multivariate.vine import VineCopula
    counts['shadow-class checks'] += 1
    X = gen_table(rng, 3, 'clayton', 70)
    u = np.array([[rng.uniform(0.05, 0.95) for _ in range(3)]])
    seed = rng.getrandbits(31)

    def fitted():
        with poisoned_empty(SENTINELS[0], SENTINELS[0]):
            v = VineCopula('center')
            v.fit(X, truncated=3)
        return vine_signature(v, u, seed)
    try:
        before = fitted()
    except Exception:  # noqa
        counts['refused'] += 1
        return
    saved = Bivariate._subclasses

    class _Rot:
        def partial_derivative(self, X_):
            return 1 - super().partial_derivative(1 - np.asarray(X_))

        def probability_density(self, X_):
            return super().probability_density(1 - np.asarray(X_))

        def percent_point(self, y, V):
            return 1 - super().percent_point(1 - np.asarray(y), 1 - np.asarray(V))
    user = [type('User' + c.__name__, (_Rot, c), {}) for c in (Clayton, Frank, Gumbel)]
    probs = []
    try:
        Bivariate._subclasses = []
        for ct, lib in ((CopulaTypes.CLAYTON, Clayton), (CopulaTypes.FRANK, Frank), (CopulaTypes.GUMBEL, Gumbel)):
            got = type(Bivariate(copula_type=ct))
            if got is not lib:
                probs.append({'copula_type': str(ct), 'Bivariate(copula_type=...) is': got.__name__, 'expected': lib.__name__})
        try:
            after = fitted()
            diff = [k for k in before if before[k] != after.get(k)]
            if diff:
                probs.append({'fitted center vine differs in': diff})
        except Exception as ex:  # noqa
            probs.append({'fit with user subclasses present raised': f'{type(ex).__name__}: {str(ex)[:80]}'})
    finally:
        Bivariate._subclasses = saved
        del user
        gc.collect()
    if probs:
        counts['failures'] += 1
        ctx.fail_input('Bivariate.__new__', dict(table_input(X, 'center', 3), user_classes='subclasses of Clayton / Frank / Gumbel '
                       'sharing copula_type'), probs, 'Bivariate(copula_type=...) instantiates the library family; the vine '
                       'depends only on (table, vine type)', 'Bivariate.__new__:user-subclass-shadows-library-family')


def sampling_coherence(ctx, counts, rng, deep):
    """strongly lower-tail-dependent pairs (Clayton edge, theta >= 6): every inversion made by the sampler is exact
    (h(x|v) = y), and the two-column sample has the Kendall tau of the fitted pair copula (calibrated on the clean
    tree: |diff| <= 0.013 at n = 400 over 12 seeds; band 0.12)."""
    from scipy.stats import kendalltau
    from copulas.multivariate.vine import VineCopula
    for d in (2, 3):
        X, is_clayton = gen_clayton_table(rng, d)
        counts['clayton tables' if is_clayton else 'clayton-generated tables with another family'] += 1
        for vt in TYPES:
            try:
                with time_limit(FIT_TIMEOUT_S):
                    v = VineCopula(vt)
                    v.fit(X, truncated=d)
            except Exception:  # noqa
                counts['refused'] += 1
                continue
            prob, nchk, fams = inversion_oracle(v, 40 if not deep else 100, rng.getrandbits(31))
            counts['inversions checked'] += nchk
            if prob:
                counts['failures'] += 1
                ctx.fail_input('VineCopula.sample', table_input(X, vt, d), prob,
                               'every pair-copula inversion of the sampler satisfies h(x | v) = y',
                               'VineCopula.sample:pair-copula-inversion-inaccurate')
            if d == 2 and vt == 'center':
                n = 400
                try:
                    v.set_random_state(rng.getrandbits(31))
                    with np.errstate(all='ignore'):
                        S = v.sample(n).to_numpy()
                except Exception:  # noqa
                    continue
                finally:
                    v.random_state = None
                counts['two-column tau checks'] += 1
                tau_s = float(kendalltau(S[:, 0], S[:, 1])[0])
                tau_e = float(kendalltau(X.iloc[:, 0], X.iloc[:, 1])[0])
                if not abs(tau_s - tau_e) <= 0.12:
                    counts['failures'] += 1
                    ctx.fail_input('VineCopula.sample', table_input(X, vt, d),
                                   {'tau(sample, n=400)': tau_s, 'tau(fitted pair copula)': tau_e, 'band': 0.12,
                                    'family': str(v.trees[0].edges[0].name), 'theta': float(np.ravel(v.trees[0].edges[0].theta)[0])},
                                   'two-column samples reproduce the Kendall tau of the selected pair copula',
                                   'VineCopula.sample:two-column-tau')


def oracle_lik(vine, u):
    """Σ log pdf with the arguments chosen BY VARIABLE (what the vine factorisation needs)."""
    slots = None
    totals = []
    for k, tr in enumerate(vine.trees):
        new = []
        vals = []
        for e in tr.edges:
            c = copula_of(e)
            if k == 0:
                a, b = u[:, int(e.L)], u[:, int(e.R)]
            else:
                prev = vine.trees[k - 1].edges

                def pick(x):
                    for p in e.parents:
                        j = _idx(prev, p)
                        if int(p.L) == x:
                            return slots[j][0]
                        if int(p.R) == x:
                            return slots[j][1]
                    raise KeyError(x)
                a, b = pick(int(e.L)), pick(int(e.R))
            vals.append(np.log(np.sum(c.probability_density(np.array([[a, b]])))))
            new.append((np.ravel(c.partial_derivative(np.array([[a, b]])))[0],
                        np.ravel(c.partial_derivative(np.array([[b, a]])))[0]))
        totals.append(float(np.sum(np.array(vals))))
        slots = new
    return float(np.sum(np.array(totals)))


# ----------------------------------------------------------------------------- the tie
OBS = ['corr:select_copula inputs = plan inputs', 'corr:edge.name/theta = select_copula(plan inputs)',
       'corr:edge.U = fix01(H(plan inputs))', 'corr:U = fix01(non-NaN H) strictly inside (0,1)',
       'corr:get_conditional_uni rows = plan', 'corr:flowOK => plan = needed slots',
       'corr:get_likelihood = sum log pdf along plan reads', 'corr:all reads written => deterministic',
       'corr:goodVine => get_likelihood = specification sum', 'corr:_sample_row = sampling plan',
       'corr:first tree rooted-tree certificate', 'corr:sample(n) shape/no-NaN/reproducible',
       'corr:structure extractable', 'corr:parents in sort_edge order', 'corr:center vine => goodVine',
       'corr:restored vine (from_dict / load / deepcopy) samples like the original']


def run(ctx, lean):
    if lean is None:
        for nme in OBS:
            ctx.ob(nme, False, 'tie', 'driver unavailable')
        return
    from copulas.utils import EPSILON
    eps_hex = vc.f2h(float(EPSILON))
    bad = dict.fromkeys(OBS)

    def note(name, detail):
        if bad[name] is None:
            bad[name] = detail

    rng = ctx.rng('tables')
    n_tables = 16 if ctx.tier == 'quick' else 64
    for it in range(n_tables):
        d = rng.choice([3, 4, 4, 4, 5, 5, 6])
        mode = rng.choices(MODES, MODE_W)[0]
        if it < 2:
            d, mode = rng.choice([3, 4]), 'outlier'
        elif it < 5:
            d, mode = rng.choice([2, 3, 3]), 'redundant'
        X = gen_table(rng, d, mode)
        for vt in TYPES:
            t = rng.choice([1, 2, d - 1, d - 1, d, rng.randint(1, d)])
            ctx.count(f'type={vt}')
            ctx.count(f'd={d}')
            ctx.count(f'mode={mode}')
            st, v, log = real_fit(X, vt, t)
            if st != 'ok':
                ctx.case()
                ctx.count(f'refused:{st}:{type(v).__name__}')
                continue
            tie_one(ctx, lean, X, vt, t, v, log, eps_hex, note, rng)
    # sampling, object states: the plan interpretation above ties the ORIGINAL object; a restored one must be it
    srng = ctx.rng('states')
    scounts = new_counts()
    for kind in LABEL_KINDS:
        d = srng.choice([2, 3])
        X = gen_distinct_marginals(srng, d, kind)
        ctx.count(f'object states: labels={kind}')
        ctx.case(('states', kind, d))
        probs = states_oracle(ctx, X, kind, scounts, srng)
        if probs:
            note('corr:restored vine (from_dict / load / deepcopy) samples like the original',
                 {'labels': kind, 'd': d, 'state': probs[0][0], 'what': probs[0][1], 'detail': str(probs[0][2])[:200]})
    for k, b in bad.items():
        ctx.ob(k, b is None, 'tie', b or 'ok')


def tie_one(ctx, lean, X, vt, t, v, log, eps_hex, note, rng):
    d = X.shape[1]
    real = extract(v)
    ctx.case((vt, d, t, struct_key(real)), nontrivial=d >= 3)
    where = {'type': vt, 'd': d, 't': t}
    if any(e['index'] != i or (e['parents'] is not None and 999 in e['parents'])
           for tr in real for i, e in enumerate(tr)):
        note('corr:structure extractable', dict(where, trees=real))
        return
    T = enc_trees(real)
    edges_flat = [(k, i, e) for k, tr in enumerate(v.trees) for i, e in enumerate(tr.edges)]
    for _, _, e in edges_flat:
        ctx.count(f'family={fam_of(e)}')

    # ---- fit plan
    import copulas.bivariate as CB
    plan = parse_levels(lean.ask('flow fit ' + T), 2)
    need = parse_levels(lean.ask('flow need ' + T), 4)
    if isinstance(plan, tuple) or isinstance(need, tuple) or len(log) != len(edges_flat):
        note('corr:select_copula inputs = plan inputs',
             dict(where, plan=str(plan)[:200], need=str(need)[:100], calls=len(log), edges=len(edges_flat)))
        return
    any_wrong = []
    for n_call, (k, i, e) in enumerate(edges_flat):
        sl, sr = plan[k][i]
        l, r = src_array(v, k, sl), src_array(v, k, sr)
        Xlr = np.column_stack((l, r))
        Xsel, fam_sel, th_sel = log[n_call]
        swapped = False
        if not bits_eq(Xsel, Xlr):
            if k == 0 and bits_eq(Xsel, np.column_stack((r, l))):
                swapped = True
                ctx.count('first tree: select_copula saw the pair as (R, L)')
            else:
                note('corr:select_copula inputs = plan inputs', dict(where, tree=k, edge=i, plan=(sl, sr)))
        try:
            c = CB.select_copula(np.column_stack((r, l)) if swapped else Xlr)
            okfam = c.copula_type == e.name and bits_eq(c.theta, e.theta)
        except Exception as ex:  # noqa
            okfam = False
        if not okfam:
            note('corr:edge.name/theta = select_copula(plan inputs)',
                 dict(where, tree=k, edge=i, edge_family=str(e.name), edge_theta=repr(e.theta)))
        cop = copula_of(e)
        with np.errstate(all='ignore'):
            hl = np.asarray(cop.partial_derivative(Xlr), dtype=float)
            hr = np.asarray(cop.partial_derivative(np.column_stack((r, l))), dtype=float)
        st_, fixed = lean.floats('flow fix01 ' + eps_hex + ' ' + ' '.join(vc.f2h(x) for x in np.concatenate([hl, hr])))
        n = len(hl)
        if st_ != 'ok' or not bits_eq(np.array([fixed[:n], fixed[n:]]), e.U):
            note('corr:edge.U = fix01(H(plan inputs))', dict(where, tree=k, edge=i, status=st_))
        if int(np.sum((hl <= 0) | (hl >= 1) | (hr <= 0) | (hr >= 1))):
            ctx.count('fix01 fired')
        if int(np.sum((hl < 0) | (hl > 1) | (hr < 0) | (hr > 1))):
            ctx.count('fix01 fired on a value outside [0,1]')
        U = np.asarray(e.U, dtype=float)
        h_in = not bool(np.isnan(hl).any() or np.isnan(hr).any())
        if not bool(np.all((U > 0) & (U < 1))):
            bi = np.argwhere(~((U > 0) & (U < 1)))[0]
            if h_in:       # instance of fix01_range
                note('corr:U = fix01(non-NaN H) strictly inside (0,1)', dict(where, tree=k, edge=i, value=repr(U[tuple(bi)])))
            ctx.count('pseudo-observation outside (0,1)')
            ctx.fail_input('VineCopula.fit', table_input(X, vt, t),
                           {'tree': k + 1, 'edge': i, 'family': str(e.name), 'theta': float(np.ravel(e.theta)[0]),
                            'U': repr(float(U[tuple(bi)]))},
                           'pseudo-observations strictly inside (0,1)', CLS_URANGE)
        # which rows does the real code take / which are needed
        fl, so, nl, nr = need[k][i]
        ctx.count(f'flowOK={fl}' if k > 0 else 'first-tree edge')
        if k > 0:
            if so != '1':
                note('corr:parents in sort_edge order',
                     dict(where, tree=k, edge=i, parents=[(int(p.L), int(p.R), sorted(int(x) for x in p.D)) for p in e.parents]))
            if vt == 'center' and k == 1 and real[k][i]['parents'][0] != 0:
                ctx.count('center level 2: anchor edge sorts after the other parent')
            from copulas.multivariate.tree import Edge
            lu, ru = Edge.get_conditional_uni(*e.parents)
            prev = v.trees[k - 1].edges
            used = tuple(None if w is None else f'u{w[0]}.{w[1]}' for w in (which_slot(prev, lu), which_slot(prev, ru)))
            if used != (sl, sr):
                note('corr:get_conditional_uni rows = plan', dict(where, tree=k, edge=i, real=used, plan=(sl, sr)))
            if fl == '1' and (sl, sr) != (nl, nr):
                note('corr:flowOK => plan = needed slots', dict(where, tree=k, edge=i, plan=(sl, sr), need=(nl, nr)))
            if (sl, sr) != (nl, nr):
                any_wrong.append({'cause': cause_of(vt, k, so == '1', fl == '1'), 'tree': k + 1,
                                  'edge': (real[k][i]['L'], real[k][i]['R'], real[k][i]['D']),
                                  'parents': [(int(p.L), int(p.R), sorted(int(x) for x in p.D)) for p in e.parents],
                                  'used': (sl, sr), 'needed': (nl, nr)})
    if any_wrong:
        ctx.count('vines with a wrongly fed edge')
    for cause in sorted({w['cause'] for w in any_wrong}, key=str):
        ctx.count(f'wrongly fed edge, cause={cause or "recorded finding"}')
        ctx.fail_input('VineCopula.fit', table_input(X, vt, t), [w for w in any_wrong if w['cause'] == cause][0],
                       'each pair copula is fitted on F(L|D) and F(R|D)', cls_wrongu(cause))

    # ---- likelihood plan
    good = lean.ask('flow good ' + T) == 'ok 1'
    ctx.count(f'goodVine={int(good)} type={vt}')
    if vt == 'center' and not good:
        note('corr:center vine => goodVine', dict(where, trees=[[(e['L'], e['R'], e['D'], e['parents']) for e in t_] for t_ in real]))
    lplan = parse_levels(lean.ask('flow lik ' + T), 2)
    spec = parse_spec(lean.ask('flow spec ' + T))
    u = np.array([[rng.uniform(0.02, 0.98) for _ in range(d)]])
    if isinstance(lplan, tuple):
        r0 = real_lik(v, u)
        if not (isinstance(r0, str) and lplan[1].split()[-1] in ('IndexError', 'ValueError', 'TypeError')
                and r0 == 'exc:' + lplan[1].split()[-1]):
            note('corr:get_likelihood = sum log pdf along plan reads', dict(where, model=lplan[1][:80], real=r0))
    else:
        unwritten = [(k, i, tok) for k, lv in enumerate(lplan) for i, rd in enumerate(lv) for tok in rd if tok[0] == 'x']
        ctx.count('likelihood plan: reads of unwritten cells' if unwritten else 'likelihood plan: all reads written')
        res = []
        for s in SENTINELS:
            r_real = real_lik(v, u, s)
            with np.errstate(all='ignore'):
                try:
                    r_plan = lik_by_plan(v, lplan, u, s)
                except Exception as ex:  # noqa
                    r_plan = 'exc:' + type(ex).__name__
            res.append(r_real)
            if not same_num(r_real, r_plan):
                note('corr:get_likelihood = sum log pdf along plan reads',
                     dict(where, u=u.tolist(), sentinel=s, real=r_real, plan=r_plan))
            elif not isinstance(r_real, str) and r_real == r_plan:
                ctx.count('likelihood bit-exact')
        r_plain = real_lik(v, u)
        if not unwritten:
            if not (same_num(res[0], res[1], 0.0) and same_num(res[0], r_plain, 0.0)):
                note('corr:all reads written => deterministic', dict(where, u=u.tolist(), results=res + [r_plain]))
        else:
            if not same_num(res[0], res[1], 0.0):
                ctx.count('unwritten read observed: result changes with the buffer content')
                ctx.fail_input('VineCopula.get_likelihood', table_input(X, vt, t, u=u.tolist()),
                               {'np.empty filled with %r' % SENTINELS[0]: res[0],
                                'np.empty filled with %r' % SENTINELS[1]: res[1],
                                'unwritten cells read (tree, edge, cell)': [(k + 1, i, tok[1:]) for k, i, tok in unwritten[:4]]},
                               'get_likelihood(u) is a function of (model, u)',
                               cls_unwritten(next((c_ for c_ in (cause_of(vt, k, need[k][i][1] == '1', need[k][i][0] == '1')
                                                                  for k, i, _ in unwritten) if c_ is not None), None)))
            else:
                ctx.count('unwritten read but result insensitive')
        if not isinstance(spec, tuple):
            with np.errstate(all='ignore'):
                r_spec = lik_by_spec(v, spec, u)
            if good and not same_num(r_plain, r_spec):
                note('corr:goodVine => get_likelihood = specification sum',
                     dict(where, u=u.tolist(), real=r_plain, spec=r_spec))
            if not good and not unwritten and not same_num(r_plain, r_spec, 1e-9):
                ctx.count('all reads written but wrong cells')
                ctx.fail_input('VineCopula.get_likelihood', table_input(X, vt, t, u=u.tolist()),
                               {'get_likelihood': r_plain, 'sum at h-propagated arguments': r_spec},
                               'sum of log pair-copula densities at the h-propagated arguments', CLS_WRONGCELL)
        elif good:
            note('corr:goodVine => get_likelihood = specification sum', dict(where, spec=str(spec)[:100]))

    # ---- sampling plan
    for _ in range(2):
        seed = rng.getrandbits(31)
        unis, first = draw_like_sample_row(seed, d)
        rooted = lean.ask(f'flow rooted {d} {first} {T}')
        if rooted != 'ok 1':
            note('corr:first tree rooted-tree certificate', dict(where, first=first, reply=rooted,
                                                                  tree=[(e['L'], e['R']) for e in real[0]]))
        visits = parse_sample(lean.ask(f'flow sample {d} {int(v.truncated)} {first} {T}'))
        row = real_row(v, seed)
        if isinstance(visits, tuple):
            kind = visits[1].split()[-1]
            if not (isinstance(row, str) and row == 'exc:' + kind):
                note('corr:_sample_row = sampling plan', dict(where, seed=seed, model=visits[1][:80], real=str(row)[:80]))
            continue
        order = [c for c, _, _ in visits]
        if sorted(order) != list(range(d)):
            note('corr:_sample_row = sampling plan', dict(where, seed=seed, order=order))
        for c, g, steps in visits[1:]:
            ctx.count('visit: no pair copula applied' if not steps else
                      ('visit: first inversion fresh' if steps[0][2] else 'visit: first inversion uses stale tmp'))
        try:
            with np.errstate(all='ignore'):
                mine = row_by_plan(v, visits, unis)
        except Exception as ex:  # noqa
            mine = 'exc:' + type(ex).__name__
        if isinstance(row, str) or isinstance(mine, str):
            ctx.count(f'_sample_row raised {row if isinstance(row, str) else mine}')
            if not (isinstance(row, str) and isinstance(mine, str) and row == mine):
                note('corr:_sample_row = sampling plan', dict(where, seed=seed, real=str(row)[:80], plan=str(mine)[:80]))
        elif not bits_eq(row, mine):
            note('corr:_sample_row = sampling plan', dict(where, seed=seed, first=first, real=row.tolist(),
                                                          plan=mine.tolist(), visits=visits))
    prob = sample_oracle(v, X, 3, rng.getrandbits(31))
    if prob:
        note('corr:sample(n) shape/no-NaN/reproducible', dict(where, problem=prob))
    ctx.sample({'type': vt, 'd': d, 't': t, 'good': good,
                'trees': [[f'{e["L"]},{e["R"]}|{"".join(map(str, e["D"]))}' for e in t_] for t_ in real]})


def sample_oracle(v, X, n, seed):
    """sample(n): n rows, training columns in order, no NaN, reproducible under random_state; equals the
    sequence of _sample_row under the same generator state.  -> problem text or None"""
    try:
        with np.errstate(all='ignore'):
            v.set_random_state(seed)
            a = v.sample(n)
            v.set_random_state(seed)
            b = v.sample(n)
            st = np.random.get_state()
            try:
                np.random.seed(seed)
                rows = [np.asarray(v._sample_row(), dtype=float) for _ in range(n)]
            finally:
                np.random.set_state(st)
    except ValueError as ex:
        if 'different signs' in str(ex):
            return None          # Brent bracket failure of percent_point: C08's recorded finding
        return f'sample raised {type(ex).__name__}: {str(ex)[:80]}'
    except Exception as ex:  # noqa
        return f'sample raised {type(ex).__name__}: {str(ex)[:80]}'
    finally:
        v.random_state = None
    if not isinstance(a, pd.DataFrame) or a.shape != (n, X.shape[1]):
        return f'shape {getattr(a, "shape", None)} expected {(n, X.shape[1])}'
    if list(a.columns) != list(X.columns):
        return f'columns {list(a.columns)} expected {list(X.columns)}'
    if bool(a.isna().to_numpy().any()):
        return 'NaN in the sampled rows'
    if not bits_eq(a.to_numpy(), b.to_numpy()):
        return 'two calls with the same random_state differ'
    if not bits_eq(a.to_numpy(), np.array(rows)):
        return 'sample(n) differs from n calls of _sample_row under the same generator state'
    return None


# ----------------------------------------------------------------------------- failing-input search (no Lean)
def check_real(ctx, X, vt, t, counts, rng, deep):
    d = X.shape[1]
    st, v, log = real_fit(X, vt, t)
    counts['fits'] += 1
    if st != 'ok':
        counts['refused'] += 1
        return
    counts['checked'] += 1
    inp = table_input(X, vt, t)
    # pseudo-observations
    for k, tr in enumerate(v.trees):
        for i, e in enumerate(tr.edges):
            U = np.asarray(e.U, dtype=float)
            if U.shape != (2, X.shape[0]):
                counts['failures'] += 1
                ctx.fail_input('VineCopula.fit', inp, {'tree': k + 1, 'edge': i, 'edge.U.shape': list(U.shape),
                                                       'training rows': int(X.shape[0])},
                               'edge.U holds one pseudo-observation per training row (2 x n)',
                               'Tree.prepare_next_tree:U-row-count-differs-from-training-rows')
                continue
            if not bool(np.all((U > 0) & (U < 1))):
                counts['failures'] += 1
                ctx.fail_input('VineCopula.fit', inp, {'tree': k + 1, 'edge': i, 'min': float(np.nanmin(U)),
                                                       'max': float(np.nanmax(U)), 'nan': bool(np.isnan(U).any())},
                               'pseudo-observations strictly inside (0,1)', CLS_URANGE)
    bad_u = oracle_U(v)
    counts['edges U-checked'] += sum(len(tr.edges) for tr in v.trees)
    if bad_u:
        counts['failures'] += 1
        ctx.fail_input('VineCopula.fit', inp, bad_u,
                       'edge.U = (h(l|r), h(r|l)) of the edge copula at the edge inputs, replaced by EPS / 1-EPS only on '
                       'rows where the raw value is <= 0 / >= 1', CLS_UCLAMP)
    wrong = oracle_inputs(v) if d >= 3 else []
    for cause in sorted({w['cause'] for w in wrong}, key=str):
        counts['failures'] += 1
        counts['wrong-parent-U'] += 1
        ctx.fail_input('VineCopula.fit', inp, [w for w in wrong if w['cause'] == cause][0],
                       'each pair copula is fitted on F(L|D) and F(R|D)', cls_wrongu(cause))
    # likelihood
    u = np.array([[rng.uniform(0.02, 0.98) for _ in range(d)]])
    res = [real_lik(v, u, s) for s in SENTINELS]
    inp_u = table_input(X, vt, t, u=u.tolist())
    # VineCopula.get_likelihood itself (independent of what the trees read): every tree once, in order, and the
    # result is the sum of the trees' values; its own `values` buffer must not leak (second sentinel pair)
    counts['vine-sum checks'] += 1
    vs = vine_sum_oracle(v, u)
    if vs:
        counts['failures'] += 1
        ctx.fail_input('VineCopula.get_likelihood', inp_u, vs, 'get_likelihood(u) = sum over ALL trees of the tree values',
                       'VineCopula.get_likelihood:not-sum-over-all-trees')
    own = [real_lik(v, u, SENTINELS[0], s) for s in SENTINELS]
    if not same_num(own[0], own[1], 0.0):
        counts['failures'] += 1
        ctx.fail_input('VineCopula.get_likelihood', inp_u,
                       {'vine.py np.empty filled with %r' % SENTINELS[0]: own[0],
                        'vine.py np.empty filled with %r' % SENTINELS[1]: own[1], 'trees': len(v.trees)},
                       'get_likelihood(u) is a function of (model, u)', 'VineCopula.get_likelihood:nondeterministic')
    if not same_num(res[0], res[1], 0.0):
        counts['failures'] += 1
        counts['lik-nondeterministic'] += 1
        ctx.fail_input('VineCopula.get_likelihood', inp_u,
                       {'np.empty filled with %r' % SENTINELS[0]: res[0], 'np.empty filled with %r' % SENTINELS[1]: res[1]},
                       'get_likelihood(u) is a function of (model, u)',
                       cls_unwritten('no-wrongly-fed-edge' if not wrong else
                                     next((w['cause'] for w in wrong if w['cause'] is not None), None)))
    else:
        with np.errstate(all='ignore'):
            try:
                want = oracle_lik(v, u)
            except Exception as ex:  # noqa
                want = 'exc:' + type(ex).__name__
        r = real_lik(v, u)
        if not isinstance(r, str) and r != r and want != want:
            counts['lik-nan-agrees'] += 1      # a pair density is 0/NaN at saturated h values: both sides NaN
        if isinstance(r, str) or not same_num(r, want, 1e-9):
            counts['failures'] += 1
            counts['lik-wrong-value'] += 1
            ctx.fail_input('VineCopula.get_likelihood', inp_u, {'get_likelihood': r, 'sum at h-propagated arguments': want},
                           'sum of log pair-copula densities at the h-propagated arguments',
                           CLS_WRONGCELL if not isinstance(r, str) else 'VineCopula.get_likelihood:raises')
    # sampling
    prob = sample_oracle(v, X, 4 if not deep else 6, rng.getrandbits(31))
    if prob:
        counts['failures'] += 1
        ctx.fail_input('VineCopula.sample', inp, prob, 'n rows, training columns in order, no NaN, reproducible',
                       'VineCopula.sample:' + prob.split(' ')[0])
    if d == 2:
        counts['quantile checks'] += 1
        qp = quantile_oracle(v, 60 if not deep else 150, rng.getrandbits(31))
        if qp:
            counts['failures'] += 1
            ctx.fail_input('VineCopula.sample', inp, qp, 'each sampled value is the fitted marginal quantile of the uniform '
                           'the vine produced for it: cdf_j(x) = u within 1e-6; values distinct', CLS_QUANT)
    if deep and d == 2:
        two_column_stats(ctx, X, vt, t, v, counts, rng)


def two_column_stats(ctx, X, vt, t, v, counts, rng):
    """d = 2: samples reproduce the fitted marginals (DKW) and the pair copula's Kendall tau (Hoeffding for
    U-statistics), each at false-alarm probability <= 2.5e-10; the clamp `min(max(tmp, EPS), 0.99)` moves at
    most 1% of mass (allowed for)."""
    from scipy.stats import kendalltau
    n = 1200
    try:
        v.set_random_state(rng.getrandbits(31))
        with np.errstate(all='ignore'):
            S = v.sample(n).to_numpy()
    except Exception:  # noqa
        return
    finally:
        v.random_state = None
    counts['two-column stats'] += 1
    delta = 2.5e-10
    band = math.sqrt(math.log(2 / delta) / (2 * n)) + 0.01 + 0.01
    for j in range(2):
        xs = np.sort(S[:, j])
        F = np.asarray(v.unis[j].cumulative_distribution(xs), dtype=float)
        emp_hi = np.arange(1, n + 1) / n
        emp_lo = np.arange(0, n) / n
        dist = float(max(np.max(np.abs(F - emp_hi)), np.max(np.abs(F - emp_lo))))
        if not dist <= band:
            counts['failures'] += 1
            ctx.fail_input('VineCopula.sample', table_input(X, vt, t), {'column': j, 'sup|F_n - F_fitted|': dist, 'band': band},
                           'two-column samples reproduce the fitted marginals', 'VineCopula.sample:two-column-marginal')
    tau_s = float(kendalltau(S[:, 0], S[:, 1])[0])
    tau_m = float(kendalltau(X.iloc[:, 0], X.iloc[:, 1])[0])
    tband = math.sqrt(2 * math.log(2 / delta) / (n // 2)) + 0.04
    if not abs(tau_s - tau_m) <= tband:
        counts['failures'] += 1
        ctx.fail_input('VineCopula.sample', table_input(X, vt, t), {'tau(sample)': tau_s, 'tau(pair copula)': tau_m, 'band': tband},
                       'two-column samples reproduce the Kendall tau of the selected pair copula',
                       'VineCopula.sample:two-column-tau')


def vine_signature(v, u, seed):
    """everything observable the property speaks about, canonicalised (floats as bit patterns)."""
    sig = {'trees': len(v.trees), 'unis': len(v.unis), 'ppfs': len(v.ppfs), 'n_var': int(v.n_var),
           'columns': [str(c) for c in v.columns], 'truncated': int(v.truncated)}
    sig['edges'] = [[(int(e.L), int(e.R), tuple(sorted(int(x) for x in e.D)), fam_of(e), vc.f2h(np.ravel(e.theta)[0]))
                     for e in tr.edges] for tr in v.trees]
    sig['u_matrix'] = vc.f2h(float(np.sum(np.asarray(v.u_matrix)))) + str(np.asarray(v.u_matrix).shape)
    sig['edge.U'] = [[vc.f2h(float(np.sum(np.asarray(e.U)))) for e in tr.edges] for tr in v.trees]
    lk = real_lik(v, u, SENTINELS[0], SENTINELS[0])
    sig['get_likelihood(u) with np.empty filled'] = lk if isinstance(lk, str) else vc.f2h(lk)
    try:
        v.set_random_state(seed)
        with np.errstate(all='ignore'):
            smp = v.sample(3)
        sig['sample(3) seeded'] = [list(map(str, smp.columns)), [vc.f2h(x) for x in smp.to_numpy().ravel()]]
    except Exception as ex:  # noqa
        sig['sample(3) seeded'] = 'exc:' + type(ex).__name__ + (':brent' if 'different signs' in str(ex) else '')
    finally:
        v.random_state = None
    return sig


def refit_oracle(ctx, A, tA, B, t, vt, counts, rng):
    """a fitted vine describes the table it was LAST fitted on: m.fit(A); m.fit(B) must be observably the vine a
    fresh object gives on B (tree / marginal counts, every edge, get_likelihood on a probe, seeded sample).
    ALL fits run with np.empty sentinel-filled inside copulas.multivariate.tree and .vine (the same sentinel): the
    unchanged library's Tree.get_tau_matrix reads cells it never wrote (C19's recorded finding
    `Tree.get_tau_matrix:reads-unwritten-cells`), so the structure of trees >= 3 of direct / regular vines depends
    on memory garbage and two independent fits may legitimately differ; with the sentinel they read the same."""
    from copulas.multivariate.vine import VineCopula
    counts['refit histories'] += 1
    S = SENTINELS[0]
    try:
        with time_limit(3 * FIT_TIMEOUT_S), poisoned_empty(S, S):
            fresh = VineCopula(vt)
            fresh.fit(B, truncated=t)
    except Exception:  # noqa
        counts['refused'] += 1
        return
    try:
        with time_limit(3 * FIT_TIMEOUT_S), poisoned_empty(S, S):
            m = VineCopula(vt)
            m.fit(A, truncated=tA)
            # the object is USED between the fits (sampling, likelihood): caches filled by use must not survive a refit
            try:
                m.set_random_state(1)
                with np.errstate(all='ignore'):
                    m.sample(6)
                    m.get_likelihood(np.full((1, A.shape[1]), 0.5))
            except Exception:  # noqa
                pass
            finally:
                m.random_state = None
    except Exception:  # noqa
        counts['refused'] += 1
        return
    inp = {'history': 'fit(A), sample(6), get_likelihood, then fit(B) on the same object', 'vine_type': vt, 'truncated_A': int(tA), 'truncated': int(t),
           'A': {'columns': list(A.columns), 'rows': A.to_numpy().tolist()},
           'B': {'columns': list(B.columns), 'rows': B.to_numpy().tolist()}}
    try:
        with time_limit(3 * FIT_TIMEOUT_S), poisoned_empty(S, S):
            m.fit(B, truncated=t)
    except Exception as ex:  # noqa
        counts['failures'] += 1
        ctx.fail_input('VineCopula.fit', inp, f'second fit raised {type(ex).__name__}: {str(ex)[:80]}',
                       'the second fit behaves like a fit of a fresh object', CLS_REFIT)
        return
    d = B.shape[1]
    u = np.array([[rng.uniform(0.05, 0.95) for _ in range(d)]])
    seed = rng.getrandbits(31)
    s1, s2 = vine_signature(m, u, seed), vine_signature(fresh, u, seed)
    diff = [k for k in s2 if s1.get(k) != s2[k]]
    if diff:
        counts['failures'] += 1
        k = diff[0]
        ctx.fail_input('VineCopula.fit', dict(inp, u=u.tolist(), seed=seed),
                       {'differs in': diff, k + ' (refitted)': str(s1.get(k))[:200], k + ' (fresh)': str(s2[k])[:200]},
                       'm.fit(A); m.fit(B) is observably the vine of a fresh fit(B)', CLS_REFIT)


LABEL_KINDS = ('str', 'ints', 'perm', 'tuples')
STATES = ('VineCopula.from_dict', 'Multivariate.from_dict', 'VineCopula.load', 'copy.deepcopy')


def make_labels(kind, d):
    if kind == 'str':
        return [f'c{i}' for i in range(d)]
    if kind == 'ints':
        return [10 * (i + 1) for i in range(d)]
    if kind == 'perm':
        return [2, 0, 1][:d] if d == 3 else [1, 0]
    return pd.Index([(chr(97 + i), i + 1) for i in range(d)], tupleize_cols=False)


def gen_distinct_marginals(rng, d, kind):
    """columns with clearly different location / scale (so one column's marginal cannot pass for another's)."""
    rs = np.random.RandomState(rng.getrandbits(32))
    n = rng.randint(60, 100)
    z = rs.randn(n)
    cols = [5 + 2 * z + rs.randn(n), -300 + 40 * (rng.choice([-0.7, 0.6]) * z + rs.randn(n)), 1e4 + 0.01 * (0.5 * z + rs.randn(n))]
    order = rng.sample(range(3), d)
    return pd.DataFrame(np.column_stack([cols[i] for i in order]), columns=make_labels(kind, d))


def restored_states(v):
    """name -> zero-argument constructor of an object that must behave like `v`."""
    import copy
    import os
    import tempfile
    from copulas.multivariate.base import Multivariate
    from copulas.multivariate.vine import VineCopula

    def via_file():
        os.makedirs('/scratch/c17', exist_ok=True)
        fd, path = tempfile.mkstemp(suffix='.pkl', dir='/scratch/c17')
        os.close(fd)
        try:
            v.save(path)
            return VineCopula.load(path)
        finally:
            os.unlink(path)
    return {'VineCopula.from_dict': lambda: VineCopula.from_dict(v.to_dict()),
            'Multivariate.from_dict': lambda: Multivariate.from_dict(v.to_dict()),
            'VineCopula.load': via_file, 'copy.deepcopy': lambda: copy.deepcopy(v)}


def labels_repr(cols):
    return [f'{type(c).__name__}:{c!r}' for c in cols]


def state_problems(v, X, seed, n=4, nq=16):
    """a restored / copied vine samples bitwise like the original under the same seed, with the training labels
    (type and order), and every sampled value is the quantile of its OWN column's marginal.
    -> list of (state, what, detail)"""
    out = []
    try:
        v.set_random_state(seed)
        with np.errstate(all='ignore'):
            A = v.sample(n)
    except Exception as ex:  # noqa
        return out
    finally:
        v.random_state = None
    want_labels = labels_repr(X.columns)
    if labels_repr(A.columns) != want_labels:
        out.append(('VineCopula.sample', 'column-labels-differ', {'sampled': labels_repr(A.columns), 'training': want_labels}))
    for state, make in restored_states(v).items():
        try:
            m = make()
            m.set_random_state(seed)
            with np.errstate(all='ignore'):
                B = m.sample(n)
            m.random_state = None
        except Exception as ex:  # noqa
            out.append((state, 'raises', f'{type(ex).__name__}: {str(ex)[:100]}'))
            continue
        if not isinstance(B, pd.DataFrame) or B.shape != A.shape or bool(B.isna().to_numpy().any()):
            out.append((state, 'sample-shape-or-NaN', {'shape': getattr(B, 'shape', None), 'expected': A.shape}))
            continue
        if labels_repr(B.columns) != want_labels:
            out.append((state, 'column-labels-differ', {'sampled': labels_repr(B.columns), 'training': want_labels}))
        if not bits_eq(A.to_numpy(), B.to_numpy()):
            out.append((state, 'sample-differs-from-original', {'original': A.to_numpy().tolist(), 'restored': B.to_numpy().tolist()}))
        q = quantile_oracle(m, nq, seed)
        if q:
            out.append((state, 'marginal-quantile-inaccurate', q))
    return out


def states_oracle(ctx, X, kind, counts, rng):
    from copulas.multivariate.vine import VineCopula
    d = X.shape[1]
    try:
        with time_limit(FIT_TIMEOUT_S):
            v = VineCopula('center')
            v.fit(X, truncated=d)
    except Exception:  # noqa
        counts['refused'] += 1
        return []
    counts['object states'] += len(STATES)
    probs = state_problems(v, X, rng.getrandbits(31))
    inp = {'states': True, 'label_kind': kind, 'labels': labels_repr(X.columns), 'rows': X.to_numpy().tolist(),
           'vine_type': 'center', 'truncated': d}
    seen = set()
    for state, what, detail in probs:
        cls = f'{state}:{what}'
        if cls in seen:
            continue
        seen.add(cls)
        counts['failures'] += 1
        ctx.fail_input(state, inp, detail, 'a restored / copied vine samples like the original: same labels (type, order), '
                       'same values under the same seed, each column from its own fitted marginal', cls)
    return probs


def new_counts():
    return {'fits': 0, 'checked': 0, 'refused': 0, 'failures': 0, 'wrong-parent-U': 0, 'lik-nondeterministic': 0,
            'lik-wrong-value': 0, 'lik-nan-agrees': 0, 'two-column stats': 0, 'refit histories': 0,
            'edges U-checked': 0, 'quantile checks': 0, 'object states': 0, 'vine-sum checks': 0,
            'clayton tables': 0, 'clayton-generated tables with another family': 0, 'inversions checked': 0,
            'two-column tau checks': 0, 'shadow-class checks': 0,
            'off-diagonal likelihood probes': 0, 'off-diagonal probes with NaN/inf result': 0}


def search(ctx, deep):
    rng = ctx.rng('search')
    counts = new_counts()
    n_tables = 24 if deep else 6
    for it in range(n_tables):
        d = rng.choice([2, 2, 3, 4, 4, 5, 5, 6]) if deep else rng.choice([2, 3, 4, 5, 6])
        mode = rng.choices(MODES, MODE_W)[0]
        if it < 2:
            d, mode = (2, 3)[it], 'redundant'
        elif it == 2:
            d, mode = 2, 'offset'
        elif it == 3:
            d = 2
        elif it == 4:
            d = rng.choice([5, 6])       # deep vines: truncation 4 and 5 for every vine type (below)
        n_rows = None
        if it == 5:
            d, n_rows = 3, 257           # row counts around a block size: one h-value per training row
        elif deep and it in (6, 7, 8):
            d, n_rows = rng.choice([2, 3]), {6: 255, 7: 256, 8: 513}[it]
        X = gen_table(rng, d, mode, n_rows)
        for vt in TYPES:
            ts = sorted({1, d - 1 if d > 2 else 1, d, rng.randint(1, d)}) if deep else [rng.choice([1, d - 1, d])]
            if it == 4:
                ts = [4, 5]
            if deep and d == 2:
                ts = [rng.choice([1, 2])]
            for t in ts:
                check_real(ctx, X, vt, max(1, t), counts, rng, deep)
    # refit histories: the same object fitted twice (same table; table A then table B of another shape)
    for it in range(2 if deep else 1):
        dA, dB = rng.choice([2, 3, 4]), rng.choice([2, 3, 4, 5])
        A = gen_table(rng, dA, rng.choices(MODES, MODE_W)[0])
        B = gen_table(rng, dB, rng.choices(MODES, MODE_W)[0])
        for vt in TYPES:
            refit_oracle(ctx, A, rng.randint(1, dA), B, rng.randint(1, dB), vt, counts, rng)
            tB = rng.randint(1, dB)
            refit_oracle(ctx, B, tB, B, tB, vt, counts, rng)
    sampling_coherence(ctx, counts, rng, deep)
    shadow_oracle(ctx, counts, rng)
    offdiag_lik_oracle(ctx, counts, rng)
    # object states: restored via from_dict / Multivariate.from_dict / save+load / deepcopy, four label kinds
    for it in range(2 if deep else 1):
        for kind in LABEL_KINDS:
            d = rng.choice([2, 3])
            states_oracle(ctx, gen_distinct_marginals(rng, d, kind), kind, counts, rng)
    ctx.support = dict(counts, deep=deep)


def replay(ctx, payload):
    inp = payload['input']
    counts = new_counts()
    before = len(ctx.failing)
    rng = ctx.rng('replay')
    if inp.get('states'):
        d = len(inp['rows'][0])
        X = pd.DataFrame(np.array(inp['rows'], dtype=float), columns=make_labels(inp['label_kind'], d))
        states_oracle(ctx, X, inp['label_kind'], counts, rng)
        return any(f['class'] == payload.get('class') for f in ctx.failing[before:])
    if 'history' in inp:
        A = pd.DataFrame(np.array(inp['A']['rows'], dtype=float), columns=inp['A']['columns'])
        B = pd.DataFrame(np.array(inp['B']['rows'], dtype=float), columns=inp['B']['columns'])
        refit_oracle(ctx, A, inp['truncated_A'], B, inp['truncated'], inp['vine_type'], counts, rng)
        return any(f['class'] == payload.get('class') for f in ctx.failing[before:])
    X = pd.DataFrame(np.array(inp['rows'], dtype=float), columns=inp['columns'])
    if str(payload.get('class', '')).startswith('Bivariate.__new__'):
        shadow_oracle(ctx, counts, rng)
        return any(f['class'] == payload.get('class') for f in ctx.failing[before:])
    if payload.get('class') == 'VineCopula.sample:pair-copula-inversion-inaccurate':
        st, v, _ = real_fit(X, inp['vine_type'], inp['truncated'])
        return st == 'ok' and any(inversion_oracle(v, 40, sd)[0] for sd in (1, 2, 3))
    for _ in range(3):     # the likelihood clauses draw u: a few draws
        check_real(ctx, X, inp['vine_type'], inp['truncated'], counts, rng, False)
        if any(f['class'] == payload.get('class') for f in ctx.failing[before:]):
            return True
    return False
